#!/usr/bin/env python3
"""Validates a seeded change (patch + demonstration) in a scratch clone of /repo and runs checks against it.

usage: tools/seeded.py <seeded dir> --checks C01,C09 [--tier quick] [--demo-race]
The seeded dir holds patch.diff and demo_test.go (first line: placement dir + go test command).
Prints a JSON summary (also written to <dir>/last_run.json)."""
import argparse, json, os, re, shutil, subprocess, sys, tempfile, time
ap = argparse.ArgumentParser()
ap.add_argument("dir")
ap.add_argument("--checks", required=True)
ap.add_argument("--tier", default="quick")
ap.add_argument("--seed", default="1")
ap.add_argument("--skip-validate", action="store_true")
a = ap.parse_args()
env = dict(os.environ, GOFLAGS="-mod=mod", GOPROXY="off", GOSUMDB="off", GOTOOLCHAIN="local")
d = os.path.abspath(a.dir)
meta_path = os.path.join(d, "meta.json")
meta = json.load(open(meta_path)) if os.path.exists(meta_path) else {}
tmp = tempfile.mkdtemp(prefix="seeded_", dir="/tmp")
res = {"validated": None, "checks": {}}
try:
    repo = os.path.join(tmp, "repo")
    subprocess.check_call(["git", "clone", "-q", "/repo", repo])
    demo = open(os.path.join(d, "demo_test.go")).read()
    place = meta.get("demo_dir")
    cmd = meta.get("demo_cmd")
    def run(c, cwd=repo, timeout=600):
        p = subprocess.run(c, cwd=cwd, env=env, shell=isinstance(c, str), stdout=subprocess.PIPE, stderr=subprocess.STDOUT, text=True, timeout=timeout)
        return p.returncode, p.stdout
    if not a.skip_validate:
        demo_path = os.path.join(repo, place, meta.get("demo_file", "seeded_demo_test.go"))
        # 1. demo passes on the original tree
        open(demo_path, "w").write(demo)
        rc0, out0 = run(cmd)
        # 2. with the change: suite passes (without the demo), demo fails
        os.remove(demo_path)
        subprocess.check_call(["git", "-C", repo, "apply", os.path.join(d, "patch.diff")])
        rcs, outs = run("go test -vet=off -count=1 ./...")
        open(demo_path, "w").write(demo)
        rc1, out1 = run(cmd)
        os.remove(demo_path)
        res["validated"] = {"demo_passes_on_original": rc0 == 0, "suite_passes_with_change": rcs == 0, "demo_fails_with_change": rc1 != 0}
        if rc0 != 0:
            res["validated"]["demo_on_original_output"] = out0[-1500:]
        if rcs != 0:
            res["validated"]["suite_output"] = outs[-1500:]
        if rc1 == 0:
            res["validated"]["demo_with_change_output"] = out1[-800:]
    else:
        subprocess.check_call(["git", "-C", repo, "apply", os.path.join(d, "patch.diff")])
    # the checks run from a private copy of /verif (own .build/.work/evidence/replays) so that they cannot collide with checks
    # run against /repo at the same time
    vcopy = os.path.join(tmp, "verif")
    subprocess.check_call(["rsync", "-a", "--exclude", ".git", "--exclude", ".build", "--exclude", ".work", "--exclude", "replays",
                           "--exclude", "seeded", "--exclude", "evidence", "/verif/", vcopy + "/"])
    for c in a.checks.split(","):
        e = dict(env, VERIF_REPO=repo, VERIF_SEED=a.seed)
        t0 = time.time()
        p = subprocess.run([sys.executable, os.path.join(vcopy, "check.py"), c, a.tier], env=e, stdout=subprocess.PIPE, stderr=subprocess.PIPE, text=True)
        v = [l for l in p.stdout.splitlines() if l.startswith("VIOLATION")]
        msg = ""
        if v:
            lines = p.stdout.splitlines()
            i = lines.index(v[0])
            msg = " ".join(lines[i + 1:i + 3])[:500]
        res["checks"][c] = {"tier": a.tier, "exit": p.returncode, "violation": bool(v), "wall_s": round(time.time() - t0, 1), "message": msg}
        if p.returncode == 2:
            res["checks"][c]["stderr"] = p.stderr[-800:]
    json.dump(res, open(os.path.join(d, "last_run.json"), "w"), indent=1)
    print(json.dumps(res, indent=1))
finally:
    shutil.rmtree(tmp, ignore_errors=True)
