#!/usr/bin/env python3
"""Ingests one round of seeded changes written by sub-agents (each out dir holds patch.diff, demo_test.go, notes.md, meta.json with
what / needs_to_manifest / demo_dir / demo_cmd) into /verif/seeded/<Cxx>-<round>/ and evaluates each with tools/seeded.py.
usage: tools/round.py <round letter> <out base dir> [Cxx ...]"""
import json, os, shutil, subprocess, sys, glob
rnd, base = sys.argv[1], sys.argv[2]
ids = sys.argv[3:] or sorted(os.path.basename(p) for p in glob.glob(os.path.join(base, "C*")))
for cid in ids:
    src = os.path.join(base, cid)
    if not os.path.exists(os.path.join(src, "patch.diff")) or not os.path.exists(os.path.join(src, "meta.json")):
        print(cid, "incomplete deliverables"); continue
    dst = "/verif/seeded/%s-%s" % (cid, rnd)
    os.makedirs(dst, exist_ok=True)
    for f in ("patch.diff", "demo_test.go", "notes.md"):
        shutil.copy(os.path.join(src, f), dst)
    am = json.load(open(os.path.join(src, "meta.json")))
    meta = {"id": "%s-%s" % (cid, rnd), "breaks_property": cid,
            "author": "independent sub-agent, round %s (given the property text, a scratch worktree and one-line descriptions of all earlier changes for the property to avoid)" % rnd,
            "what": am["what"], "needs_to_manifest": am["needs_to_manifest"], "demo_dir": am["demo_dir"], "demo_file": "zz_seeded_demo_test.go", "demo_cmd": am["demo_cmd"]}
    json.dump(meta, open(os.path.join(dst, "meta.json"), "w"), indent=1)
    p = subprocess.run([sys.executable, "/verif/tools/seeded.py", dst, "--checks", cid], stdout=subprocess.PIPE, stderr=subprocess.STDOUT, text=True)
    try:
        r = json.loads(p.stdout)
        c = r["checks"][cid]
        print(cid, r["validated"], "exit", c["exit"], "CAUGHT" if c["violation"] else "MISSED", c["wall_s"], c["message"][:160].replace("\n", " "))
    except Exception as e:
        print(cid, "error", p.stdout[-500:])
