#!/usr/bin/env python3
"""Sensitivity testing aid: applies a change to a scratch copy of /repo, verifies that it compiles and passes the
repository's own suite, then runs the named checks against the copy (VERIF_REPO) and reports whether each raised a VIOLATION.

usage: tools/mutant.py --checks C03,C12 [--tier quick] (--patch file.diff | --sed 'FILE::s/a/b/' ...) [--skip-suite]
"""
import argparse, os, shutil, subprocess, sys, tempfile
ap = argparse.ArgumentParser()
ap.add_argument("--checks", required=True)
ap.add_argument("--tier", default="quick")
ap.add_argument("--patch")
ap.add_argument("--sed", action="append", default=[])
ap.add_argument("--skip-suite", action="store_true")
ap.add_argument("--seed", default="1")
a = ap.parse_args()
env = dict(os.environ, GOFLAGS="-mod=mod", GOPROXY="off", GOSUMDB="off", GOTOOLCHAIN="local")
d = tempfile.mkdtemp(prefix="mut_", dir="/tmp")
try:
    dst = os.path.join(d, "repo")
    subprocess.check_call(["git", "clone", "-q", "/repo", dst])
    # carry uncommitted state of /repo too
    diff = subprocess.run(["git", "-C", "/repo", "diff", "HEAD"], stdout=subprocess.PIPE).stdout
    if diff.strip():
        subprocess.run(["git", "-C", dst, "apply"], input=diff, check=True)
    if a.patch:
        subprocess.check_call(["git", "-C", dst, "apply", os.path.abspath(a.patch)])
    for s in a.sed:
        f, expr = s.split("::", 1)
        before = open(os.path.join(dst, f)).read()
        subprocess.check_call(["sed", "-i", "-E", expr, os.path.join(dst, f)])
        if open(os.path.join(dst, f)).read() == before:
            print("MUTANT-ERROR: sed expression changed nothing:", s); sys.exit(3)
    if not a.skip_suite:
        r = subprocess.run(["go", "test", "-vet=off", "-count=1", "./..."], cwd=dst, env=env, stdout=subprocess.PIPE, stderr=subprocess.STDOUT, text=True)
        if r.returncode != 0:
            print("MUTANT-INVALID: repository suite fails with this change\n" + r.stdout[-2000:]); sys.exit(4)
        print("suite: passes with the change")
    rc_all = 0
    # private copy of /verif so that concurrent checks against /repo are not disturbed
    vcopy = os.path.join(d, "verif")
    subprocess.check_call(["rsync", "-a", "--exclude", ".git", "--exclude", ".build", "--exclude", ".work", "--exclude", "replays",
                           "--exclude", "seeded", "--exclude", "evidence", "/verif/", vcopy + "/"])
    for c in a.checks.split(","):
        e = dict(env, VERIF_REPO=dst, VERIF_SEED=a.seed)
        r = subprocess.run([sys.executable, os.path.join(vcopy, "check.py"), c, a.tier], env=e, stdout=subprocess.PIPE, stderr=subprocess.PIPE, text=True)
        v = [l for l in r.stdout.splitlines() if l.startswith("VIOLATION")]
        print("%s %s: exit=%d %s" % (c, a.tier, r.returncode, v[0] if v else "(no violation)"))
        if r.returncode == 1:
            print("   " + "\n   ".join(r.stdout.splitlines()[1:4])[:600])
        if r.returncode == 2:
            print(r.stderr[-1500:])
        if r.returncode != 1:
            rc_all = 1
    sys.exit(rc_all)
finally:
    shutil.rmtree(d, ignore_errors=True)
