#!/usr/bin/env python3
"""Re-runs every seeded change against the check of the property it breaks (tools/seeded.py, scratch clone) and writes
seeded/regression.json. usage: tools/regress_seeded.py [--skip-validate] [ids...]"""
import glob, json, os, subprocess, sys, time
args = [a for a in sys.argv[1:] if not a.startswith("--")]
skip = "--skip-validate" in sys.argv
dirs = sorted(glob.glob("/verif/seeded/C*-?"))
if args:
    dirs = [d for d in dirs if os.path.basename(d) in args]
# changes that break the named property only through a route that belongs to another listed property (see DESIGN.md 9.4)
OTHER_CHECK = {"C07-g": "C14", "C02-h": "C07", "C01-i": "C06", "C02-j": "C07", "C11-l": "C07", "C03-r": "C12", "C16-w": "C17", "C04-x": "C13"}
out = {}
if args and os.path.exists("/verif/seeded/regression.json"):
    out = json.load(open("/verif/seeded/regression.json"))  # partial run: keep the other results
for d in dirs:
    sid = os.path.basename(d)
    if json.load(open(os.path.join(d, "meta.json"))).get("excluded"):
        out[sid] = {"excluded": True}
        print(sid, "EXCLUDED (see meta.json)", flush=True)
        cur = json.load(open("/verif/seeded/regression.json")) if os.path.exists("/verif/seeded/regression.json") else {}
        cur[sid] = out[sid]
        json.dump(cur, open("/verif/seeded/regression.json", "w"), indent=1)
        continue
    cid = OTHER_CHECK.get(sid, sid.split("-")[0])
    cmd = [sys.executable, "/verif/tools/seeded.py", d, "--checks", cid] + (["--skip-validate"] if skip else [])
    t0 = time.time()
    p = subprocess.run(cmd, stdout=subprocess.PIPE, stderr=subprocess.STDOUT, text=True)
    try:
        r = json.loads(p.stdout[p.stdout.index("{"):])
        c = r["checks"][cid]
        out[sid] = {"check": cid, "validated": r["validated"], "exit": c["exit"], "caught": c["violation"], "wall_s": c["wall_s"], "message": c["message"][:300]}
        v = r["validated"]
        ok = v is None or (v["demo_passes_on_original"] and v["suite_passes_with_change"] and v["demo_fails_with_change"])
        print(sid, "CAUGHT" if c["violation"] else "MISSED exit=%s" % c["exit"], "valid" if ok else "INVALID %s" % v, "%.0fs" % (time.time() - t0), flush=True)
    except Exception as e:
        out[sid] = {"error": p.stdout[-400:]}
        print(sid, "ERROR", p.stdout[-300:], flush=True)
    # several runs may work on different ids at the same time: re-read, replace this id's entry only, write atomically
    cur = {}
    if os.path.exists("/verif/seeded/regression.json"):
        try:
            cur = json.load(open("/verif/seeded/regression.json"))
        except Exception:
            cur = dict(out)
    cur[sid] = out[sid]
    tmp = "/verif/seeded/regression.json.%d.tmp" % os.getpid()
    json.dump(cur, open(tmp, "w"), indent=1)
    os.replace(tmp, "/verif/seeded/regression.json")
