#!/usr/bin/env python3
"""Regenerates seeded/README.md from seeded/*/meta.json and seeded/regression.json (written by tools/regress_seeded.py)."""
import glob, json, os
MISSED_FIRST = set("""C03-b C03-d C05-c C05-d C08-c C08-d C10-b C11-c C12-c C13-a C13-b C13-d C14-a C14-c C15-c C16-b C16-c C16-d C17-b C17-d C18-b
C04-e C07-e C08-e C10-e C11-e C13-e C14-e C16-e C19-e C08-f C14-f C19-f
C03-g C04-g C06-g C08-g C10-g C11-g C12-g C14-g C16-g C17-g C18-g
C01-h C05-h C07-h C08-h C09-h C11-h C12-h C14-h C15-h C16-h C17-h
C03-i C07-i C10-i C17-i
C08-j C11-j C12-j C13-j C16-j C17-j
C01-k C05-k C14-k C16-k C17-k C18-k
C01-l C02-l C03-l C04-l C05-l C06-l C07-l C08-l C09-l C10-l C11-l C12-l C13-l C14-l C15-l C16-l C17-l C18-l C19-l
C01-m C02-m C06-m C07-m C08-m C10-m C14-m C17-m C19-m
C03-n C07-n C14-n C16-n C19-n
C02-o C05-o C06-o C07-o C08-o C10-o C12-o C14-o C15-o C17-o C18-o C19-o
C01-p C03-p C07-p C09-p C14-p C16-p C18-p C19-p
C02-q C03-q C04-q C05-q C06-q C08-q C09-q C10-q C11-q C14-q C16-q C18-q
C01-r C02-r C03-r C06-r C07-r C08-r C11-r C12-r C14-r C17-r C18-r C19-r
C01-s C02-s C12-s C13-s C14-s C15-s C16-s C17-s C18-s
C06-t C09-t C12-t C17-t
C02-u C08-u C14-u C15-u C17-u C18-u C19-u
C01-v C02-v C03-v C11-v C14-v C16-v C19-v
C01-w C07-w C08-w C10-w C11-w C14-w C15-w C16-w C17-w
C02-x C03-x C04-x C08-x C11-x C15-x
C08-y C14-y C16-y C18-y""".split())
reg = json.load(open("/verif/seeded/regression.json")) if os.path.exists("/verif/seeded/regression.json") else {}
head = """# Seeded changes

Each directory holds one change to aldas/go-modbus-client that breaks a listed property while compiling and passing the repository's own suite: `patch.diff`, the author's demonstration (`demo_test.go`, fails with the change, passes without), `notes.md` (author's description) and `meta.json` (property, what it needs to manifest, how to run the demonstration). Suffix `-a` .. `-y`: twenty-four rounds and a partial one (`-y`: six properties) written by independent sub-agents that saw only the property text and a scratch worktree (from round b on additionally one-line descriptions of the earlier changes for the same property, to produce a different kind of change; later rounds were asked for multi-step / interleaving / boundary / cooperating-site changes, round l for changes that random generation is unlikely to reach, round m for feature additions that break a property only where two features meet, round n for changes whose effect varies from execution to execution, round o for changes that show only on objects that have been used hundreds to tens of thousands of times, round p for results that stay well-formed and plausible but are stale, shifted or somebody else's, round q for hidden state shared between two live instances used alternately, round r for non-default but legal configuration values, round s for sizes at the implementation's internal buffer limits, round t for compensating pairs that keep the library consistent with itself, round u for variants of earlier changes at another site, constant or function, round v for classic Go language pitfalls, round w for secondary observables - the main result stays right, round x free choice of the least-covered clause, round y the change a maintainer would most likely make next). None of these patches is ever committed to /repo; `tools/seeded.py <dir> --checks <ids>` re-validates a change in a scratch clone (demo passes on the original, suite passes with the change, demo fails with the change) and runs the named checks against it from a private copy of /verif; `tools/regress_seeded.py` does that for every change and writes `regression.json`, from which the result columns below are taken. "caught (after strengthening)": the check as it stood when the change arrived missed it; DESIGN.md 9.4 says what was added.

| id | property | change | needs | check | tier | result | wall s |
|---|---|---|---|---|---|---|---|
"""
rows = []
for d in sorted(glob.glob("/verif/seeded/C*-?")):
    sid = os.path.basename(d)
    m = json.load(open(os.path.join(d, "meta.json")))
    r = reg.get(sid, {})
    if m.get("excluded"):
        res = "excluded (needs a transport that violates the io.Writer contract)"
    elif r.get("caught"):
        res = "caught (after strengthening)" if sid in MISSED_FIRST else "caught"
    elif r:
        res = "MISSED"
    else:
        res = "not run"
    esc = lambda s: " ".join(str(s).split()).replace("|", "\\|")
    rows.append("| %s | %s | %s | %s | %s | quick | %s | %s |" % (sid, m["breaks_property"], esc(m["what"])[:400], esc(m["needs_to_manifest"])[:300], r.get("check", m["breaks_property"]), res, r.get("wall_s", "")))
open("/verif/seeded/README.md", "w").write(head + "\n".join(rows) + "\n")
n = len(rows); c = sum(1 for r in rows if "| caught" in r); mf = sum(1 for r in rows if "after strengthening" in r)
print("%d changes, %d caught (%d of them after strengthening), %d other" % (n, c, mf, n - c))
