#!/bin/sh
# setup_cmd: offline. Writes go.sum and warms the Go build cache by compiling every check binary.
set -e
cd "$(dirname "$0")"
export GOFLAGS=-mod=mod GOPROXY=off GOSUMDB=off GOTOOLCHAIN=local
[ -f go.sum ] || cp /repo/go.sum go.sum
mkdir -p .build evidence
python3 - <<'PY'
import json, subprocess, os, sys
checks = json.load(open("checks/checks.json"))
fail = 0
for cid, c in sorted(checks.items()):
    cmd = ["go", "test", "-c", "-tags", "verif", "-vet=off", "-o", ".build/%s.test" % cid]
    if c.get("race"):
        cmd.append("-race")
    cmd.append("./checks/" + c["pkg"])
    r = subprocess.run(cmd)
    if r.returncode != 0:
        fail = 1
        print("setup: build of", cid, "failed", file=sys.stderr)
sys.exit(fail)
PY
echo "setup ok"
