// Package fgen generates builder field definitions and decodes them with the reference model.
package fgen

import (
	"fmt"

	modbus "github.com/aldas/go-modbus-client"
	"github.com/aldas/go-modbus-client/packet"
	"pgregory.net/rapid"

	"verif/internal/spec"
)

// RegisterTypes are the 13 register field types.
var RegisterTypes = []modbus.FieldType{
	modbus.FieldTypeBit, modbus.FieldTypeByte, modbus.FieldTypeUint8, modbus.FieldTypeInt8, modbus.FieldTypeUint16, modbus.FieldTypeInt16,
	modbus.FieldTypeUint32, modbus.FieldTypeInt32, modbus.FieldTypeUint64, modbus.FieldTypeInt64, modbus.FieldTypeFloat32, modbus.FieldTypeFloat64,
	modbus.FieldTypeString,
}

// Size is the number of registers (or coils) a valid field spans.
func Size(f modbus.Field) int {
	switch f.Type {
	case modbus.FieldTypeUint32, modbus.FieldTypeInt32, modbus.FieldTypeFloat32:
		return 2
	case modbus.FieldTypeUint64, modbus.FieldTypeInt64, modbus.FieldTypeFloat64:
		return 4
	case modbus.FieldTypeString:
		return (int(f.Length) + 1) / 2
	}
	return 1
}

// IsValid mirrors the documented validity rules of a field definition.
func IsValid(f modbus.Field) bool {
	if f.ServerAddress == "" || f.Type == 0 || f.Type > 14 || f.Bit > 15 {
		return false
	}
	if f.Type == modbus.FieldTypeString && f.Length == 0 {
		return false
	}
	return true
}

// AccessOf maps a register field to the reference access that defines its value.
func AccessOf(f modbus.Field) spec.Access {
	a := spec.Access{Addr: int(f.Address), Bit: int(f.Bit), High: f.FromHighByte, Length: int(f.Length), Order: uint8(f.ByteOrder)}
	switch f.Type {
	case modbus.FieldTypeBit:
		a.Kind = "Bit"
	case modbus.FieldTypeByte:
		a.Kind = "Byte"
	case modbus.FieldTypeUint8:
		a.Kind = "Uint8"
	case modbus.FieldTypeInt8:
		a.Kind = "Int8"
	case modbus.FieldTypeUint16:
		a.Kind = "Uint16"
	case modbus.FieldTypeInt16:
		a.Kind = "Int16"
	case modbus.FieldTypeUint32:
		a.Kind = "Uint32WithByteOrder"
	case modbus.FieldTypeInt32:
		a.Kind = "Int32WithByteOrder"
	case modbus.FieldTypeUint64:
		a.Kind = "Uint64WithByteOrder"
	case modbus.FieldTypeInt64:
		a.Kind = "Int64WithByteOrder"
	case modbus.FieldTypeFloat32:
		a.Kind = "Float32WithByteOrder"
	case modbus.FieldTypeFloat64:
		a.Kind = "Float64WithByteOrder"
	case modbus.FieldTypeString:
		a.Kind = "StringWithByteOrder"
	default:
		panic(fmt.Sprintf("fgen: not a register field type %d", f.Type))
	}
	return a
}

// Orders are the documented byte orders as the library's type.
var Orders = []packet.ByteOrder{0, packet.BigEndian, packet.LittleEndian, packet.BigEndianLowWordFirst, packet.BigEndianHighWordFirst, packet.LittleEndianLowWordFirst, packet.LittleEndianHighWordFirst, packet.LowWordFirst, packet.HighWordFirst}

// RegisterField draws a valid register field with its address in [lo,hi] (span may exceed hi).
func RegisterField(t *rapid.T, name string, lo, hi int) modbus.Field {
	f := modbus.Field{Name: name}
	f.Type = rapid.SampledFrom(RegisterTypes).Draw(t, "type")
	f.Address = uint16(rapid.IntRange(lo, hi).Draw(t, "address"))
	f.Bit = uint8(rapid.IntRange(0, 15).Draw(t, "bit"))
	f.FromHighByte = rapid.Bool().Draw(t, "high")
	f.ByteOrder = rapid.SampledFrom(Orders).Draw(t, "order")
	if f.Type == modbus.FieldTypeString {
		if rapid.IntRange(0, 4).Draw(t, "longstr") == 0 {
			f.Length = uint8(rapid.IntRange(1, 250).Draw(t, "length_long"))
			if rapid.Bool().Draw(t, "length_pow2") {
				// sizes at which implementations switch buffers
				f.Length = uint8(rapid.SampledFrom([]int{15, 16, 17, 31, 32, 33, 63, 64, 65, 127, 128, 129}).Draw(t, "length_hot"))
			}
		} else {
			f.Length = uint8(rapid.IntRange(1, 12).Draw(t, "length"))
		}
	}
	return f
}

// NearDuplicate returns a copy of f with exactly one attribute changed slightly (same address): the kind of pair a
// "these two are the same" shortcut would confuse.
func NearDuplicate(t *rapid.T, f modbus.Field, name string) modbus.Field {
	g := f
	g.Name = name
	switch rapid.IntRange(0, 5).Draw(t, "neardup") {
	case 0:
		if g.Type == modbus.FieldTypeString {
			if g.Length%2 == 1 {
				g.Length++
			} else if g.Length > 1 {
				g.Length--
			}
		} else {
			g.Bit = (g.Bit + 1) % 16
		}
	case 1:
		g.FromHighByte = !g.FromHighByte
	case 2:
		g.ByteOrder = rapid.SampledFrom(Orders).Draw(t, "neardup_order")
	case 3:
		// sibling type of the same width
		sib := map[modbus.FieldType]modbus.FieldType{modbus.FieldTypeUint16: modbus.FieldTypeInt16, modbus.FieldTypeInt16: modbus.FieldTypeUint16,
			modbus.FieldTypeUint32: modbus.FieldTypeFloat32, modbus.FieldTypeInt32: modbus.FieldTypeUint32, modbus.FieldTypeFloat32: modbus.FieldTypeInt32,
			modbus.FieldTypeUint64: modbus.FieldTypeFloat64, modbus.FieldTypeInt64: modbus.FieldTypeUint64, modbus.FieldTypeFloat64: modbus.FieldTypeInt64,
			modbus.FieldTypeByte: modbus.FieldTypeInt8, modbus.FieldTypeUint8: modbus.FieldTypeInt8, modbus.FieldTypeInt8: modbus.FieldTypeUint8, modbus.FieldTypeBit: modbus.FieldTypeUint16}
		if s, ok := sib[g.Type]; ok {
			g.Type = s
		}
	case 4:
		g.Bit = (g.Bit + 8) % 16
	case 5:
		if g.Type == modbus.FieldTypeString && g.Length < 250 {
			g.Length += 2
		}
	}
	return g
}
