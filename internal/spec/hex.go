package spec

import (
	"encoding/hex"
	"encoding/json"
)

// Hex is a byte slice that serialises as a hex string (readable replay files).
type Hex []byte

// MarshalJSON implements json.Marshaler.
func (h Hex) MarshalJSON() ([]byte, error) {
	return json.Marshal(hex.EncodeToString(h))
}

// UnmarshalJSON implements json.Unmarshaler.
func (h *Hex) UnmarshalJSON(b []byte) error {
	var s string
	if err := json.Unmarshal(b, &s); err != nil {
		return err
	}
	d, err := hex.DecodeString(s)
	if err != nil {
		return err
	}
	*h = d
	return nil
}
