// Package spec is an independent statement of the parts of
// "MODBUS Application Protocol Specification V1.1b3" and "MODBUS over Serial
// Line V1.02" that the properties talk about. It deliberately does not import
// the library under test.
package spec

import (
	"errors"
	"fmt"
)

// Framing selects the ADU layout.
type Framing int

const (
	TCP Framing = 0
	RTU Framing = 1
)

func (f Framing) String() string {
	if f == TCP {
		return "tcp"
	}
	return "rtu"
}

// MaxADU is the largest legal ADU for the framing.
func MaxADU(f Framing) int {
	if f == TCP {
		return 260
	}
	return 256
}

// Functions lists the ten function codes the library supports.
var Functions = []uint8{1, 2, 3, 4, 5, 6, 15, 16, 17, 23}

// IsSupported reports whether fc is one of the ten functions.
func IsSupported(fc uint8) bool {
	for _, f := range Functions {
		if f == fc {
			return true
		}
	}
	return false
}

// Req is a request at specification level. Only the fields relevant for FC are used.
type Req struct {
	FC   uint8  `json:"fc"`
	Unit uint8  `json:"unit"`
	Tx   uint16 `json:"tx"`
	Addr uint16 `json:"addr"` // start / read start / single address
	Qty  uint16 `json:"qty"`  // quantity (fc1-4,15,16), read quantity (fc23)
	// Value is the raw 16 bit value of fc5 (0xFF00/0x0000) and fc6.
	Value uint16 `json:"value,omitempty"`
	// Payload is coil bytes (fc15) or register bytes (fc16, fc23 write data).
	Payload Hex `json:"payload,omitempty"`
	// WAddr, WQty are the write window of fc23.
	WAddr uint16 `json:"waddr,omitempty"`
	WQty  uint16 `json:"wqty,omitempty"`
	// ByteCount is the byte count field of fc15/16/23 as put on the wire.
	ByteCount uint8 `json:"bc,omitempty"`
}

// PackCoils packs coils as the specification lays them out: coil i of the
// request is bit (i mod 8) of byte (i div 8); unused bits are zero.
func PackCoils(coils []bool) []byte {
	out := make([]byte, (len(coils)+7)/8)
	for i, c := range coils {
		if c {
			out[i/8] |= 1 << uint(i%8)
		}
	}
	return out
}

// CoilAt returns coil i from a packed payload.
func CoilAt(payload []byte, i int) bool {
	return payload[i/8]&(1<<uint(i%8)) != 0
}

func be16(v uint16) []byte { return []byte{byte(v >> 8), byte(v)} }

// RequestPDU returns function code + data exactly as r says (no validation).
func RequestPDU(r Req) []byte {
	p := []byte{r.FC}
	switch r.FC {
	case 1, 2, 3, 4:
		p = append(p, be16(r.Addr)...)
		p = append(p, be16(r.Qty)...)
	case 5, 6:
		p = append(p, be16(r.Addr)...)
		p = append(p, be16(r.Value)...)
	case 15, 16:
		p = append(p, be16(r.Addr)...)
		p = append(p, be16(r.Qty)...)
		p = append(p, r.ByteCount)
		p = append(p, r.Payload...)
	case 17:
	case 23:
		p = append(p, be16(r.Addr)...)
		p = append(p, be16(r.Qty)...)
		p = append(p, be16(r.WAddr)...)
		p = append(p, be16(r.WQty)...)
		p = append(p, r.ByteCount)
		p = append(p, r.Payload...)
	default:
		p = append(p, r.Payload...)
	}
	return p
}

// Frame wraps a PDU into an ADU.
func Frame(f Framing, tx uint16, unit uint8, pdu []byte) []byte {
	if f == TCP {
		n := 1 + len(pdu)
		out := make([]byte, 0, 7+len(pdu))
		out = append(out, byte(tx>>8), byte(tx), 0, 0, byte(n>>8), byte(n), unit)
		return append(out, pdu...)
	}
	out := make([]byte, 0, 3+len(pdu))
	out = append(out, unit)
	out = append(out, pdu...)
	c := RefCRC16(out)
	return append(out, byte(c), byte(c>>8))
}

// EncodeRequest returns the ADU for r.
func EncodeRequest(f Framing, r Req) []byte {
	return Frame(f, r.Tx, r.Unit, RequestPDU(r))
}

// LegalRequest reports whether r respects the per-function limits of the
// specification (section 6) including consistent byte counts.
func LegalRequest(r Req) error {
	switch r.FC {
	case 1, 2:
		if r.Qty < 1 || r.Qty > 2000 {
			return fmt.Errorf("fc%d quantity %d outside 1..2000", r.FC, r.Qty)
		}
	case 3, 4:
		if r.Qty < 1 || r.Qty > 125 {
			return fmt.Errorf("fc%d quantity %d outside 1..125", r.FC, r.Qty)
		}
	case 5:
		if r.Value != 0xFF00 && r.Value != 0 {
			return fmt.Errorf("fc5 value %#04x", r.Value)
		}
	case 6:
	case 15:
		if r.Qty < 1 || r.Qty > 1968 {
			return fmt.Errorf("fc15 quantity %d outside 1..1968", r.Qty)
		}
		if int(r.ByteCount) != (int(r.Qty)+7)/8 || len(r.Payload) != int(r.ByteCount) {
			return fmt.Errorf("fc15 byte count %d / payload %d for quantity %d", r.ByteCount, len(r.Payload), r.Qty)
		}
	case 16:
		if r.Qty < 1 || r.Qty > 123 {
			return fmt.Errorf("fc16 quantity %d outside 1..123", r.Qty)
		}
		if int(r.ByteCount) != 2*int(r.Qty) || len(r.Payload) != int(r.ByteCount) {
			return fmt.Errorf("fc16 byte count %d / payload %d for quantity %d", r.ByteCount, len(r.Payload), r.Qty)
		}
	case 17:
	case 23:
		if r.Qty < 1 || r.Qty > 125 {
			return fmt.Errorf("fc23 read quantity %d outside 1..125", r.Qty)
		}
		if r.WQty < 1 || r.WQty > 121 {
			return fmt.Errorf("fc23 write quantity %d outside 1..121", r.WQty)
		}
		if int(r.ByteCount) != 2*int(r.WQty) || len(r.Payload) != int(r.ByteCount) {
			return fmt.Errorf("fc23 byte count %d / payload %d for write quantity %d", r.ByteCount, len(r.Payload), r.WQty)
		}
	default:
		return fmt.Errorf("function %d not supported", r.FC)
	}
	return nil
}

// ErrShort etc. are decode failures of the spec decoder.
var (
	ErrShort    = errors.New("spec: frame too short")
	ErrBadFrame = errors.New("spec: malformed frame")
	ErrBadCRC   = errors.New("spec: crc mismatch")
)

// Unframe splits an ADU into tx, unit, pdu. For RTU the CRC is verified.
func Unframe(f Framing, adu []byte) (tx uint16, unit uint8, pdu []byte, err error) {
	if f == TCP {
		if len(adu) < 8 {
			return 0, 0, nil, ErrShort
		}
		if adu[2] != 0 || adu[3] != 0 {
			return 0, 0, nil, ErrBadFrame
		}
		n := int(adu[4])<<8 | int(adu[5])
		if len(adu) != 6+n {
			return 0, 0, nil, ErrBadFrame
		}
		return uint16(adu[0])<<8 | uint16(adu[1]), adu[6], adu[7:], nil
	}
	if len(adu) < 4 {
		return 0, 0, nil, ErrShort
	}
	n := len(adu)
	c := RefCRC16(adu[:n-2])
	if adu[n-2] != byte(c) || adu[n-1] != byte(c>>8) {
		return 0, 0, nil, ErrBadCRC
	}
	return 0, adu[0], adu[1 : n-2], nil
}

// DecodeRequestPDU decodes a request PDU structurally (no limit checks beyond
// what is needed to find the fields). Returns ErrBadFrame if the PDU length
// does not fit the function's layout.
func DecodeRequestPDU(pdu []byte) (Req, error) {
	if len(pdu) < 1 {
		return Req{}, ErrShort
	}
	r := Req{FC: pdu[0]}
	u16 := func(i int) uint16 { return uint16(pdu[i])<<8 | uint16(pdu[i+1]) }
	switch r.FC {
	case 1, 2, 3, 4:
		if len(pdu) != 5 {
			return r, ErrBadFrame
		}
		r.Addr, r.Qty = u16(1), u16(3)
	case 5, 6:
		if len(pdu) != 5 {
			return r, ErrBadFrame
		}
		r.Addr, r.Value = u16(1), u16(3)
	case 15, 16:
		if len(pdu) < 6 {
			return r, ErrBadFrame
		}
		r.Addr, r.Qty, r.ByteCount = u16(1), u16(3), pdu[5]
		r.Payload = append([]byte(nil), pdu[6:]...)
	case 17:
		if len(pdu) != 1 {
			return r, ErrBadFrame
		}
	case 23:
		if len(pdu) < 10 {
			return r, ErrBadFrame
		}
		r.Addr, r.Qty, r.WAddr, r.WQty, r.ByteCount = u16(1), u16(3), u16(5), u16(7), pdu[9]
		r.Payload = append([]byte(nil), pdu[10:]...)
	default:
		r.Payload = append([]byte(nil), pdu[1:]...)
	}
	return r, nil
}

// Resp is a response at specification level.
type Resp struct {
	FC   uint8  `json:"fc"`
	Unit uint8  `json:"unit"`
	Tx   uint16 `json:"tx"`
	// Exception != 0 makes this an exception response (fc|0x80, code). Use IsException to allow code 0.
	IsException bool  `json:"exc,omitempty"`
	Code        uint8 `json:"code,omitempty"`
	// Data: coil/register payload for fc1-4, 23 (byte count = len(Data) unless ByteCount set explicitly via RawByteCount).
	Data Hex `json:"data,omitempty"`
	// Addr, Value: echo fields of fc5/6/15/16 (Value = value or quantity).
	Addr  uint16 `json:"addr,omitempty"`
	Value uint16 `json:"value,omitempty"`
	// fc17
	ServerID   Hex   `json:"server_id,omitempty"`
	Status     uint8 `json:"status,omitempty"`
	Additional Hex   `json:"additional,omitempty"`
}

// ResponsePDU encodes the response PDU.
func ResponsePDU(r Resp) []byte {
	if r.IsException {
		return []byte{r.FC | 0x80, r.Code}
	}
	p := []byte{r.FC}
	switch r.FC {
	case 1, 2, 3, 4, 23:
		p = append(p, byte(len(r.Data)))
		p = append(p, r.Data...)
	case 5, 6, 15, 16:
		p = append(p, be16(r.Addr)...)
		p = append(p, be16(r.Value)...)
	case 17:
		// layout documented by the library: id length, id, status, additional data
		p = append(p, byte(len(r.ServerID)))
		p = append(p, r.ServerID...)
		p = append(p, r.Status)
		p = append(p, r.Additional...)
	}
	return p
}

// EncodeResponse returns the ADU of the response.
func EncodeResponse(f Framing, r Resp) []byte {
	return Frame(f, r.Tx, r.Unit, ResponsePDU(r))
}

// NormalReplyLen is the ADU length of the normal reply to a legal request (fc17: unknown, returns -1).
func NormalReplyLen(f Framing, r Req) int {
	over := 7
	if f == RTU {
		over = 3
	}
	switch r.FC {
	case 1, 2:
		return over + 2 + (int(r.Qty)+7)/8
	case 3, 4, 23:
		return over + 2 + 2*int(r.Qty)
	case 5, 6, 15, 16:
		return over + 5
	}
	return -1
}

// Exception codes.
const (
	ExIllegalFunction    = 1
	ExIllegalDataAddress = 2
	ExIllegalDataValue   = 3
	ExServerFailure      = 4
)
