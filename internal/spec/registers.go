package spec

import (
	"math"
)

// Byte order flags as documented by the library (packet.ByteOrder).
const (
	OrderDefault   = 0
	BigEndian      = 1
	LittleEndian   = 2
	LowWordFirst   = 4
	HighWordFirst  = 8
	LibraryDefault = BigEndian | HighWordFirst // documented default of Registers
)

// DocumentedOrders are the byte order constants the documentation names (the four flags on their own - a bare word-order flag
// leaves the bytes in wire order, i.e. big endian - and the four combinations).
var DocumentedOrders = []uint8{0, BigEndian, LittleEndian, BigEndian | LowWordFirst, BigEndian | HighWordFirst, LittleEndian | LowWordFirst, LittleEndian | HighWordFirst, LowWordFirst, HighWordFirst}

// Access describes one typed read.
type Access struct {
	Kind   string `json:"kind"`
	Addr   int    `json:"addr"`
	Bit    int    `json:"bit,omitempty"`
	High   bool   `json:"high,omitempty"`
	Length int    `json:"length,omitempty"`
	Order  uint8  `json:"order,omitempty"`
}

// Kinds lists every accessor of the Registers view.
var Kinds = []string{
	"Bit", "Byte", "Uint8", "Int8", "Uint16", "Int16",
	"Uint32", "Uint32WithByteOrder", "Int32", "Int32WithByteOrder", "Float32", "Float32WithByteOrder",
	"Uint64", "Uint64WithByteOrder", "Int64", "Int64WithByteOrder", "Float64", "Float64WithByteOrder",
	"String", "StringWithByteOrder", "Register", "DoubleRegister", "QuadRegister",
}

// Size returns the number of registers the access needs.
func (a Access) Size() int {
	switch a.Kind {
	case "Uint32", "Uint32WithByteOrder", "Int32", "Int32WithByteOrder", "Float32", "Float32WithByteOrder", "DoubleRegister":
		return 2
	case "Uint64", "Uint64WithByteOrder", "Int64", "Int64WithByteOrder", "Float64", "Float64WithByteOrder", "QuadRegister":
		return 4
	case "String", "StringWithByteOrder":
		return (a.Length + 1) / 2
	}
	return 1
}

// effective order of an access given the view's default order
func (a Access) order(def uint8) uint8 {
	switch a.Kind {
	case "Uint32WithByteOrder", "Int32WithByteOrder", "Float32WithByteOrder",
		"Uint64WithByteOrder", "Int64WithByteOrder", "Float64WithByteOrder", "StringWithByteOrder":
		if a.Order == 0 {
			return def
		}
		return a.Order
	case "DoubleRegister", "QuadRegister":
		return a.Order // passed through as is
	}
	return def
}

// RefAccess evaluates the access on a window of registers starting at address
// start whose wire bytes are payload (2 bytes per register). All arithmetic is
// in int. inside=false means the registers needed are not all within the
// window (or the arguments are invalid: bit > 15): the library must return an error.
func RefAccess(payload []byte, start int, def uint8, a Access) (val interface{}, inside bool) {
	count := len(payload) / 2
	size := a.Size()
	if a.Kind == "Bit" && (a.Bit < 0 || a.Bit > 15) {
		return nil, false
	}
	if size < 1 {
		// zero length string: nothing addressed; library behaviour is not constrained here
		size = 0
	}
	if a.Addr < start || a.Addr+size > start+count {
		return nil, false
	}
	off := (a.Addr - start) * 2
	b := payload[off : off+2*size]
	ord := a.order(def)
	words := func() []byte {
		out := make([]byte, len(b))
		if ord&LowWordFirst != 0 {
			n := len(b) / 2
			for w := 0; w < n; w++ {
				out[2*w], out[2*w+1] = b[2*(n-1-w)], b[2*(n-1-w)+1]
			}
		} else {
			copy(out, b)
		}
		return out
	}
	num := func() uint64 {
		w := words()
		var v uint64
		if ord&LittleEndian != 0 {
			for i := len(w) - 1; i >= 0; i-- {
				v = v<<8 | uint64(w[i])
			}
		} else {
			for i := 0; i < len(w); i++ {
				v = v<<8 | uint64(w[i])
			}
		}
		return v
	}
	switch a.Kind {
	case "Bit":
		v := int(b[0])<<8 | int(b[1])
		return (v>>uint(a.Bit))&1 == 1, true
	case "Byte", "Uint8":
		if a.High {
			return b[0], true
		}
		return b[1], true
	case "Int8":
		if a.High {
			return int8(b[0]), true
		}
		return int8(b[1]), true
	case "Uint16":
		return uint16(num()), true
	case "Int16":
		return int16(uint16(num())), true
	case "Uint32", "Uint32WithByteOrder":
		return uint32(num()), true
	case "Int32", "Int32WithByteOrder":
		return int32(uint32(num())), true
	case "Float32", "Float32WithByteOrder":
		return math.Float32frombits(uint32(num())), true
	case "Uint64", "Uint64WithByteOrder":
		return num(), true
	case "Int64", "Int64WithByteOrder":
		return int64(num()), true
	case "Float64", "Float64WithByteOrder":
		return math.Float64frombits(num()), true
	case "Register":
		return append([]byte(nil), b...), true
	case "DoubleRegister", "QuadRegister":
		return words(), true
	case "String", "StringWithByteOrder":
		raw := append([]byte(nil), b...)
		if ord&BigEndian != 0 {
			for i := 0; i+1 < len(raw); i += 2 {
				raw[i], raw[i+1] = raw[i+1], raw[i]
			}
		}
		// Latin-1 code points, stop at first NUL, at most Length bytes
		rs := make([]rune, 0, a.Length)
		for _, c := range raw[:a.Length] {
			if c == 0 {
				break
			}
			rs = append(rs, rune(c))
		}
		return string(rs), true
	}
	panic("spec: unknown access kind " + a.Kind)
}

// SameValue compares two accessor results: same dynamic type and same value
// (floats by bit pattern, byte slices by content).
func SameValue(a, b interface{}) bool {
	switch x := a.(type) {
	case float32:
		y, ok := b.(float32)
		return ok && math.Float32bits(x) == math.Float32bits(y)
	case float64:
		y, ok := b.(float64)
		return ok && math.Float64bits(x) == math.Float64bits(y)
	case []byte:
		y, ok := b.([]byte)
		if !ok || len(x) != len(y) {
			return false
		}
		for i := range x {
			if x[i] != y[i] {
				return false
			}
		}
		return true
	}
	return a == b
}
