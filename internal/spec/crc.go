package spec

// Two reference implementations of the Modbus RTU CRC-16 that share no code
// with the library's bit loop.

var crcTable [256]uint16

func init() {
	// table of the reflected polynomial 0xA001 (x^16+x^15+x^2+1 reflected)
	for i := 0; i < 256; i++ {
		c := uint16(i)
		for k := 0; k < 8; k++ {
			if c&1 != 0 {
				c = c>>1 ^ 0xA001
			} else {
				c >>= 1
			}
		}
		crcTable[i] = c
	}
}

// RefStep advances the running CRC by one byte (table driven).
func RefStep(state uint16, b byte) uint16 {
	return state>>8 ^ crcTable[byte(state)^b]
}

// RefCRC16 is the table-driven reference, init 0xFFFF.
func RefCRC16(data []byte) uint16 {
	c := uint16(0xFFFF)
	for _, b := range data {
		c = RefStep(c, b)
	}
	return c
}

// PolyCRC16 computes the same CRC by explicit polynomial long division over
// GF(2) in the non-reflected domain (polynomial 0x8005), feeding message bits
// least-significant-bit first and reflecting the 16-bit remainder at the end.
// The initial value 0xFFFF is realised by complementing the first 16 message
// bits (the textbook equivalence), so this shares neither table nor loop
// structure with RefCRC16 or with the library.
func PolyCRC16(data []byte) uint16 {
	// message bits, LSB of each byte first, followed by 16 zero bits
	nbits := len(data)*8 + 16
	bit := func(i int) uint32 {
		var v uint32
		if i < len(data)*8 {
			v = uint32(data[i/8]>>(uint(i)%8)) & 1
		}
		if i < 16 { // init 0xFFFF == invert first 16 bits of the (augmented) message
			v ^= 1
		}
		return v
	}
	var rem uint32 // 16-bit remainder, MSB = oldest bit
	for i := 0; i < nbits; i++ {
		rem = rem<<1 | bit(i)
		if rem&0x10000 != 0 {
			rem ^= 0x18005
		}
	}
	// reflect 16 bits
	var out uint16
	for i := 0; i < 16; i++ {
		if rem&(1<<uint(i)) != 0 {
			out |= 1 << uint(15-i)
		}
	}
	return out
}
