// Package gen holds rapid generators shared by the checks. Every random
// choice is a rapid draw so that shrinking and replay work.
package gen

import (
	"pgregory.net/rapid"

	"verif/internal/harness"
	"verif/internal/hostile"
	"verif/internal/spec"
)

// HotAddr are the address boundary values.
var HotAddr = []int{0, 1, 2, 3, 7, 8, 255, 256, 32767, 32768, 65533, 65534, 65535}

// HotQty are the quantity boundary values named in the design.
var HotQty = []int{0, 1, 2, 7, 8, 9, 15, 16, 17, 120, 121, 122, 123, 124, 125, 126, 127, 128, 246, 247, 250, 251, 255, 256,
	1967, 1968, 1969, 1999, 2000, 2001, 2040, 2041, 32768, 65535}

// U16 draws a uint16 biased to the hot values.
func U16(t *rapid.T, name string, hot []int) uint16 {
	if rapid.IntRange(0, 2).Draw(t, name+"_mode") != 0 {
		return uint16(rapid.SampledFrom(hot).Draw(t, name+"_hot"))
	}
	return rapid.Uint16().Draw(t, name)
}

// FC draws one of the ten functions.
func FC(t *rapid.T) uint8 { return rapid.SampledFrom(spec.Functions).Draw(t, "fc") }

// Framing draws TCP or RTU.
func Framing(t *rapid.T) spec.Framing {
	return spec.Framing(rapid.IntRange(0, 1).Draw(t, "framing"))
}

// Payload draws n deterministic pseudo random bytes (seed drawn) with a pattern choice.
func Payload(t *rapid.T, name string, n int) []byte {
	switch rapid.IntRange(0, 5).Draw(t, name+"_pattern") {
	case 0:
		out := make([]byte, n)
		return out
	case 1:
		out := make([]byte, n)
		for i := range out {
			out[i] = 0xFF
		}
		return out
	case 2:
		out := make([]byte, n)
		for i := range out {
			out[i] = byte(i + 1)
		}
		return out
	}
	return harness.Bytes(rapid.Uint64().Draw(t, name+"_seed"), n)
}

// inRange draws an int in [lo,hi] biased to the ends and hot values inside.
func inRange(t *rapid.T, name string, lo, hi int, hot ...int) int {
	cands := []int{lo, hi}
	if lo+1 <= hi {
		cands = append(cands, lo+1, hi-1)
	}
	for _, h := range hot {
		if h >= lo && h <= hi {
			cands = append(cands, h)
		}
	}
	if rapid.IntRange(0, 2).Draw(t, name+"_mode") == 0 {
		return rapid.SampledFrom(cands).Draw(t, name+"_hot")
	}
	return rapid.IntRange(lo, hi).Draw(t, name)
}

// LegalReq draws a request that is legal under the specification for fc.
// If addrFits is true the window [addr, addr+qty) stays inside the 16 bit space.
func LegalReq(t *rapid.T, fc uint8, addrFits bool) spec.Req {
	r := spec.Req{FC: fc}
	r.Unit = uint8(inRange(t, "unit", 0, 255, 1, 247))
	r.Tx = uint16(inRange(t, "tx", 0, 65535, 1, 255, 256))
	addr := func(name string, q int) uint16 {
		if addrFits {
			return uint16(inRange(t, name, 0, 65536-q, 255, 256, 32768))
		}
		return U16(t, name, HotAddr)
	}
	switch fc {
	case 1, 2:
		r.Qty = uint16(inRange(t, "qty", 1, 2000, 7, 8, 9, 125, 126, 1999, 433, 440, 441, 465, 472, 473, 945, 984, 985)) // (also: replies of 63..65 and 127..129 bytes)
		r.Addr = addr("addr", int(r.Qty))
	case 3, 4:
		r.Qty = uint16(inRange(t, "qty", 1, 125, 2, 124, 27, 28, 29, 30, 59, 60, 61, 62))
		r.Addr = addr("addr", int(r.Qty))
	case 5:
		r.Addr = addr("addr", 1)
		if rapid.Bool().Draw(t, "on") {
			r.Value = 0xFF00
		}
	case 6:
		r.Addr = addr("addr", 1)
		r.Value = U16(t, "value", []int{0, 1, 255, 256, 0xFF00, 65535})
		if rapid.IntRange(0, 9).Draw(t, "self_crc") == 0 {
			// value bytes == CRC (low byte first) of unit, function, address: the unit+PDU "ends with its own CRC"
			r.Value = hostile.SelfCRCValue(r.Unit, 6, r.Addr)
		}
	case 15:
		r.Qty = uint16(inRange(t, "qty", 1, 1968, 7, 8, 9, 1960, 1961))
		r.Addr = addr("addr", int(r.Qty))
		n := (int(r.Qty) + 7) / 8
		p := Payload(t, "coils", n)
		// spec: unused bits of the last byte are zero
		if rem := int(r.Qty) % 8; rem != 0 {
			p[n-1] &= byte(1<<uint(rem)) - 1
		}
		r.Payload, r.ByteCount = p, uint8(n)
	case 16:
		r.Qty = uint16(inRange(t, "qty", 1, 123, 2, 122))
		r.Addr = addr("addr", int(r.Qty))
		r.Payload, r.ByteCount = Payload(t, "regs", 2*int(r.Qty)), uint8(2*int(r.Qty))
	case 17:
	case 23:
		r.Qty = uint16(inRange(t, "qty", 1, 125, 2, 124, 27, 28, 29, 30, 59, 60, 61, 62))
		r.Addr = addr("addr", int(r.Qty))
		r.WQty = uint16(inRange(t, "wqty", 1, 121, 2, 120))
		r.WAddr = addr("waddr", int(r.WQty))
		r.Payload, r.ByteCount = Payload(t, "regs", 2*int(r.WQty)), uint8(2*int(r.WQty))
	}
	return r
}

// CutSet draws a set of cut positions inside a byte string of length n
// (positions 1..n-1), returned as chunk lengths summing to n.
func CutSet(t *rapid.T, name string, n int) []int {
	if n <= 1 {
		return []int{n}
	}
	mode := rapid.IntRange(0, 5).Draw(t, name+"_mode")
	var cuts []int
	switch mode {
	case 0: // whole
	case 1: // one cut, biased to the ends
		cuts = []int{inRange(t, name+"_cut", 1, n-1, 2, 3, 4, 5, 6, 7, 8, 9, n-2, n-3, n-4)}
	case 2: // two cuts
		a := inRange(t, name+"_cut_a", 1, n-1, 5, 8, 9, n-2, n-3)
		b := inRange(t, name+"_cut_b", 1, n-1, 5, 8, 9, n-2, n-3)
		cuts = []int{a, b}
	case 3: // byte by byte
		for i := 1; i < n; i++ {
			cuts = append(cuts, i)
		}
	default: // random subset
		k := rapid.IntRange(1, 6).Draw(t, name+"_k")
		for i := 0; i < k; i++ {
			cuts = append(cuts, rapid.IntRange(1, n-1).Draw(t, name+"_c"))
		}
	}
	return ChunksFromCuts(n, cuts)
}

// ChunksFromCuts converts cut positions to chunk lengths.
func ChunksFromCuts(n int, cuts []int) []int {
	mark := make([]bool, n+1)
	for _, c := range cuts {
		if c > 0 && c < n {
			mark[c] = true
		}
	}
	var out []int
	last := 0
	for i := 1; i < n; i++ {
		if mark[i] {
			out = append(out, i-last)
			last = i
		}
	}
	return append(out, n-last)
}
