// Package srv holds helpers shared by the server checks (C15, C16, C17): a device-backed handler and a
// client end that collects everything the server sends.
package srv

import (
	"context"
	"errors"
	"fmt"
	"net"
	"reflect"
	"sync"
	"time"

	"github.com/aldas/go-modbus-client/packet"

	"verif/internal/device"
	"verif/internal/spec"
)

// RawResponse forwards device reply bytes through the packet.Response interface.
type RawResponse struct {
	B  []byte
	FC uint8
}

func (r RawResponse) FunctionCode() uint8 { return r.FC }
func (r RawResponse) Bytes() []byte       { return r.B }

// Handler is a server.ModbusHandler backed by the device model.
type Handler struct {
	mu  sync.Mutex
	Dev *device.Device
	// Mode: "" device reply; "typed-error" packet.NewErrorParseTCP(Code, msg); "generic-error"; "panic";
	// "client-exception[-wrapped]" an *packet.ErrorResponseTCP (optionally %w-wrapped) addressed to somebody else
	Mode string
	Code uint8
	// Delay before answering; Started is signalled (non-blocking) when a handler call starts
	Delay time.Duration
	// ErrorFromUnit > 0: requests whose unit id is >= ErrorFromUnit are answered with a typed handler error
	// packet.NewErrorParseTCP(ErrorCodeFor(unit), msg) instead of the device's reply
	ErrorFromUnit uint8
	Started       chan struct{}
	// IgnoreContext: the handler does not look at the context it is given; DoneContexts counts the calls that were given a context
	// that was already done (and were refused for it)
	IgnoreContext bool
	DoneContexts  int
	Calls         int
	Seen          [][]byte
}

var (
	refusalMu sync.Mutex
	refusals  = map[uint8]*packet.ErrorParseTCP{}
)

// refusal returns the process-wide error value for the code.
func refusal(code uint8) *packet.ErrorParseTCP {
	refusalMu.Lock()
	defer refusalMu.Unlock()
	e := refusals[code]
	if e == nil {
		e = packet.NewErrorParseTCP(code, "handler refuses this unit")
		refusals[code] = e
	}
	return e
}

// Handle implements server.ModbusHandler.
func (h *Handler) Handle(ctx context.Context, req packet.Request) (packet.Response, error) {
	h.mu.Lock()
	h.Calls++
	raw := req.Bytes()
	h.Seen = append(h.Seen, raw)
	mode, code, delay := h.Mode, h.Code, h.Delay
	h.mu.Unlock()
	if h.Started != nil {
		select {
		case h.Started <- struct{}{}:
		default:
		}
	}
	if delay > 0 {
		time.Sleep(delay)
	}
	// like a gateway that passes its context on to the upstream call, the handler refuses to work with a context that is already done:
	// while the server is serving and nobody has cancelled the serve context, the context a handler is given is live
	if err := ctx.Err(); err != nil && !h.IgnoreContext {
		h.mu.Lock()
		h.DoneContexts++
		h.mu.Unlock()
		return nil, fmt.Errorf("handler: the context it was given is already done: %w", err)
	}
	if h.ErrorFromUnit > 0 && len(raw) > 6 && raw[6] >= h.ErrorFromUnit {
		// one error value per code, created once and returned for every refusal (the usual package-level `var errRefused = ...`):
		// the value is the handler's, the server only reads it
		return nil, refusal(ErrorCodeFor(raw[6]))
	}
	if mode == "mutate-error" || mode == "mutate-typed-error" {
		// a gateway handler re-addresses the request object it was given (own upstream transaction id, mapped unit id) before
		// forwarding it, and then fails: the exception must still be addressed to the request as it was received
		readdress(req)
		if mode == "mutate-typed-error" {
			return nil, packet.NewErrorParseTCP(code, "upstream says no")
		}
		return nil, errors.New("upstream failed")
	}
	if mode == "accept-all" {
		// a handler that does not validate anything itself: whatever request object reaches it gets a normal-looking response
		// (refusing out-of-range requests is the library's job, before the handler is called)
		return RawResponse{B: []byte{raw[0], raw[1], 0, 0, 0, 3, raw[6], raw[7], 0x00}, FC: req.FunctionCode()}, nil
	}
	switch mode {
	case "typed-error":
		return nil, packet.NewErrorParseTCP(code, "handler says no")
	case "generic-error":
		return nil, errors.New("handler failed")
	case "client-exception", "client-exception-wrapped":
		// what a gateway handler gets from modbus.Client.Do when the upstream device answers with an exception: an error value of
		// the client API's type that carries ITS OWN addressing (upstream transaction id / unit id / function)
		up := &packet.ErrorResponseTCP{TransactionID: 0xBEEF, UnitID: raw[6] + 3, Function: 0x2B, Code: code}
		if mode == "client-exception-wrapped" {
			return nil, fmt.Errorf("upstream refused: %w", up)
		}
		return nil, up
	case "panic":
		panic("handler panic (injected)")
	}
	h.mu.Lock()
	reply := h.Dev.Answer(spec.TCP, raw)
	h.mu.Unlock()
	return RawResponse{B: reply, FC: req.FunctionCode()}, nil
}

// readdress overwrites the exported TransactionID and UnitID fields of a parsed TCP request (the parsers return pointers to structs
// embedding MBAPHeader and the function's request struct).
func readdress(req packet.Request) {
	v := reflect.ValueOf(req)
	if v.Kind() != reflect.Ptr || v.IsNil() {
		return
	}
	var walk func(x reflect.Value)
	walk = func(x reflect.Value) {
		if x.Kind() != reflect.Struct {
			return
		}
		for i := 0; i < x.NumField(); i++ {
			f, name := x.Field(i), x.Type().Field(i).Name
			switch {
			case name == "TransactionID" && f.CanSet() && f.Kind() == reflect.Uint16:
				f.SetUint(uint64(uint16(f.Uint()) ^ 0x5A5A))
			case name == "UnitID" && f.CanSet() && f.Kind() == reflect.Uint8:
				f.SetUint(uint64(uint8(f.Uint()) ^ 0xE6))
			default:
				walk(f)
			}
		}
	}
	walk(v.Elem())
}

// ErrorCodeFor is the exception code the handler uses for an error unit.
func ErrorCodeFor(unit uint8) uint8 { return 1 + unit%11 }

// Collector reads everything arriving on a connection.
type Collector struct {
	mu   sync.Mutex
	buf  []byte
	err  error
	done chan struct{}
	last time.Time
}

// Collect starts a reader goroutine on conn.
func Collect(conn net.Conn) *Collector {
	c := &Collector{done: make(chan struct{}), last: time.Now()}
	go func() {
		defer close(c.done)
		b := make([]byte, 4096)
		for {
			n, err := conn.Read(b)
			c.mu.Lock()
			if n > 0 {
				c.buf = append(c.buf, b[:n]...)
				c.last = time.Now()
			}
			if err != nil {
				c.err = err
				c.mu.Unlock()
				return
			}
			c.mu.Unlock()
		}
	}()
	return c
}

// Bytes returns a copy of what has been received so far.
func (c *Collector) Bytes() []byte {
	c.mu.Lock()
	defer c.mu.Unlock()
	return append([]byte(nil), c.buf...)
}

// Closed reports whether the reader ended (peer closed) and with which error.
func (c *Collector) Closed() (bool, error) {
	select {
	case <-c.done:
		c.mu.Lock()
		defer c.mu.Unlock()
		return true, c.err
	default:
		return false, nil
	}
}

// WaitLen waits until at least n bytes were received, the peer closed, or the ceiling passed. It returns the bytes received.
func (c *Collector) WaitLen(n int, ceiling time.Duration) []byte {
	deadline := time.Now().Add(ceiling)
	for {
		c.mu.Lock()
		l := len(c.buf)
		c.mu.Unlock()
		if l >= n {
			return c.Bytes()
		}
		if closed, _ := c.Closed(); closed {
			return c.Bytes()
		}
		if time.Now().After(deadline) {
			return c.Bytes()
		}
		time.Sleep(200 * time.Microsecond)
	}
}

// WaitQuiet waits until nothing has arrived for the quiet period (or ceiling) and returns the bytes.
func (c *Collector) WaitQuiet(quiet, ceiling time.Duration) []byte {
	deadline := time.Now().Add(ceiling)
	for {
		c.mu.Lock()
		idle := time.Since(c.last)
		c.mu.Unlock()
		if idle >= quiet || time.Now().After(deadline) {
			return c.Bytes()
		}
		if closed, _ := c.Closed(); closed {
			return c.Bytes()
		}
		time.Sleep(500 * time.Microsecond)
	}
}

// WaitClosed waits for the peer to close.
func (c *Collector) WaitClosed(ceiling time.Duration) bool {
	select {
	case <-c.done:
		return true
	case <-time.After(ceiling):
		return false
	}
}
