package cli

import (
	"context"
	"fmt"
	"io"
	"net"
	"reflect"
	"time"

	modbus "github.com/aldas/go-modbus-client"
	"github.com/aldas/go-modbus-client/packet"

	"verif/internal/cat"
	"verif/internal/spec"
	"verif/internal/xport"
)

// Session is one long-lived client (network or serial) on a scripted transport: many request calls on the same Client value (what a polling
// program does for days), each with its own reply stream and read script. Checks use it to look at a property after the client has
// aged: counters that wrap, buffers that fill up, allowances that run out.
type Session struct {
	Kind    string
	script  *xport.Script
	client  *modbus.Client
	do      func(context.Context, packet.Request) (packet.Response, error)
	closeFn func() error
	rec     *Recorder
	seq     int
	// Calls is the number of request calls made so far
	Calls     int
	dials     int
	curStream []byte
	curEvents []xport.Event
}

// NewSession creates and connects a network client (TCP or RTUNet) with the given total read timeout; with hooks, a Recorder is
// installed whose calls each Call returns.
func NewSession(kind string, readTimeoutMs int, hooks bool) (*Session, error) {
	return NewSessionWith(kind, readTimeoutMs, hooks, false)
}

// NewSessionWith is NewSession; with explicitParser the configuration names the protocol's standard response parser explicitly
// (see Scenario.ExplicitParser).
func NewSessionWith(kind string, readTimeoutMs int, hooks, explicitParser bool) (*Session, error) {
	s := &Session{Kind: kind}
	s.script = &xport.Script{IdleKind: "timeout"}
	s.script.Seq = &s.seq
	rt := time.Duration(readTimeoutMs) * time.Millisecond
	if rt == 0 {
		rt = 2 * time.Second
	}
	if IsSerial(kind) {
		s.script.IdleKind, s.script.IdleWait = "empty", 300*time.Microsecond
		var port io.ReadWriteCloser = &xport.ScriptPort{S: s.script}
		if kind == SerialFlush {
			port = &xport.ScriptPortFlusher{ScriptPort: xport.ScriptPort{S: s.script}}
		}
		opts := []modbus.SerialClientOptionFunc{modbus.WithSerialReadTimeout(rt)}
		if hooks {
			s.rec = &Recorder{seq: &s.seq}
			opts = append(opts, modbus.WithSerialHooks(s.rec))
		}
		sc := modbus.NewSerialClient(port, opts...)
		s.do, s.closeFn = sc.Do, sc.Close
		return s, nil
	}
	conf := modbus.ClientConfig{ReadTimeout: rt, WriteTimeout: time.Second,
		DialContextFunc: func(ctx context.Context, address string) (net.Conn, error) {
			s.dials++
			if s.dials > 1 {
				// a client that dials again on its own finds the same device: the connection behaves as the current call's did, from the start
				again := &xport.Script{Stream: append([]byte(nil), s.curStream...), Events: append([]xport.Event(nil), s.curEvents...), IdleKind: "timeout"}
				return &xport.ScriptConn{S: again}, nil
			}
			return &xport.ScriptConn{S: s.script}, nil
		}}
	if hooks {
		s.rec = &Recorder{seq: &s.seq}
		conf.Hooks = s.rec
	}
	if kind == TCP {
		if explicitParser {
			conf.ParseResponseFunc = packet.ParseTCPResponse
		}
		s.client = modbus.NewTCPClientWithConfig(conf)
	} else {
		if explicitParser {
			conf.ParseResponseFunc = packet.ParseRTUResponseWithCRC
		}
		s.client = modbus.NewRTUClientWithConfig(conf)
	}
	if err := s.client.Connect(context.Background(), "script:1"); err != nil {
		return nil, err
	}
	s.do, s.closeFn = s.client.Do, s.client.Close
	return s, nil
}

// Call makes one request call: the transport delivers stream according to events.
func (s *Session) Call(r spec.Req, stream []byte, events []xport.Event) (out Outcome) {
	f := FramingOf(s.Kind)
	q, err := cat.NewRequest(f, r)
	if err != nil {
		out.Err = fmt.Errorf("harness: constructor refused the request: %w", err)
		out.Panic = out.Err.Error()
		return out
	}
	return s.CallWith(q, stream, events)
}

// Readdress changes, in place, the transaction id (TCP requests) and the unit id of a request object the constructors returned - what a
// program does that keeps one request value and updates it for every poll. It reports whether both fields were found.
func Readdress(q packet.Request, tx uint16, unit uint8) bool {
	v := reflect.ValueOf(q)
	if v.Kind() != reflect.Ptr || v.IsNil() {
		return false
	}
	found := 0
	var walk func(x reflect.Value)
	walk = func(x reflect.Value) {
		if x.Kind() != reflect.Struct {
			return
		}
		for i := 0; i < x.NumField(); i++ {
			fl, name := x.Field(i), x.Type().Field(i).Name
			switch {
			case name == "TransactionID" && fl.CanSet() && fl.Kind() == reflect.Uint16:
				fl.SetUint(uint64(tx))
				found |= 1
			case name == "UnitID" && fl.CanSet() && fl.Kind() == reflect.Uint8:
				fl.SetUint(uint64(unit))
				found |= 2
			case fl.Kind() == reflect.Struct:
				walk(fl)
			}
		}
	}
	walk(v.Elem())
	return found&2 != 0
}

// CallWith is Call with a request object the caller keeps (and may have modified since the last call).
func (s *Session) CallWith(q packet.Request, stream []byte, events []xport.Event) (out Outcome) {
	out.Request, out.ReqBytes = q, append([]byte(nil), q.Bytes()...)
	s.curStream, s.curEvents = stream, events
	s.script.Reset(append([]byte(nil), stream...), append([]xport.Event(nil), events...), false)
	if s.rec != nil {
		s.rec.Calls = nil
	}
	s.Calls++
	type res struct {
		resp packet.Response
		err  error
		p    interface{}
	}
	ch := make(chan res, 1)
	go func() {
		var x res
		defer func() {
			if p := recover(); p != nil {
				x.p = p
			}
			ch <- x
		}()
		x.resp, x.err = s.do(context.Background(), q)
	}()
	select {
	case x := <-ch:
		out.Resp, out.Err, out.Panic = x.resp, x.err, x.p
	case <-time.After(HangCeiling):
		out.Hung = true
		return out
	}
	out.ReadLeftInFlight = !s.script.WaitIdle(2 * time.Second)
	out.Writes, out.Reads, out.Consumed, out.Flushes = s.script.Snapshot()
	out.WriteSeqs = append([]int(nil), s.script.WriteSeqs...)
	if s.rec != nil {
		out.Hooks = append([]HookCall(nil), s.rec.Calls...)
	}
	return out
}

// Close closes the client.
func (s *Session) Close() { _ = s.closeFn() }
