// Package cli runs one request call of the library's clients against a
// scripted transport and reports everything observable about it. Shared by
// C07, C08, C12 and C19.
package cli

import (
	"context"
	"errors"
	"fmt"
	"net"
	"runtime"
	"strconv"
	"time"

	modbus "github.com/aldas/go-modbus-client"
	"github.com/aldas/go-modbus-client/packet"

	"verif/internal/cat"
	"verif/internal/device"
	"verif/internal/harness"
	"verif/internal/spec"
	"verif/internal/xport"
)

// Client kinds.
const (
	TCP         = "tcp"
	RTUNet      = "rtu-net"
	Serial      = "serial"
	SerialFlush = "serial-flush"
)

// Kinds lists all client kinds.
var Kinds = []string{TCP, RTUNet, Serial, SerialFlush}

// FramingOf returns the framing a client kind speaks.
func FramingOf(kind string) spec.Framing {
	if kind == TCP {
		return spec.TCP
	}
	return spec.RTU
}

// IsSerial reports whether the kind is the serial client.
func IsSerial(kind string) bool { return kind == Serial || kind == SerialFlush }

// Scenario is one request call.
type Scenario struct {
	Kind   string        `json:"kind"`
	Req    spec.Req      `json:"req"`
	Stream spec.Hex      `json:"stream"` // bytes the transport can deliver after the write
	Events []xport.Event `json:"events"`
	// ReadTimeoutMs configures the client's total read timeout (0: 2000)
	ReadTimeoutMs int  `json:"read_timeout_ms,omitempty"`
	WriteErr      bool `json:"write_err,omitempty"`
	// CancelBefore: the context is already cancelled when Do is called
	CancelBefore bool `json:"cancel_before,omitempty"`
	// WithCause: the caller's context is created with context.WithCancelCause / WithDeadlineCause and ends with a cause of its own
	// (ErrCause). The call must still report the context's error (context.Canceled / DeadlineExceeded), not the cause.
	WithCause bool `json:"with_cause,omitempty"`
	// DeadlineMs > 0: the caller's context carries a deadline this many milliseconds after the call starts
	// (-1: a deadline that has already passed)
	DeadlineMs int `json:"deadline_ms,omitempty"`
	// NotConnected: network client without Connect / serial client with nil port
	NotConnected bool `json:"not_connected,omitempty"`
	NilRequest   bool `json:"nil_request,omitempty"`
	Hooks        bool `json:"hooks,omitempty"`
	// Prior: a request call made on the same client before the one under test (state carried between calls).
	// Kind: "success" (whole reply), "stall" (nothing arrives: ends by the read timeout), "eof", "ioerr", "partial-stall" (half the reply, then nothing),
	// "nil-request" (the earlier call passes a nil request), "cancelled" (the caller's context is cancelled from inside the first read,
	// before any reply byte: the request was sent and then given up)
	Prior string `json:"prior,omitempty"`
	// CustomParse: network clients only: build with NewClient and a wrapped ParseResponseFunc so parser entry is observable
	CustomParse bool `json:"custom_parse,omitempty"`
	// FlushFails (kind serial-flush): the port's Flush fails
	FlushFails bool `json:"flush_fails,omitempty"`
	// Again: after the judged call has returned, the same call is made once more on the same client object with a background context and
	// a transport that delivers the whole reply in one read (Outcome.AgainErr / AgainHung / AgainElapsed): a failed call leaves the
	// client usable, so the next call returns too
	Again bool `json:"again,omitempty"`
	// Follow: after a successful call, the same request is made once more on the same client and answered by a device
	// with a different memory image; the first response is re-encoded before and after (Outcome.RespAtReturn / RespAfterFollow)
	Follow bool `json:"follow,omitempty"`
	// ConnectFails (network clients): Connect is called and fails - the dial function returns an error together with a nil
	// connection ("nil") or with a nil *conn wrapped in a non-nil net.Conn ("typed-nil", what `c, err := tls.Dial(..); return c, err`
	// yields). The client is then unconnected.
	ConnectFails string `json:"connect_fails,omitempty"`
	// ExplicitParser (network clients built by NewTCPClientWithConfig / NewRTUClientWithConfig): the configuration names the
	// protocol's standard response parser explicitly (ParseResponseFunc set, AsProtocolErrorFunc left nil). The client must behave
	// exactly like one configured without it.
	ExplicitParser bool `json:"explicit_parser,omitempty"`
	// PriorRepeat > 1: the earlier call is made this many times in a row (e.g. a run of timeouts)
	PriorRepeat int `json:"prior_repeat,omitempty"`
	// PriorReq: the earlier call (Prior) sends this request instead of Req
	PriorReq *spec.Req `json:"prior_req,omitempty"`
	// PacketConn (network clients): the connection the dial function returns also implements net.PacketConn (as the *net.UDPConn behind a
	// `udp://` address does); the clients use Read and Write only, so nothing changes
	PacketConn bool `json:"packet_conn,omitempty"`
	// ZeroReadTimeout (serial clients): the client is built with WithSerialReadTimeout(0) - a legal value: the total read timeout is
	// over at once
	ZeroReadTimeout bool `json:"zero_read_timeout,omitempty"`
	// Address (network clients): the address given to Connect ("" = "script:1"). The dial function of the scenario ignores it,
	// so every form of a stream address (host:port, tcp://, tcp4://, tcp6://, unix://) must behave the same.
	Address string `json:"address,omitempty"`
}

// Addresses are forms of stream-transport addresses Connect accepts ("" is the default of the harness).
var Addresses = []string{"", "", "localhost:5020", "tcp://localhost:5020", "tcp4://127.0.0.1:502", "tcp6://[::1]:502", "unix:///run/modbus.sock"}

// PriorShapes are the request shapes an earlier call can use.
var PriorShapes = []string{"", "short", "short", "long"}

// PriorShapeReq returns the earlier call's request for a shape: "" same as the judged request (nil) | "short" (FC17, the shortest
// frame) | "long" (FC16 with 100 registers).
func PriorShapeReq(shape string) *spec.Req {
	switch shape {
	case "short":
		return &spec.Req{FC: 17, Unit: 5, Tx: 0x0501}
	case "long":
		return &spec.Req{FC: 16, Unit: 5, Tx: 0x0502, Addr: 7, Qty: 100, ByteCount: 200, Payload: harness.Bytes(5, 200)}
	}
	return nil
}

// PriorIntact reports whether the response returned by the earlier call still reads the same after the judged call ("" if so).
func (o Outcome) PriorIntact() string {
	if o.PriorRespAtReturn != nil && o.PriorRespAfter != nil && string(o.PriorRespAtReturn) != string(o.PriorRespAfter) {
		return fmt.Sprintf("the response %x returned by an earlier call on the same client reads %x after this call", o.PriorRespAtReturn, o.PriorRespAfter)
	}
	return ""
}

// HookCall is one recorded hook invocation.
type HookCall struct {
	Kind string // write | read | parse
	Data []byte
	N    int
	Err  error
	Seq  int
}

// Recorder implements modbus.ClientHooks and copies its arguments at call time.
type Recorder struct {
	Calls []HookCall
	seq   *int
}

// (Each hook yields the processor before it looks at its argument, as a hook that formats and logs would: the bytes it was given
// must stay what they are for as long as the hook runs.)
func (r *Recorder) BeforeWrite(b []byte) {
	*r.seq++
	seq := *r.seq
	runtime.Gosched()
	r.Calls = append(r.Calls, HookCall{Kind: "write", Data: append([]byte(nil), b...), Seq: seq})
}
func (r *Recorder) AfterEachRead(b []byte, n int, err error) {
	*r.seq++
	seq := *r.seq
	runtime.Gosched()
	r.Calls = append(r.Calls, HookCall{Kind: "read", Data: append([]byte(nil), b...), N: n, Err: err, Seq: seq})
}
func (r *Recorder) BeforeParse(b []byte) {
	*r.seq++
	seq := *r.seq
	runtime.Gosched()
	r.Calls = append(r.Calls, HookCall{Kind: "parse", Data: append([]byte(nil), b...), Seq: seq})
}

// Outcome is everything observable about the call.
type Outcome struct {
	Request  packet.Request
	ReqBytes []byte
	Resp     packet.Response
	Err      error
	Panic    interface{}
	Hung     bool
	// PriorHung: the earlier call on the same client (Scenario.Prior) did not return
	PriorHung bool
	// ReadLeftInFlight: a transport Read was still running 2 s after the call had returned
	ReadLeftInFlight bool
	Elapsed          time.Duration
	Writes           [][]byte
	Reads            []xport.ReadLog
	Consumed         int
	Flushes          int
	WriteSeqs        []int
	Hooks            []HookCall
	// ParserCalls: inputs the wrapped parser saw (CustomParse), with the sequence number relative to hook calls
	ParserCalls []HookCall
	// Follow: re-encodings of Resp taken when the call returned and after a later call on the same client
	RespAtReturn, RespAfterFollow []byte
	FollowErr                     error
	// Again: what the repeated call did
	AgainErr     error
	AgainHung    bool
	AgainDone    bool
	AgainElapsed time.Duration
	// Prior: re-encodings of the response the earlier call returned (if it succeeded), taken when it returned and after the judged call
	PriorRespAtReturn, PriorRespAfter []byte
}

// ErrCause is the cause attached to the caller's context when Scenario.WithCause is set (itself a *ClientError, as a watchdog that
// cancels with the previous transport failure would attach).
var ErrCause error = &modbus.ClientError{Err: errors.New("watchdog: earlier transport failure")}

// HangCeiling is how long a call may run before it is declared hung.
var HangCeiling = 10 * time.Second

// Run executes the scenario.
func Run(sc Scenario) (out Outcome) {
	f := FramingOf(sc.Kind)
	var req packet.Request
	if !sc.NilRequest {
		q, err := cat.NewRequest(f, sc.Req)
		if err != nil {
			out.Err = fmt.Errorf("harness: constructor refused the request: %w", err)
			out.Panic = out.Err.Error()
			return out
		}
		req = q
		out.Request = q
		out.ReqBytes = q.Bytes()
	}
	rt := time.Duration(sc.ReadTimeoutMs) * time.Millisecond
	if rt == 0 {
		rt = 2 * time.Second
	}
	ctx, cancel := context.WithCancel(context.Background())
	if sc.WithCause {
		var cc context.CancelCauseFunc
		ctx, cc = context.WithCancelCause(context.Background())
		cancel = func() { cc(ErrCause) }
	}
	defer cancel()
	address := sc.Address
	if address == "" {
		address = "script:1"
	}
	script := &xport.Script{Stream: append([]byte(nil), sc.Stream...), Events: append([]xport.Event(nil), sc.Events...), WriteErr: sc.WriteErr, FlushErr: sc.FlushFails, OnCancel: cancel}
	seq := 0
	dials := 0
	script.Seq = &seq
	var rec *Recorder
	if sc.Hooks {
		rec = &Recorder{seq: &seq}
	}
	var do func(context.Context, packet.Request) (packet.Response, error)
	if IsSerial(sc.Kind) {
		script.IdleKind, script.IdleWait = "empty", 300*time.Microsecond
		var port interface {
			Read([]byte) (int, error)
			Write([]byte) (int, error)
			Close() error
		}
		if sc.Kind == SerialFlush {
			port = &xport.ScriptPortFlusher{ScriptPort: xport.ScriptPort{S: script}}
		} else {
			port = &xport.ScriptPort{S: script}
		}
		opts := []modbus.SerialClientOptionFunc{modbus.WithSerialReadTimeout(rt)}
		if sc.ZeroReadTimeout {
			opts = []modbus.SerialClientOptionFunc{modbus.WithSerialReadTimeout(0)}
		}
		if rec != nil {
			opts = append(opts, modbus.WithSerialHooks(rec))
		}
		var c *modbus.SerialClient
		if sc.NotConnected {
			c = modbus.NewSerialClient(nil, opts...)
		} else {
			c = modbus.NewSerialClient(port, opts...)
		}
		do = c.Do
	} else {
		script.IdleKind, script.IdleWait = "timeout", 0
		conf := modbus.ClientConfig{ReadTimeout: rt, WriteTimeout: time.Second,
			DialContextFunc: func(ctx context.Context, address string) (net.Conn, error) {
				dials++
				if dials > 1 {
					// a client that dials again on its own finds the same device: the connection behaves as the first one did, from the start
					again := &xport.Script{Stream: append([]byte(nil), sc.Stream...), Events: append([]xport.Event(nil), sc.Events...), IdleKind: "timeout"}
					return &xport.ScriptConn{S: again}, nil
				}
				if sc.PacketConn {
					return &xport.ScriptPacketConn{ScriptConn: xport.ScriptConn{S: script}}, nil
				}
				return &xport.ScriptConn{S: script}, nil
			}}
		if sc.ConnectFails != "" {
			conf.DialContextFunc = func(ctx context.Context, address string) (net.Conn, error) {
				if sc.ConnectFails == "typed-nil" {
					var none *xport.ScriptConn
					return none, xport.ErrIO
				}
				return nil, xport.ErrIO
			}
		}
		if rec != nil {
			conf.Hooks = rec
		}
		var c *modbus.Client
		switch {
		case sc.CustomParse:
			inner := packet.ParseTCPResponse
			conf.AsProtocolErrorFunc = packet.AsTCPErrorPacket
			if sc.Kind == RTUNet {
				inner = packet.ParseRTUResponseWithCRC
				conf.AsProtocolErrorFunc = packet.AsRTUErrorPacket
			}
			conf.ParseResponseFunc = func(d []byte) (packet.Response, error) {
				seq++
				out.ParserCalls = append(out.ParserCalls, HookCall{Kind: "parser", Data: append([]byte(nil), d...), Seq: seq})
				return inner(d)
			}
			c = modbus.NewClient(conf)
		case sc.Kind == TCP:
			if sc.ExplicitParser {
				conf.ParseResponseFunc = packet.ParseTCPResponse
			}
			c = modbus.NewTCPClientWithConfig(conf)
		default:
			if sc.ExplicitParser {
				conf.ParseResponseFunc = packet.ParseRTUResponseWithCRC
			}
			c = modbus.NewRTUClientWithConfig(conf)
		}
		if sc.ConnectFails != "" {
			var cerr error
			func() {
				defer func() {
					if p := recover(); p != nil {
						cerr = nil
						out.Panic = fmt.Sprintf("Connect panicked: %v", p)
					}
				}()
				cerr = c.Connect(context.Background(), address)
			}()
			if out.Panic != nil {
				return out
			}
			if cerr == nil {
				out.Panic = "harness: Connect succeeded although the dial function failed"
				return out
			}
		} else if !sc.NotConnected {
			if err := c.Connect(context.Background(), address); err != nil {
				out.Err = err
				return out
			}
		}
		do = c.Do
	}
	if sc.Prior != "" && req != nil && !sc.NotConnected && sc.ConnectFails == "" {
		// the earlier call uses its own script on the same transport object and a background context
		dn := device.New(77)
		preq, preqBytes := req, out.ReqBytes
		if sc.PriorReq != nil {
			if q, err := cat.NewRequest(f, *sc.PriorReq); err == nil {
				preq, preqBytes = q, q.Bytes()
			}
		}
		full := dn.Answer(f, preqBytes)
		var pev []xport.Event
		switch sc.Prior {
		case "success":
			// (the I/O error is a backstop: where an open finding makes the client wait for more bytes than the reply has, the
			// earlier call ends with it instead of the read timeout)
			pev = []xport.Event{{Kind: "data", N: len(full)}, {Kind: "ioerr", N: 0}}
		case "stall", "nil-request":
		case "cancelled":
			pev = []xport.Event{{Kind: "cancel"}}
		case "partial-stall":
			pev = []xport.Event{{Kind: "data", N: len(full) / 2}}
		case "eof":
			pev = []xport.Event{{Kind: "data", N: len(full) / 2}, {Kind: "eof", N: 0}}
		case "ioerr":
			pev = []xport.Event{{Kind: "data", N: len(full) / 2}, {Kind: "ioerr", N: 0}}
		}
		var priorResp packet.Response
		reps := sc.PriorRepeat
		if reps < 1 {
			reps = 1
		}
		for rep := 0; rep < reps; rep++ {
			script.Reset(full, append([]xport.Event(nil), pev...), false)
			pctx, pcancel := context.WithCancel(context.Background())
			script.SetOnCancel(pcancel)
			pch := make(chan struct{})
			var ppanic interface{}
			go func() {
				defer func() { ppanic = recover(); close(pch) }()
				if sc.Prior == "nil-request" {
					// an earlier call with a nil request (fails immediately) must leave the client usable
					preq = nil
				}
				r, err := do(pctx, preq)
				if err == nil && !cat.IsNilValue(r) {
					priorResp = r
				}
			}()
			select {
			case <-pch:
			case <-time.After(HangCeiling):
				pcancel()
				out.Hung = true
				out.PriorHung = true
				return out
			}
			pcancel()
			if ppanic != nil {
				out.Panic = fmt.Sprintf("earlier call #%d (%s) on the same client panicked: %v", rep+1, sc.Prior, ppanic)
				return out
			}
		}
		script.SetOnCancel(cancel)
		script.Reset(append([]byte(nil), sc.Stream...), append([]xport.Event(nil), sc.Events...), sc.WriteErr)
		if priorResp != nil {
			out.PriorRespAtReturn = append([]byte(nil), priorResp.Bytes()...)
			defer func() { out.PriorRespAfter = append([]byte(nil), priorResp.Bytes()...) }()
		}
		// observations are about the judged call only
		if rec != nil {
			rec.Calls = nil
		}
		out.ParserCalls = nil
	}
	if sc.CancelBefore {
		cancel()
	}
	if sc.DeadlineMs != 0 {
		d := time.Duration(sc.DeadlineMs) * time.Millisecond
		var dcancel context.CancelFunc
		if sc.WithCause {
			ctx, dcancel = context.WithDeadlineCause(ctx, time.Now().Add(d), ErrCause)
		} else {
			ctx, dcancel = context.WithDeadline(ctx, time.Now().Add(d))
		}
		defer dcancel()
	}
	type res struct {
		resp packet.Response
		err  error
		p    interface{}
	}
	ch := make(chan res, 1)
	start := time.Now()
	go func() {
		var r res
		defer func() {
			if p := recover(); p != nil {
				r.p = p
			}
			ch <- r
		}()
		r.resp, r.err = do(ctx, req)
	}()
	select {
	case r := <-ch:
		out.Resp, out.Err, out.Panic = r.resp, r.err, r.p
	case <-time.After(HangCeiling):
		out.Hung = true
	}
	out.Elapsed = time.Since(start)
	if !out.Hung {
		// a read the client has abandoned completes before the transport is looked at
		out.ReadLeftInFlight = !script.WaitIdle(2 * time.Second)
	}
	out.Writes, out.Reads, out.Consumed, out.Flushes = script.Snapshot()
	out.WriteSeqs = append([]int(nil), script.WriteSeqs...)
	if rec != nil {
		out.Hooks = append([]HookCall(nil), rec.Calls...)
	}
	if sc.Again && !out.Hung && out.Panic == nil {
		var whole []byte
		if req != nil {
			whole = device.New(0xA6A1).Answer(f, out.ReqBytes)
		}
		script.Reset(whole, []xport.Event{{Kind: "data", N: len(whole)}}, false)
		ach := make(chan error, 1)
		astart := time.Now()
		go func() {
			defer func() {
				if p := recover(); p != nil {
					ach <- fmt.Errorf("panic: %v", p)
				}
			}()
			_, err := do(context.Background(), req)
			ach <- err
		}()
		select {
		case out.AgainErr = <-ach:
			out.AgainDone = true
		case <-time.After(HangCeiling):
			out.AgainHung = true
		}
		out.AgainElapsed = time.Since(astart)
	}
	if sc.Follow && !out.Hung && out.Panic == nil && out.Err == nil && !cat.IsNilValue(out.Resp) && req != nil {
		out.RespAtReturn = append([]byte(nil), out.Resp.Bytes()...)
		other := device.New(0x5EED0FF0110).Answer(f, out.ReqBytes)
		script.Reset(other, []xport.Event{{Kind: "data", N: len(other)}}, false)
		fch := make(chan error, 1)
		go func() {
			defer func() {
				if p := recover(); p != nil {
					fch <- fmt.Errorf("panic: %v", p)
				}
			}()
			_, err := do(context.Background(), req)
			fch <- err
		}()
		select {
		case out.FollowErr = <-fch:
		case <-time.After(HangCeiling):
			out.FollowErr = fmt.Errorf("the later call did not return")
		}
		out.RespAfterFollow = append([]byte(nil), out.Resp.Bytes()...)
	}
	return out
}

// RunMany runs scenarios concurrently (used to absorb the serial client's fixed 30 ms sleep).
func RunMany(scs []Scenario) []Outcome {
	outs := make([]Outcome, len(scs))
	done := make(chan int, len(scs))
	for i := range scs {
		go func(i int) {
			outs[i] = Run(scs[i])
			done <- i
		}(i)
	}
	for range scs {
		<-done
	}
	return outs
}

// ---------------------------------------------------------------------------
// expected-length findings and the stopping model

// KeyExpectedLen is the known-findings key for wrong ExpectedResponseLength formulas.
const KeyExpectedLen = "expected-length"

// LibExpected returns the length at which the client's read loop considers the
// normal reply complete, computed from the true normal reply length (trueLen) and the *open findings* of the current property
// (never from the library): true length + delta, or a constant for fc17.
// ok=false: no open finding for (fc, framing) -> the formula is taken to be exact.
func LibExpected(f spec.Framing, r spec.Req, trueLen int) (int, bool) {
	for _, fd := range harness.Findings() {
		if !fd.Open || fd.Property != harness.ID() || fd.Key != KeyExpectedLen {
			continue
		}
		if fd.Params["framing"] != f.String() {
			continue
		}
		match := false
		for _, s := range splitComma(fd.Params["fc"]) {
			if s == strconv.Itoa(int(r.FC)) {
				match = true
			}
		}
		if !match {
			continue
		}
		if v, ok := fd.Params["expected"]; ok {
			n, _ := strconv.Atoi(v)
			return n, true
		}
		d, _ := strconv.Atoi(fd.Params["delta"])
		return trueLen + d, true
	}
	return trueLen, false
}

func splitComma(s string) []string {
	var out []string
	cur := ""
	for _, c := range s {
		if c == ',' {
			out = append(out, cur)
			cur = ""
		} else {
			cur += string(c)
		}
	}
	return append(out, cur)
}

// Stop describes where a read loop with completion length E stops on a script.
type Stop struct {
	// Total bytes accumulated when the loop stops; Complete: it stopped with exactly the whole reply (or the exception shortcut on a complete exception frame)
	Total    int
	Timeout  bool // never reaches E: runs into the total read timeout
	Shortcut bool // stopped because exactly an exception-sized frame with the high bit was buffered
	// EventsUsed is the number of script events consumed when the loop stopped
	EventsUsed int
}

// Model simulates the documented read loop (accumulate until total >= E, exception frame seen at exactly 5/9 bytes, EOF
// on network clients, or timeout) over the data boundaries of a script. It is used only to decide whether a schedule is
// affected by an open expected-length finding.
func Model(kind string, stream []byte, events []xport.Event, E int) Stop {
	f := FramingOf(kind)
	excLen, fcIdx := 9, 7
	if f == spec.RTU {
		excLen, fcIdx = 5, 1
	}
	total := 0
	pos := 0
	step := func(n int) {
		if n > len(stream)-pos {
			n = len(stream) - pos
		}
		pos += n
		total += n
	}
	check := func(eof bool) (Stop, bool) {
		if total == excLen && stream[fcIdx]&0x80 != 0 {
			return Stop{Total: total, Shortcut: true}, true
		}
		if total >= E {
			return Stop{Total: total}, true
		}
		if eof && !IsSerial(kind) {
			return Stop{Total: total}, true
		}
		return Stop{}, false
	}
	for i, ev := range events {
		switch ev.Kind {
		case "data":
			step(ev.N)
			if s, ok := check(false); ok {
				s.EventsUsed = i + 1
				return s
			}
		case "eof":
			step(ev.N)
			if s, ok := check(true); ok {
				s.EventsUsed = i + 1
				return s
			}
		case "timeout", "empty", "cancel":
			if ev.Kind == "timeout" {
				step(ev.N) // (a timed-out read may carry bytes)
			}
			if s, ok := check(false); ok {
				s.EventsUsed = i + 1
				return s
			}
		case "ioerr", "ioerr-timeout":
			return Stop{Total: total, EventsUsed: i + 1}
		}
	}
	return Stop{Total: total, Timeout: true, EventsUsed: len(events)}
}
