// Package device is a conforming Modbus device model: four 65536-entry tables
// whose contents are a pure function of a seed (plus applied writes), and an
// Answer function that decodes requests with the specification model and
// produces the reply the specification prescribes. It does not import the library.
package device

import (
	"verif/internal/spec"
)

// Tables.
const (
	Coils = iota
	DiscreteInputs
	Holding
	Input
)

// Device is one (server address, unit id) device.
type Device struct {
	Seed uint64
	// ForceException != 0: every request is answered with this exception code.
	ForceException uint8
	// TruncateRegs > 0: register read replies (fc3/4/23) carry only min(TruncateRegs, quantity) registers (still well-formed frames).
	TruncateRegs int
	// ServerID/Additional for fc17 (defaults derived from seed if nil)
	ServerID   []byte
	Status     uint8
	Additional []byte

	coilW map[int]bool
	regW  map[int]uint16
}

// New returns a device whose memory image is derived from seed.
func New(seed uint64) *Device { return &Device{Seed: seed} }

func mix(seed uint64, table, addr int) uint64 {
	x := seed ^ uint64(table+1)*0x9E3779B97F4A7C15 ^ uint64(addr)*0xC2B2AE3D27D4EB4F
	x ^= x >> 33
	x *= 0xFF51AFD7ED558CCD
	x ^= x >> 33
	x *= 0xC4CEB9FE1A85EC53
	x ^= x >> 33
	return x
}

// Coil returns the value of a coil (table Coils) or discrete input.
func (d *Device) Coil(table, addr int) bool {
	if table == Coils {
		if v, ok := d.coilW[addr]; ok {
			return v
		}
	}
	return mix(d.Seed, table, addr)&1 == 1
}

// Reg returns the 16-bit value of a holding or input register.
func (d *Device) Reg(table, addr int) uint16 {
	if table == Holding {
		if v, ok := d.regW[addr]; ok {
			return v
		}
	}
	v := uint16(mix(d.Seed, table, addr) >> 7)
	// make NUL bytes and printable text reasonably frequent for string fields
	switch mix(d.Seed, table+8, addr) % 8 {
	case 0:
		v &= 0xFF00
	case 1:
		v &= 0x00FF
	case 2:
		v = uint16('A'+addr%26)<<8 | uint16('a'+addr%26)
	}
	return v
}

// RegBytes returns the wire bytes of registers [addr, addr+n) of a table.
func (d *Device) RegBytes(table, addr, n int) []byte {
	out := make([]byte, 0, 2*n)
	for i := 0; i < n; i++ {
		v := d.Reg(table, addr+i)
		out = append(out, byte(v>>8), byte(v))
	}
	return out
}

// CoilBytes returns the packed coils [addr, addr+n) of a table as the specification packs them.
func (d *Device) CoilBytes(table, addr, n int) []byte {
	bits := make([]bool, n)
	for i := range bits {
		bits[i] = d.Coil(table, addr+i)
	}
	return spec.PackCoils(bits)
}

func (d *Device) setCoil(addr int, v bool) {
	if d.coilW == nil {
		d.coilW = map[int]bool{}
	}
	d.coilW[addr] = v
}

func (d *Device) setReg(addr int, v uint16) {
	if d.regW == nil {
		d.regW = map[int]uint16{}
	}
	d.regW[addr] = v
}

func (d *Device) serverID() ([]byte, uint8, []byte) {
	if d.ServerID != nil {
		return d.ServerID, d.Status, d.Additional
	}
	n := 1 + int(mix(d.Seed, 9, 0)%12)
	if mix(d.Seed, 11, 0)%5 == 0 {
		// a long server id (the reply is then far longer than anything the request lets a client anticipate): 40..239 bytes, with the
		// replies of 63..65 and 127..129 bytes over-represented
		n = 40 + int(mix(d.Seed, 11, 1)%200)
		switch mix(d.Seed, 11, 2) % 4 {
		case 0:
			n = 50 + int(mix(d.Seed, 11, 3)%8)
		case 1:
			n = 114 + int(mix(d.Seed, 11, 3)%8)
		}
	}
	id := make([]byte, n)
	for i := range id {
		id[i] = byte(mix(d.Seed, 9, i+1))
	}
	m := int(mix(d.Seed, 10, 0) % 8)
	add := make([]byte, m)
	for i := range add {
		add[i] = byte(mix(d.Seed, 10, i+1))
	}
	return id, 0xFF, add
}

// Respond computes the response (specification level) to a decoded request PDU.
func (d *Device) Respond(r spec.Req) spec.Resp {
	resp := spec.Resp{FC: r.FC, Unit: r.Unit, Tx: r.Tx}
	exc := func(code uint8) spec.Resp {
		return spec.Resp{FC: r.FC, Unit: r.Unit, Tx: r.Tx, IsException: true, Code: code}
	}
	if !spec.IsSupported(r.FC) {
		return exc(spec.ExIllegalFunction)
	}
	if d.ForceException != 0 {
		return exc(d.ForceException)
	}
	if err := spec.LegalRequest(r); err != nil {
		return exc(spec.ExIllegalDataValue)
	}
	fits := func(a, n int) bool { return a+n <= 65536 }
	switch r.FC {
	case 1, 2:
		if !fits(int(r.Addr), int(r.Qty)) {
			return exc(spec.ExIllegalDataAddress)
		}
		resp.Data = d.CoilBytes(int(r.FC)-1, int(r.Addr), int(r.Qty))
	case 3, 4:
		if !fits(int(r.Addr), int(r.Qty)) {
			return exc(spec.ExIllegalDataAddress)
		}
		n := int(r.Qty)
		if d.TruncateRegs > 0 && d.TruncateRegs < n {
			n = d.TruncateRegs
		}
		resp.Data = d.RegBytes(int(r.FC)-1, int(r.Addr), n)
	case 5:
		d.setCoil(int(r.Addr), r.Value == 0xFF00)
		resp.Addr, resp.Value = r.Addr, r.Value
	case 6:
		d.setReg(int(r.Addr), r.Value)
		resp.Addr, resp.Value = r.Addr, r.Value
	case 15:
		if !fits(int(r.Addr), int(r.Qty)) {
			return exc(spec.ExIllegalDataAddress)
		}
		for i := 0; i < int(r.Qty); i++ {
			d.setCoil(int(r.Addr)+i, spec.CoilAt(r.Payload, i))
		}
		resp.Addr, resp.Value = r.Addr, r.Qty
	case 16:
		if !fits(int(r.Addr), int(r.Qty)) {
			return exc(spec.ExIllegalDataAddress)
		}
		for i := 0; i < int(r.Qty); i++ {
			d.setReg(int(r.Addr)+i, uint16(r.Payload[2*i])<<8|uint16(r.Payload[2*i+1]))
		}
		resp.Addr, resp.Value = r.Addr, r.Qty
	case 17:
		resp.ServerID, resp.Status, resp.Additional = d.serverID()
	case 23:
		if !fits(int(r.Addr), int(r.Qty)) || !fits(int(r.WAddr), int(r.WQty)) {
			return exc(spec.ExIllegalDataAddress)
		}
		// the write is performed before the read
		for i := 0; i < int(r.WQty); i++ {
			d.setReg(int(r.WAddr)+i, uint16(r.Payload[2*i])<<8|uint16(r.Payload[2*i+1]))
		}
		n := int(r.Qty)
		if d.TruncateRegs > 0 && d.TruncateRegs < n {
			n = d.TruncateRegs
		}
		resp.Data = d.RegBytes(Holding, int(r.Addr), n)
	}
	return resp
}

// Answer decodes a request ADU and returns the reply ADU, or nil if the frame
// cannot be attributed (bad framing / bad CRC: a real device stays silent).
func (d *Device) Answer(f spec.Framing, adu []byte) []byte {
	tx, unit, pdu, err := spec.Unframe(f, adu)
	if err != nil || len(pdu) == 0 {
		return nil
	}
	r, derr := spec.DecodeRequestPDU(pdu)
	r.Tx, r.Unit = tx, unit
	if derr != nil {
		if !spec.IsSupported(r.FC) {
			return spec.EncodeResponse(f, spec.Resp{FC: r.FC, Unit: unit, Tx: tx, IsException: true, Code: spec.ExIllegalFunction})
		}
		return spec.EncodeResponse(f, spec.Resp{FC: r.FC, Unit: unit, Tx: tx, IsException: true, Code: spec.ExIllegalDataValue})
	}
	return spec.EncodeResponse(f, d.Respond(r))
}
