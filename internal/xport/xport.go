// Package xport provides transports the harness owns: scripted net.Conn and
// serial ports whose Read calls follow a generated script.
package xport

import (
	"errors"
	"io"
	"net"
	"os"
	"sync"
	"sync/atomic"
	"time"
)

// Event is one step of a read script.
//
//	data N      deliver the next N bytes of the stream (split further if the caller's buffer is smaller)
//	timeout N   timed-out read (error satisfies errors.Is(err, os.ErrDeadlineExceeded)), empty unless N > 0: then the deadline ended
//	            the read after N bytes had arrived and it returns both, as an io.Reader may
//	empty       empty read without error (serial ports)
//	eof N       deliver N bytes together with io.EOF (N may be 0)
//	ioerr N     deliver N bytes together with an I/O error
//	ioerr-timeout N  like ioerr, but the error is ErrIOTimeout
//	cancel      call the cancel hook, then behave like timeout; with Ms > 0 the read then blocks Ms milliseconds and delivers
//	            N bytes (a read that was in flight when the caller gave up, and completes later)
type Event struct {
	Kind string `json:"k"`
	N    int    `json:"n,omitempty"`
	// Ms (data events): the read blocks this many milliseconds before it delivers (a serial port waiting for the bytes)
	Ms int `json:"ms,omitempty"`
}

// ErrIO is the injected I/O failure.
var ErrIO = errors.New("xport: injected i/o error")

type fatalTimeout struct{}

func (fatalTimeout) Error() string   { return "connection timed out" }
func (fatalTimeout) Timeout() bool   { return true }
func (fatalTimeout) Temporary() bool { return false }

// ErrIOTimeout is an injected fatal I/O failure whose type says Timeout() == true (like ETIMEDOUT) but which is NOT the
// read-deadline expiry: errors.Is(ErrIOTimeout, os.ErrDeadlineExceeded) is false.
var ErrIOTimeout error = &net.OpError{Op: "read", Net: "script", Err: fatalTimeout{}}

// ErrWrite is the injected write failure.
var ErrWrite = errors.New("xport: injected write error")

// ReadLog is what one Read call returned.
type ReadLog struct {
	Data []byte
	N    int
	Err  error
	Seq  int // global sequence number (Script.Seq), 0 if not tracked
}

// Script is the state shared by ScriptConn and ScriptPort.
type Script struct {
	mu       sync.Mutex
	Stream   []byte  // bytes available to data events
	Events   []Event // remaining script
	pos      int
	WriteErr bool
	// FlushErr: Flush (ScriptPortFlusher) fails
	FlushErr bool
	OnCancel func()
	// IdleErr: what an idle read (script exhausted) returns besides sleeping: "timeout" (net), "empty" (serial)
	IdleKind string
	IdleWait time.Duration

	// Seq, if set, is a shared event counter: every transport call takes the next number
	Seq       *int
	WriteSeqs []int

	Writes [][]byte
	Reads  []ReadLog
	Closed bool
	// Consumed is the number of stream bytes handed to the reader so far
	Consumed int
	deadline time.Time
	Flushes  int
	inflight atomic.Int32
}

// SetOnCancel replaces the cancel hook.
func (s *Script) SetOnCancel(f func()) {
	s.mu.Lock()
	s.OnCancel = f
	s.mu.Unlock()
}

// WaitIdle waits until no Read call is in flight (a client may have abandoned one) or the ceiling passes; it reports whether
// the transport is idle.
func (s *Script) WaitIdle(ceiling time.Duration) bool {
	end := time.Now().Add(ceiling)
	for s.inflight.Load() != 0 {
		if time.Now().After(end) {
			return false
		}
		time.Sleep(200 * time.Microsecond)
	}
	return true
}

type timeoutErr struct{}

func (timeoutErr) Error() string   { return "i/o timeout" }
func (timeoutErr) Timeout() bool   { return true }
func (timeoutErr) Temporary() bool { return true }
func (timeoutErr) Is(target error) bool {
	return target == os.ErrDeadlineExceeded
}

// ErrTimeout is returned by timed-out reads; errors.Is(ErrTimeout, os.ErrDeadlineExceeded) holds.
var ErrTimeout error = &net.OpError{Op: "read", Net: "script", Err: timeoutErr{}}

func (s *Script) write(b []byte) (int, error) {
	s.mu.Lock()
	defer s.mu.Unlock()
	s.Writes = append(s.Writes, append([]byte(nil), b...))
	if s.Seq != nil {
		*s.Seq++
		s.WriteSeqs = append(s.WriteSeqs, *s.Seq)
	}
	if s.WriteErr {
		return 0, ErrWrite
	}
	return len(b), nil
}

func (s *Script) logRead(p []byte, n int, err error) (int, error) {
	seq := 0
	if s.Seq != nil {
		*s.Seq++
		seq = *s.Seq
	}
	s.Reads = append(s.Reads, ReadLog{Data: append([]byte(nil), p[:n]...), N: n, Err: err, Seq: seq})
	return n, err
}

func (s *Script) take(p []byte, want int) int {
	avail := len(s.Stream) - s.pos
	if want > avail {
		want = avail
	}
	if want > len(p) {
		want = len(p)
	}
	copy(p, s.Stream[s.pos:s.pos+want])
	s.pos += want
	s.Consumed = s.pos
	return want
}

func (s *Script) read(p []byte) (int, error) {
	s.inflight.Add(1)
	defer s.inflight.Add(-1)
	s.mu.Lock()
	if len(s.Events) == 0 {
		wait := s.IdleWait
		if !s.deadline.IsZero() {
			if d := time.Until(s.deadline); d < wait || wait == 0 {
				wait = d
			}
		}
		kind := s.IdleKind
		s.mu.Unlock()
		if wait > 0 {
			time.Sleep(wait)
		}
		s.mu.Lock()
		defer s.mu.Unlock()
		if kind == "empty" {
			return s.logRead(p, 0, nil)
		}
		return s.logRead(p, 0, ErrTimeout)
	}
	defer s.mu.Unlock()
	ev := &s.Events[0]
	pop := func() { s.Events = s.Events[1:] }
	switch ev.Kind {
	case "data":
		if ev.Ms > 0 {
			d := time.Duration(ev.Ms) * time.Millisecond
			ev.Ms = 0
			s.mu.Unlock()
			time.Sleep(d)
			s.mu.Lock()
			ev = &s.Events[0]
		}
		n := s.take(p, ev.N)
		ev.N -= n
		if ev.N <= 0 || n == 0 {
			pop()
		}
		return s.logRead(p, n, nil)
	case "timeout":
		n := s.take(p, ev.N)
		pop()
		return s.logRead(p, n, ErrTimeout)
	case "empty":
		pop()
		return s.logRead(p, 0, nil)
	case "eof":
		n := s.take(p, ev.N)
		pop()
		return s.logRead(p, n, io.EOF)
	case "ioerr":
		n := s.take(p, ev.N)
		pop()
		return s.logRead(p, n, ErrIO)
	case "ioerr-timeout":
		n := s.take(p, ev.N)
		pop()
		return s.logRead(p, n, ErrIOTimeout)
	case "cancel":
		ms, n := ev.Ms, ev.N
		pop()
		if s.OnCancel != nil {
			s.OnCancel()
		}
		if ms > 0 {
			s.mu.Unlock()
			time.Sleep(time.Duration(ms) * time.Millisecond)
			s.mu.Lock()
			return s.logRead(p, s.take(p, n), nil)
		}
		return s.logRead(p, 0, ErrTimeout)
	}
	pop()
	return s.logRead(p, 0, ErrTimeout)
}

// Reset installs a new stream and read script (for the next request call on the same transport) and clears the logs.
func (s *Script) Reset(stream []byte, events []Event, writeErr bool) {
	s.mu.Lock()
	defer s.mu.Unlock()
	s.Stream, s.Events, s.pos, s.Consumed, s.WriteErr = stream, events, 0, 0, writeErr
	s.Writes, s.Reads, s.WriteSeqs = nil, nil, nil
}

// Snapshot returns copies of the logs.
func (s *Script) Snapshot() (writes [][]byte, reads []ReadLog, consumed int, flushes int) {
	s.mu.Lock()
	defer s.mu.Unlock()
	return append([][]byte(nil), s.Writes...), append([]ReadLog(nil), s.Reads...), s.Consumed, s.Flushes
}

// ScriptConn is a net.Conn driven by a Script.
type ScriptConn struct{ S *Script }

type addr string

func (a addr) Network() string { return "script" }
func (a addr) String() string  { return string(a) }

func (c *ScriptConn) Read(p []byte) (int, error)  { return c.S.read(p) }
func (c *ScriptConn) Write(p []byte) (int, error) { return c.S.write(p) }
func (c *ScriptConn) Close() error {
	c.S.mu.Lock()
	c.S.Closed = true
	c.S.mu.Unlock()
	return nil
}
func (c *ScriptConn) LocalAddr() net.Addr                { return addr("local") }
func (c *ScriptConn) RemoteAddr() net.Addr               { return addr("remote") }
func (c *ScriptConn) SetDeadline(t time.Time) error      { return c.SetReadDeadline(t) }
func (c *ScriptConn) SetWriteDeadline(t time.Time) error { return nil }
func (c *ScriptConn) SetReadDeadline(t time.Time) error {
	c.S.mu.Lock()
	c.S.deadline = t
	c.S.mu.Unlock()
	return nil
}

// ScriptPacketConn is a ScriptConn that additionally offers the net.PacketConn methods (what a *net.UDPConn obtained from a
// `udp://` address is): the clients only use Read/Write, so it must behave like any other connection.
type ScriptPacketConn struct{ ScriptConn }

func (c *ScriptPacketConn) ReadFrom(p []byte) (int, net.Addr, error) {
	n, err := c.Read(p)
	return n, addr("remote"), err
}
func (c *ScriptPacketConn) WriteTo(p []byte, a net.Addr) (int, error) { return c.Write(p) }

// ScriptPort is an io.ReadWriteCloser (serial port) driven by a Script.
type ScriptPort struct{ S *Script }

func (c *ScriptPort) Read(p []byte) (int, error)  { return c.S.read(p) }
func (c *ScriptPort) Write(p []byte) (int, error) { return c.S.write(p) }
func (c *ScriptPort) Close() error {
	c.S.mu.Lock()
	c.S.Closed = true
	c.S.mu.Unlock()
	return nil
}

// ScriptPortFlusher additionally implements Flush.
type ScriptPortFlusher struct{ ScriptPort }

// Flush counts calls.
func (c *ScriptPortFlusher) Flush() error {
	c.S.mu.Lock()
	c.S.Flushes++
	fail := c.S.FlushErr
	c.S.mu.Unlock()
	if fail {
		return ErrFlush
	}
	return nil
}

// ErrFlush is the injected Flush failure (Script.FlushErr).
var ErrFlush = errors.New("xport: injected flush error")
