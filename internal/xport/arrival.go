package xport

import (
	"fmt"
	"net"
	"runtime"
	"sync"
	"time"

	"verif/internal/device"
	"verif/internal/spec"
)

// Monitor is shared by all connections of one concurrent scenario: it owns the device model, records the arrival order of
// requests and detects protocol interleaving. It has its own mutex so that the race detector reports only the library's races.
type Monitor struct {
	mu         sync.Mutex
	F          spec.Framing
	Dev        *device.Device
	Serial     bool
	Violations []string
	Arrivals   []spec.Req
	// Plan returns chunk sizes for the reply to request number n (1-based) and yield codes for each transport call.
	Plan func(n int, replyLen int) (chunks []int, yields []int)
	// OnRequest is called (outside the lock) after the n-th request has arrived.
	OnRequest func(n int)
	// Abandonable reports whether the call that sent this request may legitimately give up before reading its reply
	// (its context can be cancelled). Unread bytes of such an exchange are discarded when the next request arrives
	// instead of being reported as interleaving.
	Abandonable func(r spec.Req) bool
	// Delay returns how long the reply to the request is withheld (the exchange stays open meanwhile).
	Delay   func(r spec.Req) time.Duration
	Dropped int
	// CloseDelay makes Close() of every connection take this long
	CloseDelay time.Duration
	// ExcFor returns the exception code the device answers the request with (0: normal reply)
	ExcFor func(r spec.Req) uint8
	// IdleRead: how long a serial Read blocks when no reply byte is readable (a port configured with a read timeout); 0: 300 us
	IdleRead time.Duration
	// FlushDelay makes Flush() take this long; Flushes counts calls, FlushDiscarded the unread reply bytes thrown away by them
	FlushDelay     time.Duration
	Flushes        int
	FlushDiscarded int
	// Wake lets tests observe activity
	conns int
}

func (m *Monitor) violate(format string, args ...interface{}) {
	m.Violations = append(m.Violations, fmt.Sprintf(format, args...))
}

// Snapshot returns copies of the records.
func (m *Monitor) Snapshot() ([]string, []spec.Req) {
	m.mu.Lock()
	defer m.mu.Unlock()
	return append([]string(nil), m.Violations...), append([]spec.Req(nil), m.Arrivals...)
}

// ErrWriteTimeout is what a Write returns that starts after the connection's write deadline (as a net.Conn does).
var ErrWriteTimeout error = &net.OpError{Op: "write", Net: "arrival", Err: timeoutErr{}}

// ArrivalConn answers complete request frames in arrival order.
type ArrivalConn struct {
	M        *Monitor
	id       int
	pending  []byte
	chunks   []int
	yields   []int
	closed   bool
	deadline time.Time
	// wdeadline: the write deadline; a Write that starts after it fails with a timeout and nothing reaches the device
	wdeadline time.Time
	busy      int       // number of transport calls currently inside Read/Write (overlap detection)
	owner     spec.Req  // request whose reply is pending
	readyAt   time.Time // the pending reply becomes readable at this time
	// ops is touched WITHOUT any lock by every transport call (Read, Write, Flush, Close), like the internal state of a port or
	// connection object that is not safe for concurrent use: under the race detector two transport calls that are not ordered
	// by the client's own synchronisation are reported even if they do not overlap in time
	ops int
}

// NewConn creates a connection attached to the monitor.
func (m *Monitor) NewConn() *ArrivalConn {
	m.mu.Lock()
	defer m.mu.Unlock()
	m.conns++
	return &ArrivalConn{M: m, id: m.conns}
}

func yield(code int) {
	switch code % 4 {
	case 1:
		runtime.Gosched()
	case 2:
		time.Sleep(50 * time.Microsecond)
	case 3:
		time.Sleep(200 * time.Microsecond)
	}
}

func (c *ArrivalConn) nextYield() int {
	if len(c.yields) == 0 {
		return 0
	}
	y := c.yields[0]
	c.yields = c.yields[1:]
	return y
}

func (c *ArrivalConn) Write(p []byte) (int, error) {
	c.ops++
	m := c.M
	m.mu.Lock()
	if c.closed {
		m.mu.Unlock()
		return 0, net.ErrClosed
	}
	if !c.wdeadline.IsZero() && !time.Now().Before(c.wdeadline) {
		m.mu.Unlock()
		return 0, ErrWriteTimeout
	}
	c.busy++
	if c.busy > 1 {
		m.violate("conn %d: Write called while another transport call on the same connection is in progress", c.id)
	}
	if len(c.pending) > 0 {
		if m.Abandonable != nil && m.Abandonable(c.owner) {
			// the previous caller was allowed to give up (cancelled context): its unread reply is discarded
			c.pending = nil
			m.Dropped++
		} else {
			m.violate("conn %d: a request frame (%x) was written while %d bytes of the reply to the previous request (unit %d addr %d) were still unread: frames interleaved on the wire", c.id, p, len(c.pending), c.owner.Unit, c.owner.Addr)
		}
	}
	tx, unit, pdu, err := spec.Unframe(m.F, p)
	var n int
	var y int
	if err != nil {
		m.violate("conn %d: write %x is not exactly one %s request frame: %v", c.id, p, m.F, err)
	} else {
		r, derr := spec.DecodeRequestPDU(pdu)
		r.Tx, r.Unit = tx, unit
		if derr != nil {
			m.violate("conn %d: write %x is not a well formed request: %v", c.id, p, derr)
		}
		m.Arrivals = append(m.Arrivals, r)
		n = len(m.Arrivals)
		reply := m.Dev.Answer(m.F, p)
		if m.ExcFor != nil {
			if code := m.ExcFor(r); code != 0 {
				reply = spec.EncodeResponse(m.F, spec.Resp{FC: r.FC, Unit: r.Unit, Tx: r.Tx, IsException: true, Code: code})
			}
		}
		c.pending = append(c.pending, reply...)
		c.owner = r
		c.readyAt = time.Time{}
		if m.Delay != nil {
			if d := m.Delay(r); d > 0 {
				c.readyAt = time.Now().Add(d)
			}
		}
		if m.Plan != nil {
			c.chunks, c.yields = m.Plan(n, len(reply))
		} else {
			c.chunks, c.yields = nil, nil
		}
		y = c.nextYield()
	}
	cb := m.OnRequest
	m.mu.Unlock()
	yield(y)
	if cb != nil && n > 0 {
		cb(n)
	}
	m.mu.Lock()
	c.busy--
	m.mu.Unlock()
	return len(p), nil
}

func (c *ArrivalConn) Read(p []byte) (int, error) {
	c.ops++
	m := c.M
	m.mu.Lock()
	if c.closed {
		m.mu.Unlock()
		return 0, net.ErrClosed
	}
	c.busy++
	if c.busy > 1 {
		m.violate("conn %d: Read called while another transport call on the same connection is in progress", c.id)
	}
	if len(c.pending) == 0 || time.Now().Before(c.readyAt) {
		wait := 300 * time.Microsecond
		if m.Serial && m.IdleRead > 0 {
			wait = m.IdleRead
		}
		if !m.Serial && !c.deadline.IsZero() {
			wait = time.Until(c.deadline)
		}
		// a blocking read returns as soon as bytes arrive: if the pending reply becomes readable within the time this read may block,
		// it waits exactly that long and delivers
		arrives := len(c.pending) > 0 && !c.readyAt.IsZero() && time.Until(c.readyAt) <= wait
		if arrives {
			wait = time.Until(c.readyAt)
		}
		m.mu.Unlock()
		if wait > 0 {
			time.Sleep(wait)
		}
		m.mu.Lock()
		if !arrives || c.closed || len(c.pending) == 0 {
			c.busy--
			m.mu.Unlock()
			if m.Serial {
				return 0, nil
			}
			return 0, ErrTimeout
		}
	}
	n := len(c.pending)
	if len(c.chunks) > 0 {
		if c.chunks[0] < n {
			n = c.chunks[0]
		}
		c.chunks = c.chunks[1:]
	}
	if n > len(p) {
		n = len(p)
	}
	copy(p, c.pending[:n])
	c.pending = c.pending[n:]
	y := c.nextYield()
	m.mu.Unlock()
	yield(y)
	m.mu.Lock()
	c.busy--
	m.mu.Unlock()
	return n, nil
}

// Flush is the optional serial-port operation that discards buffered input. Like every transport call it must not overlap
// another call on the same port; it takes a moment (FlushDelay) and throws away whatever reply bytes are unread.
func (c *ArrivalConn) Flush() error {
	c.ops++
	m := c.M
	m.mu.Lock()
	if c.closed {
		m.mu.Unlock()
		return net.ErrClosed
	}
	c.busy++
	if c.busy > 1 {
		m.violate("conn %d: Flush called while another transport call on the same connection is in progress", c.id)
	}
	m.Flushes++
	d := m.FlushDelay
	m.mu.Unlock()
	if d > 0 {
		time.Sleep(d)
	} else {
		runtime.Gosched()
	}
	m.mu.Lock()
	if len(c.pending) > 0 {
		m.FlushDiscarded += len(c.pending)
		c.pending = nil
	}
	c.busy--
	m.mu.Unlock()
	return nil
}

// Close marks the connection closed; later calls fail with net.ErrClosed. CloseDelay makes Close slow (a port that takes a
// while to release), which keeps a client's lock held for longer.
func (c *ArrivalConn) Close() error {
	c.ops++
	c.M.mu.Lock()
	c.busy++
	if c.busy > 1 {
		c.M.violate("conn %d: Close called while another transport call on the same connection is in progress", c.id)
	}
	d := c.M.CloseDelay
	c.M.mu.Unlock()
	if d > 0 {
		time.Sleep(d)
	}
	c.M.mu.Lock()
	c.closed = true
	c.busy--
	c.M.mu.Unlock()
	return nil
}

func (c *ArrivalConn) LocalAddr() net.Addr  { return addr("local") }
func (c *ArrivalConn) RemoteAddr() net.Addr { return addr("remote") }
func (c *ArrivalConn) SetDeadline(t time.Time) error {
	_ = c.SetWriteDeadline(t)
	return c.SetReadDeadline(t)
}
func (c *ArrivalConn) SetWriteDeadline(t time.Time) error {
	c.M.mu.Lock()
	c.wdeadline = t
	c.M.mu.Unlock()
	return nil
}
func (c *ArrivalConn) SetReadDeadline(t time.Time) error {
	c.M.mu.Lock()
	c.deadline = t
	c.M.mu.Unlock()
	return nil
}
