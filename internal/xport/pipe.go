package xport

import (
	"errors"
	"net"
	"sync"
)

// PipeListener is an in-memory net.Listener handing out net.Pipe ends. net.Pipe delivers one server Read per client
// Write (bounded by the reader's buffer), so the harness controls the server's read segmentation exactly.
type PipeListener struct {
	// LateEvery k > 0: on the connections Accept hands out, every k-th non-empty Read also reports that its deadline has passed - the
	// deadline ended the read after the bytes had arrived, and an io.Reader may return both (wrappers that fill a buffer, tunnelled
	// transports; a plain *net.TCPConn does not). The bytes were read all the same.
	LateEvery int
	mu        sync.Mutex
	ch        chan net.Conn
	closed    bool
	done      chan struct{}
}

// NewPipeListener creates the listener.
func NewPipeListener() *PipeListener {
	return &PipeListener{ch: make(chan net.Conn, 16), done: make(chan struct{})}
}

// ErrListenerClosed is returned by Accept/Dial after Close.
var ErrListenerClosed = errors.New("xport: listener closed")

// Accept implements net.Listener.
func (l *PipeListener) Accept() (net.Conn, error) {
	select {
	case c := <-l.ch:
		if l.LateEvery > 0 {
			return &lateConn{Conn: c, every: l.LateEvery}, nil
		}
		return c, nil
	case <-l.done:
		return nil, ErrListenerClosed
	}
}

// Close implements net.Listener.
func (l *PipeListener) Close() error {
	l.mu.Lock()
	defer l.mu.Unlock()
	if !l.closed {
		l.closed = true
		close(l.done)
	}
	return nil
}

// Addr implements net.Listener.
func (l *PipeListener) Addr() net.Addr { return addr("pipe-listener") }

// Dial returns the client end of a new connection.
func (l *PipeListener) Dial() (net.Conn, error) {
	l.mu.Lock()
	if l.closed {
		l.mu.Unlock()
		return nil, ErrListenerClosed
	}
	l.mu.Unlock()
	c, s := net.Pipe()
	select {
	case l.ch <- s:
		return c, nil
	case <-l.done:
		return nil, ErrListenerClosed
	}
}

// lateConn: see PipeListener.LateEvery.
type lateConn struct {
	net.Conn
	every int
	n     int
}

func (c *lateConn) Read(p []byte) (int, error) {
	n, err := c.Conn.Read(p)
	if err == nil && n > 0 {
		c.n++
		if c.n%c.every == 0 {
			return n, ErrTimeout
		}
	}
	return n, err
}
