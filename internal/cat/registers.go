package cat

import (
	"fmt"

	"github.com/aldas/go-modbus-client/packet"

	"verif/internal/spec"
)

// CallAccess performs the typed read a on regs.
func CallAccess(regs *packet.Registers, a spec.Access) (interface{}, error) {
	addr := uint16(a.Addr)
	o := packet.ByteOrder(a.Order)
	switch a.Kind {
	case "Bit":
		return regs.Bit(addr, uint8(a.Bit))
	case "Byte":
		return regs.Byte(addr, a.High)
	case "Uint8":
		return regs.Uint8(addr, a.High)
	case "Int8":
		return regs.Int8(addr, a.High)
	case "Uint16":
		return regs.Uint16(addr)
	case "Int16":
		return regs.Int16(addr)
	case "Uint32":
		return regs.Uint32(addr)
	case "Uint32WithByteOrder":
		return regs.Uint32WithByteOrder(addr, o)
	case "Int32":
		return regs.Int32(addr)
	case "Int32WithByteOrder":
		return regs.Int32WithByteOrder(addr, o)
	case "Float32":
		return regs.Float32(addr)
	case "Float32WithByteOrder":
		return regs.Float32WithByteOrder(addr, o)
	case "Uint64":
		return regs.Uint64(addr)
	case "Uint64WithByteOrder":
		return regs.Uint64WithByteOrder(addr, o)
	case "Int64":
		return regs.Int64(addr)
	case "Int64WithByteOrder":
		return regs.Int64WithByteOrder(addr, o)
	case "Float64":
		return regs.Float64(addr)
	case "Float64WithByteOrder":
		return regs.Float64WithByteOrder(addr, o)
	case "String":
		return regs.String(addr, uint8(a.Length))
	case "StringWithByteOrder":
		return regs.StringWithByteOrder(addr, uint8(a.Length), o)
	case "Register":
		return regs.Register(addr)
	case "DoubleRegister":
		return regs.DoubleRegister(addr, o)
	case "QuadRegister":
		return regs.QuadRegister(addr, o)
	}
	panic(fmt.Sprintf("cat: unknown access kind %q", a.Kind))
}

// IsZeroValue reports whether v is the zero value of its type (or nil).
func IsZeroValue(v interface{}) bool {
	switch x := v.(type) {
	case nil:
		return true
	case bool:
		return !x
	case uint8:
		return x == 0
	case int8:
		return x == 0
	case uint16:
		return x == 0
	case int16:
		return x == 0
	case uint32:
		return x == 0
	case int32:
		return x == 0
	case uint64:
		return x == 0
	case int64:
		return x == 0
	case float32:
		return x == 0
	case float64:
		return x == 0
	case string:
		return x == ""
	case []byte:
		return x == nil
	}
	return false
}
