// Package cat is the request/response catalogue: for each of the ten functions
// and both framings it knows the library's constructor, parsers and concrete
// types, so that every check iterates the same table.
package cat

import (
	"fmt"
	"reflect"

	"github.com/aldas/go-modbus-client/packet"

	"verif/internal/spec"
)

// CoilsOf unpacks the first qty coils of a spec-packed payload.
func CoilsOf(payload []byte, qty int) []bool {
	out := make([]bool, qty)
	for i := range out {
		if i/8 < len(payload) {
			out[i] = spec.CoilAt(payload, i)
		}
	}
	return out
}

// NewRequest builds the library request for r through the public constructors.
// For TCP the transaction id is set through the exported field.
// Constructor arguments are derived from r as a user would pass them:
// fc15 gets the coil slice of length r.Qty, fc16/23 get the payload bytes.
func NewRequest(f spec.Framing, r spec.Req) (packet.Request, error) {
	if f == spec.TCP {
		switch r.FC {
		case 1:
			q, err := packet.NewReadCoilsRequestTCP(r.Unit, r.Addr, r.Qty)
			if err != nil {
				return alongside(q), err
			}
			q.TransactionID = r.Tx
			return q, nil
		case 2:
			q, err := packet.NewReadDiscreteInputsRequestTCP(r.Unit, r.Addr, r.Qty)
			if err != nil {
				return alongside(q), err
			}
			q.TransactionID = r.Tx
			return q, nil
		case 3:
			q, err := packet.NewReadHoldingRegistersRequestTCP(r.Unit, r.Addr, r.Qty)
			if err != nil {
				return alongside(q), err
			}
			q.TransactionID = r.Tx
			return q, nil
		case 4:
			q, err := packet.NewReadInputRegistersRequestTCP(r.Unit, r.Addr, r.Qty)
			if err != nil {
				return alongside(q), err
			}
			q.TransactionID = r.Tx
			return q, nil
		case 5:
			q, err := packet.NewWriteSingleCoilRequestTCP(r.Unit, r.Addr, r.Value != 0)
			if err != nil {
				return alongside(q), err
			}
			q.TransactionID = r.Tx
			return q, nil
		case 6:
			q, err := packet.NewWriteSingleRegisterRequestTCP(r.Unit, r.Addr, []byte{byte(r.Value >> 8), byte(r.Value)})
			if err != nil {
				return alongside(q), err
			}
			q.TransactionID = r.Tx
			return q, nil
		case 15:
			q, err := packet.NewWriteMultipleCoilsRequestTCP(r.Unit, r.Addr, CoilsOf(r.Payload, int(r.Qty)))
			if err != nil {
				return alongside(q), err
			}
			q.TransactionID = r.Tx
			return q, nil
		case 16:
			q, err := packet.NewWriteMultipleRegistersRequestTCP(r.Unit, r.Addr, r.Payload)
			if err != nil {
				return alongside(q), err
			}
			q.TransactionID = r.Tx
			return q, nil
		case 17:
			q, err := packet.NewReadServerIDRequestTCP(r.Unit)
			if err != nil {
				return alongside(q), err
			}
			q.TransactionID = r.Tx
			return q, nil
		case 23:
			q, err := packet.NewReadWriteMultipleRegistersRequestTCP(r.Unit, r.Addr, r.Qty, r.WAddr, r.Payload)
			if err != nil {
				return alongside(q), err
			}
			q.TransactionID = r.Tx
			return q, nil
		}
		return nil, fmt.Errorf("cat: unsupported fc %d", r.FC)
	}
	switch r.FC {
	case 1:
		return nilIfErr(packet.NewReadCoilsRequestRTU(r.Unit, r.Addr, r.Qty))
	case 2:
		return nilIfErr(packet.NewReadDiscreteInputsRequestRTU(r.Unit, r.Addr, r.Qty))
	case 3:
		return nilIfErr(packet.NewReadHoldingRegistersRequestRTU(r.Unit, r.Addr, r.Qty))
	case 4:
		return nilIfErr(packet.NewReadInputRegistersRequestRTU(r.Unit, r.Addr, r.Qty))
	case 5:
		return nilIfErr(packet.NewWriteSingleCoilRequestRTU(r.Unit, r.Addr, r.Value != 0))
	case 6:
		return nilIfErr(packet.NewWriteSingleRegisterRequestRTU(r.Unit, r.Addr, []byte{byte(r.Value >> 8), byte(r.Value)}))
	case 15:
		return nilIfErr(packet.NewWriteMultipleCoilsRequestRTU(r.Unit, r.Addr, CoilsOf(r.Payload, int(r.Qty))))
	case 16:
		return nilIfErr(packet.NewWriteMultipleRegistersRequestRTU(r.Unit, r.Addr, r.Payload))
	case 17:
		return nilIfErr(packet.NewReadServerIDRequestRTU(r.Unit))
	case 23:
		return nilIfErr(packet.NewReadWriteMultipleRegistersRequestRTU(r.Unit, r.Addr, r.Qty, r.WAddr, r.Payload))
	}
	return nil, fmt.Errorf("cat: unsupported fc %d", r.FC)
}

// nilIfErr turns the typed nil pointer a constructor returns next to its error into a nil interface; a constructor that hands out a
// request TOGETHER with an error is passed on as it is (callers that only look at the error ignore the value, C01 judges it).
func nilIfErr[T packet.Request](v T, err error) (packet.Request, error) {
	if err != nil {
		return alongside(v), err
	}
	return v, nil
}

// alongside returns what a constructor returned next to an error: nil for a nil pointer, else the value.
func alongside(v packet.Request) packet.Request {
	if IsNilValue(v) {
		return nil
	}
	return v
}

// IsNilValue reports whether v is nil or a nil pointer inside an interface.
func IsNilValue(v interface{}) bool {
	if v == nil {
		return true
	}
	rv := reflect.ValueOf(v)
	switch rv.Kind() {
	case reflect.Ptr, reflect.Interface, reflect.Slice, reflect.Map, reflect.Func, reflect.Chan:
		return rv.IsNil()
	}
	return false
}

// Parser is one parse entry point, normalised to (interface{}, error).
type Parser struct {
	Name    string
	Framing spec.Framing
	FC      uint8 // 0 for dispatchers / helpers
	Request bool  // request parser (else response)
	CRC     bool  // verifies the CRC trailer
	Fn      func(data []byte) (interface{}, error)
}

func wrap[T any](fn func([]byte) (T, error)) func([]byte) (interface{}, error) {
	return func(d []byte) (interface{}, error) {
		v, err := fn(d)
		return v, err
	}
}

// RequestParsers returns the per-function request parser for (framing, fc).
func RequestParser(f spec.Framing, fc uint8) Parser {
	for _, p := range Parsers {
		if p.Request && p.FC == fc && p.Framing == f {
			return p
		}
	}
	panic("no request parser")
}

// ResponseParser returns the per-function response parser for (framing, fc).
func ResponseParser(f spec.Framing, fc uint8) Parser {
	for _, p := range Parsers {
		if !p.Request && p.FC == fc && p.Framing == f {
			return p
		}
	}
	panic("no response parser")
}

// Parsers lists all per-function parsers and the dispatchers.
var Parsers = []Parser{
	{"ParseReadCoilsRequestTCP", spec.TCP, 1, true, false, wrap(packet.ParseReadCoilsRequestTCP)},
	{"ParseReadDiscreteInputsRequestTCP", spec.TCP, 2, true, false, wrap(packet.ParseReadDiscreteInputsRequestTCP)},
	{"ParseReadHoldingRegistersRequestTCP", spec.TCP, 3, true, false, wrap(packet.ParseReadHoldingRegistersRequestTCP)},
	{"ParseReadInputRegistersRequestTCP", spec.TCP, 4, true, false, wrap(packet.ParseReadInputRegistersRequestTCP)},
	{"ParseWriteSingleCoilRequestTCP", spec.TCP, 5, true, false, wrap(packet.ParseWriteSingleCoilRequestTCP)},
	{"ParseWriteSingleRegisterRequestTCP", spec.TCP, 6, true, false, wrap(packet.ParseWriteSingleRegisterRequestTCP)},
	{"ParseWriteMultipleCoilsRequestTCP", spec.TCP, 15, true, false, wrap(packet.ParseWriteMultipleCoilsRequestTCP)},
	{"ParseWriteMultipleRegistersRequestTCP", spec.TCP, 16, true, false, wrap(packet.ParseWriteMultipleRegistersRequestTCP)},
	{"ParseReadServerIDRequestTCP", spec.TCP, 17, true, false, wrap(packet.ParseReadServerIDRequestTCP)},
	{"ParseReadWriteMultipleRegistersRequestTCP", spec.TCP, 23, true, false, wrap(packet.ParseReadWriteMultipleRegistersRequestTCP)},

	{"ParseReadCoilsRequestRTU", spec.RTU, 1, true, false, wrap(packet.ParseReadCoilsRequestRTU)},
	{"ParseReadDiscreteInputsRequestRTU", spec.RTU, 2, true, false, wrap(packet.ParseReadDiscreteInputsRequestRTU)},
	{"ParseReadHoldingRegistersRequestRTU", spec.RTU, 3, true, false, wrap(packet.ParseReadHoldingRegistersRequestRTU)},
	{"ParseReadInputRegistersRequestRTU", spec.RTU, 4, true, false, wrap(packet.ParseReadInputRegistersRequestRTU)},
	{"ParseWriteSingleCoilRequestRTU", spec.RTU, 5, true, false, wrap(packet.ParseWriteSingleCoilRequestRTU)},
	{"ParseWriteSingleRegisterRequestRTU", spec.RTU, 6, true, false, wrap(packet.ParseWriteSingleRegisterRequestRTU)},
	{"ParseWriteMultipleCoilsRequestRTU", spec.RTU, 15, true, false, wrap(packet.ParseWriteMultipleCoilsRequestRTU)},
	{"ParseWriteMultipleRegistersRequestRTU", spec.RTU, 16, true, false, wrap(packet.ParseWriteMultipleRegistersRequestRTU)},
	{"ParseReadServerIDRequestRTU", spec.RTU, 17, true, false, wrap(packet.ParseReadServerIDRequestRTU)},
	{"ParseReadWriteMultipleRegistersRequestRTU", spec.RTU, 23, true, false, wrap(packet.ParseReadWriteMultipleRegistersRequestRTU)},

	{"ParseReadCoilsResponseTCP", spec.TCP, 1, false, false, wrap(packet.ParseReadCoilsResponseTCP)},
	{"ParseReadDiscreteInputsResponseTCP", spec.TCP, 2, false, false, wrap(packet.ParseReadDiscreteInputsResponseTCP)},
	{"ParseReadHoldingRegistersResponseTCP", spec.TCP, 3, false, false, wrap(packet.ParseReadHoldingRegistersResponseTCP)},
	{"ParseReadInputRegistersResponseTCP", spec.TCP, 4, false, false, wrap(packet.ParseReadInputRegistersResponseTCP)},
	{"ParseWriteSingleCoilResponseTCP", spec.TCP, 5, false, false, wrap(packet.ParseWriteSingleCoilResponseTCP)},
	{"ParseWriteSingleRegisterResponseTCP", spec.TCP, 6, false, false, wrap(packet.ParseWriteSingleRegisterResponseTCP)},
	{"ParseWriteMultipleCoilsResponseTCP", spec.TCP, 15, false, false, wrap(packet.ParseWriteMultipleCoilsResponseTCP)},
	{"ParseWriteMultipleRegistersResponseTCP", spec.TCP, 16, false, false, wrap(packet.ParseWriteMultipleRegistersResponseTCP)},
	{"ParseReadServerIDResponseTCP", spec.TCP, 17, false, false, wrap(packet.ParseReadServerIDResponseTCP)},
	{"ParseReadWriteMultipleRegistersResponseTCP", spec.TCP, 23, false, false, wrap(packet.ParseReadWriteMultipleRegistersResponseTCP)},

	{"ParseReadCoilsResponseRTU", spec.RTU, 1, false, false, wrap(packet.ParseReadCoilsResponseRTU)},
	{"ParseReadDiscreteInputsResponseRTU", spec.RTU, 2, false, false, wrap(packet.ParseReadDiscreteInputsResponseRTU)},
	{"ParseReadHoldingRegistersResponseRTU", spec.RTU, 3, false, false, wrap(packet.ParseReadHoldingRegistersResponseRTU)},
	{"ParseReadInputRegistersResponseRTU", spec.RTU, 4, false, false, wrap(packet.ParseReadInputRegistersResponseRTU)},
	{"ParseWriteSingleCoilResponseRTU", spec.RTU, 5, false, false, wrap(packet.ParseWriteSingleCoilResponseRTU)},
	{"ParseWriteSingleRegisterResponseRTU", spec.RTU, 6, false, false, wrap(packet.ParseWriteSingleRegisterResponseRTU)},
	{"ParseWriteMultipleCoilsResponseRTU", spec.RTU, 15, false, false, wrap(packet.ParseWriteMultipleCoilsResponseRTU)},
	{"ParseWriteMultipleRegistersResponseRTU", spec.RTU, 16, false, false, wrap(packet.ParseWriteMultipleRegistersResponseRTU)},
	{"ParseReadServerIDResponseRTU", spec.RTU, 17, false, false, wrap(packet.ParseReadServerIDResponseRTU)},
	{"ParseReadWriteMultipleRegistersResponseRTU", spec.RTU, 23, false, false, wrap(packet.ParseReadWriteMultipleRegistersResponseRTU)},

	{"ParseTCPRequest", spec.TCP, 0, true, false, wrap(packet.ParseTCPRequest)},
	{"ParseRTURequest", spec.RTU, 0, true, false, wrap(packet.ParseRTURequest)},
	{"ParseRTURequestWithCRC", spec.RTU, 0, true, true, wrap(packet.ParseRTURequestWithCRC)},
	{"ParseTCPResponse", spec.TCP, 0, false, false, wrap(packet.ParseTCPResponse)},
	{"ParseRTUResponse", spec.RTU, 0, false, false, wrap(packet.ParseRTUResponse)},
	{"ParseRTUResponseWithCRC", spec.RTU, 0, false, true, wrap(packet.ParseRTUResponseWithCRC)},
}

// Dispatchers returns the dispatchers for framing / direction.
func Dispatchers(f spec.Framing, request bool) []Parser {
	var out []Parser
	for _, p := range Parsers {
		if p.FC == 0 && p.Framing == f && p.Request == request {
			out = append(out, p)
		}
	}
	return out
}

// TypeName returns the concrete type name the library uses for (framing, fc, request?).
func TypeName(f spec.Framing, fc uint8, request bool) string {
	base := map[uint8]string{1: "ReadCoils", 2: "ReadDiscreteInputs", 3: "ReadHoldingRegisters", 4: "ReadInputRegisters",
		5: "WriteSingleCoil", 6: "WriteSingleRegister", 15: "WriteMultipleCoils", 16: "WriteMultipleRegisters",
		17: "ReadServerID", 23: "ReadWriteMultipleRegisters"}[fc]
	k := "Response"
	if request {
		k = "Request"
	}
	fr := "TCP"
	if f == spec.RTU {
		fr = "RTU"
	}
	return "*packet." + base + k + fr
}

// GoType returns fmt's %T of v.
func GoType(v interface{}) string { return fmt.Sprintf("%T", v) }

// NewWriteCoilsRequest builds a Write Multiple Coils request from the caller's own coil slice (NewRequest derives a fresh slice from the
// packed payload): checks use it to hand the constructors a sub-slice of a longer pattern, as a program writing a long pattern in chunks does.
func NewWriteCoilsRequest(f spec.Framing, unit uint8, tx uint16, addr uint16, coils []bool) (packet.Request, error) {
	if f == spec.TCP {
		q, err := packet.NewWriteMultipleCoilsRequestTCP(unit, addr, coils)
		if err != nil {
			return nil, err
		}
		q.TransactionID = tx
		return q, nil
	}
	return nilIfErr(packet.NewWriteMultipleCoilsRequestRTU(unit, addr, coils))
}

// SetProtocolID writes v into the exported MBAPHeader.ProtocolID field of a TCP request object (what a caller that fills or copies
// header fields by hand may leave there); it reports whether the field was found.
func SetProtocolID(q packet.Request, v uint16) bool {
	rv := reflect.ValueOf(q)
	if rv.Kind() != reflect.Ptr || rv.IsNil() {
		return false
	}
	f := rv.Elem().FieldByName("MBAPHeader")
	if !f.IsValid() {
		return false
	}
	pf := f.FieldByName("ProtocolID")
	if !pf.IsValid() || !pf.CanSet() {
		return false
	}
	pf.SetUint(uint64(v))
	return true
}
