package harness

import (
	"bytes"
	"encoding/json"
	"fmt"
	"os"
	"os/exec"
	"strings"
	"time"
)

// FreshCase is a case of another check of the same package, to be run as the FIRST thing a new process does: whatever the library
// sets up lazily (tables, pools, once-guards, memos) has not been set up by anything else - no earlier case, no other check.
type FreshCase struct {
	Check string          `json:"check"`
	Case  json.RawMessage `json:"case"`
}

const freshEnv = "VERIF_FRESH_PROCESS"

// Fresh wraps a case of check c.
func Fresh[C any](c *Check[C], v C) FreshCase {
	raw, err := json.Marshal(v)
	if err != nil {
		panic(err)
	}
	return FreshCase{Check: c.Name, Case: raw}
}

// RunFresh starts the test binary again; its Main finds the request in the environment, runs the one case before anything else and
// reports the verdict on standard output.
func RunFresh(fc FreshCase) Result {
	req, err := json.Marshal(fc)
	if err != nil {
		return Fail("harness: %v", err)
	}
	cmd := exec.Command(os.Args[0])
	cmd.Env = append(os.Environ(), freshEnv+"=1")
	cmd.Stdin = bytes.NewReader(req)
	var out bytes.Buffer
	cmd.Stdout, cmd.Stderr = &out, &out
	if err := cmd.Start(); err != nil {
		return Result{Labels: []string{"harness:cannot-start-a-process"}}
	}
	done := make(chan error, 1)
	go func() { done <- cmd.Wait() }()
	select {
	case <-done:
	case <-time.After(120 * time.Second):
		_ = cmd.Process.Kill()
		<-done
		return Fail("check %s, case %s, run as the first thing a new process does: no verdict within 120 s", fc.Check, fc.Case)
	}
	for _, line := range strings.Split(out.String(), "\n") {
		if rest, ok := strings.CutPrefix(line, "FRESH-RESULT "); ok {
			var r struct {
				Err        string   `json:"err"`
				NonTrivial bool     `json:"non_trivial"`
				Labels     []string `json:"labels"`
			}
			if err := json.Unmarshal([]byte(rest), &r); err != nil {
				return Fail("harness: fresh process verdict unreadable: %v", err)
			}
			res := Result{NonTrivial: r.NonTrivial, Labels: append(r.Labels, "fresh-process:"+fc.Check)}
			if r.Err != "" {
				res.Err = fmt.Errorf("as the first thing a new process does: %s", r.Err)
				res.NonTrivial = true
			}
			return res
		}
	}
	tail := out.String()
	if len(tail) > 1500 {
		tail = tail[len(tail)-1500:]
	}
	return Fail("check %s, case %s, run as the first thing a new process does: the process ended without a verdict:\n%s", fc.Check, fc.Case, tail)
}

// freshChild is called by Main: in a process started by RunFresh it runs the requested case and exits.
func freshChild() {
	if os.Getenv(freshEnv) == "" {
		return
	}
	var fc FreshCase
	if err := json.NewDecoder(os.Stdin).Decode(&fc); err != nil {
		fmt.Println("harness: fresh process: cannot read the request:", err)
		os.Exit(2)
	}
	run, ok := registry[fc.Check]
	if !ok {
		fmt.Println("harness: fresh process: unknown check", fc.Check)
		os.Exit(2)
	}
	res, err := run(fc.Case)
	if err != nil {
		fmt.Println("harness: fresh process: cannot decode the case:", err)
		os.Exit(2)
	}
	v := struct {
		Err        string   `json:"err"`
		NonTrivial bool     `json:"non_trivial"`
		Labels     []string `json:"labels"`
	}{NonTrivial: res.NonTrivial, Labels: res.Labels}
	if res.Err != nil {
		v.Err = res.Err.Error()
	}
	b, _ := json.Marshal(v)
	fmt.Println("FRESH-RESULT " + string(b))
	os.Exit(0)
}
