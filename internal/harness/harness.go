// Package harness is the in-process half of the verification driver: it runs
// rapid properties and deterministic sweeps over "cases" (JSON-serialisable
// values), records what was covered, writes replay files for violations and
// consults the known-findings file.
//
// Environment (set by check.py):
//
//	VERIF_ROOT   /verif
//	VERIF_ID     property id (C01..)
//	VERIF_TIER   quick|thorough
//	VERIF_SEED   integer seed
//	VERIF_SHARD  i   VERIF_SHARDS n
//	VERIF_WORK   directory for shard output
//	VERIF_REPLAY path of a replay file (TestReplay only)
package harness

import (
	"bytes"
	"encoding/binary"
	"encoding/json"
	"flag"
	"fmt"
	"hash/fnv"
	"os"
	"path/filepath"
	"runtime/debug"
	"sort"
	"strconv"
	"strings"
	"sync"
	"testing"
	"time"

	"pgregory.net/rapid"
)

// Result is the verdict of one case.
type Result struct {
	Err        error    // non-nil: the property is violated on this case
	NonTrivial bool     // the case is non-trivial by the check's stated rule
	Labels     []string // generator classes the case falls into
	Excluded   string   // non-empty: key of the open known finding this case falls under (not judged)
	Weight     int64    // number of elementary oracle evaluations this case stands for (0 = 1)
}

// Fail builds a violating result.
func Fail(format string, args ...interface{}) Result {
	return Result{Err: fmt.Errorf(format, args...), NonTrivial: true}
}

func env(k, def string) string {
	if v := os.Getenv(k); v != "" {
		return v
	}
	return def
}

func envInt(k string, def int) int {
	if v := os.Getenv(k); v != "" {
		n, err := strconv.Atoi(v)
		if err == nil {
			return n
		}
	}
	return def
}

// Root is /verif.
func Root() string { return env("VERIF_ROOT", "/verif") }

// ID is the property id being checked.
func ID() string { return env("VERIF_ID", "CXX") }

// Tier is quick or thorough.
func Tier() string { return env("VERIF_TIER", "quick") }

// Thorough reports whether the thorough tier runs.
func Thorough() bool { return Tier() == "thorough" }

// Pick returns q in the quick tier, th in the thorough tier.
func Pick(q, th int) int {
	if Thorough() {
		return th
	}
	return q
}

// Seed is VERIF_SEED.
func Seed() uint64 {
	v, err := strconv.ParseUint(env("VERIF_SEED", "1"), 10, 64)
	if err != nil {
		// negative or odd values: hash the text
		h := fnv.New64a()
		h.Write([]byte(os.Getenv("VERIF_SEED")))
		return h.Sum64()
	}
	return v
}

// Shard returns (index, count).
func Shard() (int, int) {
	n := envInt("VERIF_SHARDS", 1)
	if n < 1 {
		n = 1
	}
	i := envInt("VERIF_SHARD", 0)
	if i < 0 || i >= n {
		i = 0
	}
	return i, n
}

// Range splits [0,total) over the shards and returns this shard's [lo,hi).
func Range(total int) (int, int) {
	i, n := Shard()
	lo := total * i / n
	hi := total * (i + 1) / n
	return lo, hi
}

// Mine reports whether item idx of an enumeration belongs to this shard (round robin).
func Mine(idx int) bool {
	i, n := Shard()
	return idx%n == i
}

// SplitMix64 is the deterministic expander used for payloads, memory images etc.
func SplitMix64(x *uint64) uint64 {
	*x += 0x9E3779B97F4A7C15
	z := *x
	z = (z ^ (z >> 30)) * 0xBF58476D1CE4E5B9
	z = (z ^ (z >> 27)) * 0x94D049BB133111EB
	return z ^ (z >> 31)
}

// Bytes expands seed into n pseudo random bytes (pure function).
func Bytes(seed uint64, n int) []byte {
	out := make([]byte, n)
	s := seed
	for i := 0; i < n; i += 8 {
		v := SplitMix64(&s)
		var tmp [8]byte
		binary.LittleEndian.PutUint64(tmp[:], v)
		copy(out[i:], tmp[:])
	}
	return out
}

func rapidSeed(name string) uint64 {
	i, _ := Shard()
	h := fnv.New64a()
	fmt.Fprintf(h, "%d/%d/%s/%s", Seed(), i, ID(), name)
	s := h.Sum64()
	if s == 0 {
		s = 1
	}
	return s
}

// ---------------------------------------------------------------------------
// recording

type checkStats struct {
	Name        string            `json:"name"`
	Evaluations int64             `json:"evaluations"`
	NonTrivial  int64             `json:"nontrivial"`
	Requested   int64             `json:"requested"`
	Completed   int64             `json:"completed"`
	Excluded    map[string]int64  `json:"excluded,omitempty"`
	Labels      map[string]int64  `json:"labels,omitempty"`
	Samples     []json.RawMessage `json:"samples,omitempty"`
	Exhaustive  []Subspace        `json:"exhaustive,omitempty"`
	// EnumDistinct counts non-trivial cases of enumerations that are distinct by construction (not hashed).
	EnumDistinct int64 `json:"enum_distinct"`
	hashes       map[uint64]struct{}
}

// Subspace names a sub-space that was enumerated completely.
type Subspace struct {
	Name string `json:"name"`
	Size int64  `json:"size"`
}

var (
	mu       sync.Mutex
	stats    = map[string]*checkStats{}
	failures []string
	known    []string
	notes    []string
	started  = time.Now()
)

func st(name string) *checkStats {
	s := stats[name]
	if s == nil {
		s = &checkStats{Name: name, Excluded: map[string]int64{}, Labels: map[string]int64{}, hashes: map[uint64]struct{}{}}
		stats[name] = s
	}
	return s
}

func hashOf(raw []byte) uint64 {
	h := fnv.New64a()
	h.Write(raw)
	return h.Sum64()
}

var sampleAt = map[int64]bool{1: true, 7: true, 50: true, 400: true, 3000: true, 20000: true}

func record(name string, raw []byte, r Result) {
	mu.Lock()
	defer mu.Unlock()
	s := st(name)
	w := r.Weight
	if w < 1 {
		w = 1
	}
	s.Evaluations += w
	for _, l := range r.Labels {
		s.Labels[l]++
	}
	if r.Excluded != "" {
		s.Excluded[r.Excluded]++
	}
	if r.NonTrivial {
		s.NonTrivial++
		if raw != nil {
			h := hashOf(raw)
			if _, ok := s.hashes[h]; !ok {
				s.hashes[h] = struct{}{}
				if sampleAt[int64(len(s.hashes))] && len(raw) < 4000 {
					s.Samples = append(s.Samples, append(json.RawMessage(nil), raw...))
				}
			}
		} else {
			s.EnumDistinct += w
		}
	}
}

// Note adds a free text note to the shard output (assumptions etc).
func Note(format string, args ...interface{}) {
	mu.Lock()
	defer mu.Unlock()
	notes = append(notes, fmt.Sprintf(format, args...))
}

// Exhaustive records that a finite sub-space was enumerated completely by this run
// (all shards together). Only shard 0 reports it.
func Exhaustive(check, name string, size int64) {
	if i, _ := Shard(); i != 0 {
		return
	}
	mu.Lock()
	defer mu.Unlock()
	s := st(check)
	s.Exhaustive = append(s.Exhaustive, Subspace{Name: name, Size: size})
}

// ---------------------------------------------------------------------------
// checks

// Check couples a case type with its generator and its oracle.
type Check[C any] struct {
	Name string
	Gen  func(t *rapid.T) C
	Run  func(c C) Result
	// Repeat > 1: every generated or explicitly evaluated case (not the EvalFast enumerations) is executed this many times; the
	// property must hold in every execution (the code under test may depend on map iteration order, pooled buffers, scheduling
	// or a random source, so one passing execution of an input says little). Replays execute the case 16 times as often.
	Repeat int
}

// Repeated sets Repeat and returns the check.
func (c *Check[C]) Repeated(n int) *Check[C] {
	c.Repeat = n
	return c
}

type replayer func(raw json.RawMessage) (Result, error)

var registry = map[string]replayer{}

// Define registers a check so that replay/regression files can find it.
func Define[C any](name string, gen func(t *rapid.T) C, run func(c C) Result) *Check[C] {
	c := &Check[C]{Name: name, Gen: gen, Run: run}
	registry[name] = func(raw json.RawMessage) (Result, error) {
		var v C
		if err := json.Unmarshal(raw, &v); err != nil {
			return Result{}, err
		}
		return c.runTimes(v, 16*c.Repeat), nil
	}
	return c
}

// runTimes executes the case up to n times and returns the first failing result (else the first result).
func (c *Check[C]) runTimes(v C, n int) Result {
	first := c.safeRun(v)
	if first.Err != nil {
		return first
	}
	for i := 1; i < n; i++ {
		if r := c.safeRun(v); r.Err != nil {
			r.Err = fmt.Errorf("execution %d of the same case (the first %d held): %w", i+1, i, r.Err)
			return r
		}
	}
	return first
}

func (c *Check[C]) safeRun(v C) (res Result) {
	defer func() {
		if p := recover(); p != nil {
			res = Result{Err: fmt.Errorf("harness: panic escaped the oracle: %v\n%s", p, debug.Stack()), NonTrivial: true}
		}
	}()
	return c.Run(v)
}

// ReplayFile is the on-disk format of replay and regression cases.
type ReplayFile struct {
	Property string          `json:"property"`
	Check    string          `json:"check"`
	Tier     string          `json:"tier"`
	Seed     uint64          `json:"seed"`
	Case     json.RawMessage `json:"case"`
	Observed string          `json:"observed"`
}

func writeReplay(test, check string, raw []byte, observed string) string {
	dir := filepath.Join(Root(), "replays", ID())
	_ = os.MkdirAll(dir, 0o755)
	i, _ := Shard()
	path := filepath.Join(dir, fmt.Sprintf("%s-%s-%s-s%d-sh%d.json", check, strings.ReplaceAll(test, "/", "_"), Tier(), Seed(), i))
	rf := ReplayFile{Property: ID(), Check: check, Tier: Tier(), Seed: Seed(), Case: raw, Observed: observed}
	b, _ := json.MarshalIndent(rf, "", " ")
	_ = os.WriteFile(path, b, 0o644)
	return path
}

func noteFailure(path string) {
	mu.Lock()
	defer mu.Unlock()
	for _, f := range failures {
		if f == path {
			return
		}
	}
	failures = append(failures, path)
}

// Eval runs the oracle on one explicit case (sweeps, regressions), records it and
// reports a violation on t. It returns false if the case violated the property.
func (c *Check[C]) Eval(t testing.TB, v C) bool {
	raw, _ := json.Marshal(v)
	journal(c.Name, raw)
	r := c.runTimes(v, c.Repeat)
	record(c.Name, raw, r)
	if r.Err != nil {
		p := writeReplay(t.Name(), c.Name, raw, r.Err.Error())
		noteFailure(p)
		t.Errorf("VIOLATION-FILE %s\ncheck %s: %v\ncase: %s", p, c.Name, r.Err, trunc(raw))
		return false
	}
	return true
}

// EvalFast is Eval for huge enumerations: the case is not serialised unless it
// fails; distinctness is by construction of the enumeration.
func (c *Check[C]) EvalFast(t testing.TB, v C) bool {
	r := c.safeRun(v)
	record(c.Name, nil, r)
	if r.Err != nil {
		raw, _ := json.Marshal(v)
		p := writeReplay(t.Name(), c.Name, raw, r.Err.Error())
		noteFailure(p)
		t.Errorf("VIOLATION-FILE %s\ncheck %s: %v\ncase: %s", p, c.Name, r.Err, trunc(raw))
		return false
	}
	return true
}

func trunc(b []byte) string {
	if len(b) > 1500 {
		return string(b[:1500]) + "…"
	}
	return string(b)
}

// Rapid runs n generated cases through the oracle (n is per shard).
func (c *Check[C]) Rapid(t *testing.T, n int) {
	t.Helper()
	if n <= 0 {
		return
	}
	_ = flag.Set("rapid.checks", strconv.Itoa(n))
	_ = flag.Set("rapid.seed", strconv.FormatUint(rapidSeed(c.Name), 10))
	_ = flag.Set("rapid.nofailfile", "true")
	_ = flag.Set("rapid.shrinktime", env("VERIF_SHRINKTIME", "20s"))
	mu.Lock()
	s := st(c.Name)
	s.Requested += int64(n)
	mu.Unlock()
	failed := false
	var failedAt time.Time
	var lastFail []byte
	var lastMsg string
	budget, err := time.ParseDuration(env("VERIF_SHRINK_BUDGET", "60s"))
	if err != nil {
		budget = time.Minute
	}
	rapid.Check(t, func(rt *rapid.T) {
		v := c.Gen(rt)
		raw, _ := json.Marshal(v)
		if failed && bytes.Equal(raw, lastFail) {
			// the shrinker often arrives at the same case by another route: the verdict is known
			rt.Fatalf("%s", lastMsg)
		}
		if failed && time.Since(failedAt) > budget {
			// shrinking has had its time (a failing execution can take many seconds when the failure is a reply that never comes, and
			// rapid only looks at its own limit between passes): every further candidate counts as "does not fail", which ends the
			// search at the smallest failing case found so far
			return
		}
		journal(c.Name, raw)
		r := c.runTimes(v, c.Repeat)
		if !failed {
			record(c.Name, raw, r)
		}
		if r.Err != nil {
			if !failed {
				failedAt = time.Now()
			}
			lastFail = raw
			failed = true // from here on rapid is shrinking: do not count
			p := writeReplay(t.Name(), c.Name, raw, r.Err.Error())
			noteFailure(p)
			lastMsg = fmt.Sprintf("VIOLATION-FILE %s\ncheck %s: %v\ncase: %s", p, c.Name, r.Err, trunc(raw))
			rt.Fatalf("%s", lastMsg)
		}
		if !failed {
			mu.Lock()
			s.Completed++
			mu.Unlock()
		}
	})
}

// ---------------------------------------------------------------------------
// journal (for checks where the code under test may kill the process)

var journalOn bool

// EnableJournal makes every case be written to disk before it is executed.
func EnableJournal() { journalOn = true }

func journal(name string, raw []byte) {
	if !journalOn {
		return
	}
	dir := env("VERIF_WORK", filepath.Join(Root(), ".work"))
	i, _ := Shard()
	path := filepath.Join(dir, fmt.Sprintf("%s.%d.journal", ID(), i))
	rf := ReplayFile{Property: ID(), Check: name, Tier: Tier(), Seed: Seed(), Case: raw, Observed: "process died while executing this case"}
	b, _ := json.Marshal(rf)
	_ = os.WriteFile(path, b, 0o644)
}

// ---------------------------------------------------------------------------
// known findings

// Finding is one line of known-findings.txt.
type Finding struct {
	Open     bool
	Property string
	Key      string
	Params   map[string]string
	Text     string
	Commit   string
}

var (
	kfOnce sync.Once
	kfAll  []Finding
)

// Findings returns all lines of the known-findings file.
func Findings() []Finding {
	kfOnce.Do(func() {
		path := env("VERIF_KF", filepath.Join(Root(), "known-findings.txt"))
		b, err := os.ReadFile(path)
		if err != nil {
			return
		}
		for _, line := range strings.Split(string(b), "\n") {
			line = strings.TrimSpace(line)
			if line == "" || strings.HasPrefix(line, "#") {
				continue
			}
			var f Finding
			switch {
			case strings.HasPrefix(line, "finding:"):
				f.Open = true
				line = strings.TrimSpace(strings.TrimPrefix(line, "finding:"))
			case strings.HasPrefix(line, "fixed:"):
				line = strings.TrimSpace(strings.TrimPrefix(line, "fixed:"))
			default:
				continue
			}
			f.Params = map[string]string{}
			toks := strings.Fields(line)
			k := 0
			for ; k < len(toks); k++ {
				kv := strings.SplitN(toks[k], "=", 2)
				if len(kv) != 2 {
					break
				}
				switch kv[0] {
				case "property":
					f.Property = kv[1]
				case "key":
					f.Key = kv[1]
				default:
					f.Params[kv[0]] = kv[1]
				}
			}
			if !f.Open && k < len(toks) {
				f.Commit = toks[k]
				k++
			}
			f.Text = strings.Join(toks[k:], " ")
			kfAll = append(kfAll, f)
		}
	})
	return kfAll
}

// OpenFinding reports whether an open finding with the key exists for the current property.
func OpenFinding(key string) bool {
	for _, f := range Findings() {
		if f.Open && f.Property == ID() && f.Key == key {
			return true
		}
	}
	return false
}

// OpenFindings returns the open findings with the key for the current property.
func OpenFindings(key string) []Finding {
	var out []Finding
	for _, f := range Findings() {
		if f.Open && f.Property == ID() && f.Key == key {
			out = append(out, f)
		}
	}
	return out
}

// Probe runs the witness of every open finding with this key; if it still
// fails in the listed way a KNOWN-FINDING line is emitted (once, by shard 0).
func Probe(t *testing.T, key string, stillFails func(f Finding) (bool, string)) {
	if i, _ := Shard(); i != 0 {
		return
	}
	for _, f := range OpenFindings(key) {
		ok, detail := stillFails(f)
		if ok {
			line := fmt.Sprintf("KNOWN-FINDING: property=%s key=%s %s", ID(), key, f.Text)
			if detail != "" {
				line += " [" + detail + "]"
			}
			mu.Lock()
			known = append(known, line)
			mu.Unlock()
			fmt.Println(line)
		}
	}
}

// ---------------------------------------------------------------------------
// shard output + TestMain

type shardOut struct {
	Property string        `json:"property"`
	Tier     string        `json:"tier"`
	Seed     uint64        `json:"seed"`
	Shard    int           `json:"shard"`
	Shards   int           `json:"shards"`
	WallS    float64       `json:"wall_s"`
	Checks   []*checkStats `json:"checks"`
	Failures []string      `json:"failures"`
	Known    []string      `json:"known"`
	Notes    []string      `json:"notes"`
	ExitCode int           `json:"exit_code"`
}

// Main is called from each package's TestMain.
func Main(m *testing.M) {
	freshChild()
	code := m.Run()
	flush(code)
	os.Exit(code)
}

func flush(code int) {
	dir := env("VERIF_WORK", "")
	if dir == "" {
		return
	}
	_ = os.MkdirAll(dir, 0o755)
	i, n := Shard()
	out := shardOut{Property: ID(), Tier: Tier(), Seed: Seed(), Shard: i, Shards: n, WallS: time.Since(started).Seconds(), Failures: failures, Known: known, Notes: notes, ExitCode: code}
	names := make([]string, 0, len(stats))
	for k := range stats {
		names = append(names, k)
	}
	sort.Strings(names)
	for _, k := range names {
		s := stats[k]
		out.Checks = append(out.Checks, s)
		// hashes -> binary file
		hs := make([]uint64, 0, len(s.hashes))
		for h := range s.hashes {
			hs = append(hs, h)
		}
		sort.Slice(hs, func(a, b int) bool { return hs[a] < hs[b] })
		buf := make([]byte, 8*len(hs))
		for j, h := range hs {
			binary.LittleEndian.PutUint64(buf[8*j:], h)
		}
		_ = os.WriteFile(filepath.Join(dir, fmt.Sprintf("%s.%d.%s.hashes", ID(), i, k)), buf, 0o644)
	}
	b, err := json.Marshal(out)
	if err != nil {
		fmt.Println("harness: cannot serialise shard result:", err)
		return
	}
	_ = os.WriteFile(filepath.Join(dir, fmt.Sprintf("%s.%d.json", ID(), i)), b, 0o644)
}

// ---------------------------------------------------------------------------
// replay / regression entry points used by every check package

// RunReplay executes the file named by VERIF_REPLAY.
func RunReplay(t *testing.T) {
	path := os.Getenv("VERIF_REPLAY")
	if path == "" {
		t.Skip("VERIF_REPLAY not set")
	}
	replayOne(t, path, true)
}

func replayOne(t *testing.T, path string, verbose bool) {
	b, err := os.ReadFile(path)
	if err != nil {
		t.Fatalf("cannot read %s: %v", path, err)
	}
	var rf ReplayFile
	if err := json.Unmarshal(b, &rf); err != nil {
		t.Fatalf("cannot parse %s: %v", path, err)
	}
	fn := registry[rf.Check]
	if fn == nil {
		t.Fatalf("%s: unknown check %q", path, rf.Check)
	}
	r, err := fn(rf.Case)
	if err != nil {
		t.Fatalf("%s: cannot decode case: %v", path, err)
	}
	record("regress", rf.Case, Result{NonTrivial: true, Labels: []string{"regress:" + rf.Check}})
	if r.Err != nil {
		noteFailure(path)
		t.Errorf("VIOLATION-FILE %s\ncheck %s: %v", path, rf.Check, r.Err)
	} else if verbose {
		excl := ""
		if r.Excluded != "" {
			excl = " (falls under open known finding " + r.Excluded + ")"
		}
		fmt.Printf("replay %s: property holds on this case%s\n", path, excl)
	}
}

// RunRegress replays every committed regression file of the property (shard 0 only).
func RunRegress(t *testing.T) {
	if i, _ := Shard(); i != 0 {
		return
	}
	files, _ := filepath.Glob(filepath.Join(Root(), "regress", ID(), "*.json"))
	sort.Strings(files)
	for _, f := range files {
		replayOne(t, f, false)
	}
}
