package hostile

import "testing"

func TestCollidingTexts(t *testing.T) {
	p := CollidingTexts()
	if len(p) < 5 {
		t.Fatalf("only %d pairs: %v", len(p), p)
	}
	t.Log(p)
}
