// Package hostile builds inputs that sit on coincidences a random generator practically never produces: values that equal the
// CRC of the bytes before them, frames that contain or begin with another valid frame, frames of one framing that are also valid
// in another, and byte patterns that other protocols or text encodings use as magic. They are constructed (by search over one
// or two free bytes / one free field) from the independent specification model, never from the library.
package hostile

import (
	"bytes"
	"fmt"
	"hash/adler32"
	"hash/crc32"
	"hash/fnv"
	"sync"

	"verif/internal/spec"
)

// TwoBytesTo returns two bytes that take the running CRC from state to target (every 16-bit target is reachable).
func TwoBytesTo(state, target uint16) (byte, byte) {
	for x := 0; x < 256; x++ {
		s1 := spec.RefStep(state, byte(x))
		for y := 0; y < 256; y++ {
			if spec.RefStep(s1, byte(y)) == target {
				return byte(x), byte(y)
			}
		}
	}
	panic("unreachable: the CRC-16 step is a bijection on the state for fixed input")
}

// SelfCRCValue: the 16-bit value (as wire bytes hi, lo of an FC06 value field) that equals the CRC, low byte first, of the four bytes
// unit, fc, addrHi, addrLo: the 6-byte unit+PDU then already "ends with its own CRC" and has CRC 0 as a whole.
func SelfCRCValue(unit, fc uint8, addr uint16) uint16 {
	c := spec.RefCRC16([]byte{unit, fc, byte(addr >> 8), byte(addr)})
	return uint16(byte(c))<<8 | uint16(c>>8) // first value byte = CRC low byte
}

// AddrForCRC searches an address such that CRC16(unit, fc, addrHi, addrLo) == want (about one hit per unit/fc).
func AddrForCRC(unit, fc uint8, want uint16) (uint16, bool) {
	for a := 0; a < 65536; a++ {
		if spec.RefCRC16([]byte{unit, fc, byte(a >> 8), byte(a)}) == want {
			return uint16(a), true
		}
	}
	return 0, false
}

// ReadRequestWithCRC searches the address of an RTU read request (fc 1..4) with the given unit and quantity whose CRC equals want
// (e.g. 0x0A0D: the frame then ends in CR LF).
func ReadRequestWithCRC(unit, fc uint8, qty uint16, want uint16) (spec.Req, bool) {
	for a := 0; a < 65536; a++ {
		r := spec.Req{FC: fc, Unit: unit, Addr: uint16(a), Qty: qty}
		f := spec.EncodeRequest(spec.RTU, r)
		if uint16(f[len(f)-2])|uint16(f[len(f)-1])<<8 == want {
			return r, true
		}
	}
	return spec.Req{}, false
}

// ResponseWithEmbeddedException builds a well-formed RTU register response (fc 3/4, n registers, n >= 3) whose last five bytes - the last
// three data bytes and the CRC - are themselves a complete, CRC-valid exception frame (unit a, function b|0x80, code c).
func ResponseWithEmbeddedException(unit, fc uint8, n int, seed uint64, a, b, c uint8) []byte {
	data := make([]byte, 2*n)
	s := seed
	for i := range data {
		s = s*6364136223846793005 + 1442695040888963407
		data[i] = byte(s >> 33)
	}
	k := len(data)
	data[k-3], data[k-2], data[k-1] = a, b|0x80, c
	// two free bytes in front of the tail bring the CRC state back to its initial value 0xFFFF, so that the CRC of the whole frame
	// equals the CRC of the three tail bytes alone
	head := append([]byte{unit, fc, byte(k)}, data[:k-5]...)
	x, y := TwoBytesTo(spec.RefCRC16(head), 0xFFFF)
	data[k-5], data[k-4] = x, y
	return spec.EncodeResponse(spec.RTU, spec.Resp{FC: fc, Unit: unit, Data: data})
}

// TCPRequestLookingLikeRTU searches TCP read/write-single requests (fc 1..6, 12 bytes) whose first eight bytes are at the same time a
// CRC-valid RTU request frame: transaction id = (rtu unit, rtu fc 1..6), protocol id 0 = rtu address 0, length 6 = rtu quantity 6,
// (tcp unit, tcp fc) = the RTU CRC. Returns all frames found for the given body (4 bytes).
func TCPRequestLookingLikeRTU(body [4]byte) [][]byte {
	var out [][]byte
	for u := 0; u < 256; u++ {
		for f := 1; f <= 6; f++ {
			h := []byte{byte(u), byte(f), 0, 0, 0, 6}
			c := spec.RefCRC16(h)
			tcpUnit, tcpFC := byte(c), byte(c>>8)
			if tcpFC >= 1 && tcpFC <= 6 {
				fr := append(append(h, tcpUnit, tcpFC), body[:]...)
				out = append(out, fr)
			}
		}
	}
	return out
}

// Tokens are byte patterns that other protocols, framings or text encodings use as magic.
var Tokens = [][]byte{
	[]byte("GET "), []byte("POST"), []byte("HEAD"), []byte("SSH-"), []byte("HTTP"), {0x16, 0x03, 0x01}, {0x16, 0x03, 0x03},
	{0xEF, 0xBB, 0xBF}, {0xFE, 0xFF}, {0xFF, 0xFE}, {0x0D, 0x0A}, []byte(":"), {0x7E}, {0x1B}, {0x00, 0x00, 0x00, 0x00}, {0xFF, 0xFF, 0xFF, 0xFF},
}

// ASCIIFrame renders bytes as a Modbus ASCII frame (':' hex digits CR LF), the third standard framing, which this library does not speak.
func ASCIIFrame(b []byte) []byte {
	out := []byte(":")
	out = append(out, []byte(fmt.Sprintf("%X", b))...)
	return append(out, '\r', '\n')
}

// TextTokens are prefixes that text decoders treat specially.
var TextTokens = [][]byte{{0xEF, 0xBB, 0xBF}, {0xFE, 0xFF}, {0xFF, 0xFE}, {0xEF, 0xBB, 0xBF, 'T'}, {0xC3, 0xA9}, {0xE2, 0x82, 0xAC}, {0xF0, 0x9F, 0x98, 0x80}, {0xC0, 0x80}, {0xFF}, {0x80}, {' ', ' '}, {0x7F}}

// PlantText writes token into payload starting at byte offset off (an even offset: the start of a register) so that it appears in
// character order either as the bytes stand on the wire (swapped=false) or after the two bytes of every register are exchanged
// (swapped=true, the order in which big-endian string reads present them).
func PlantText(payload []byte, off int, token []byte, swapped bool) {
	for i, b := range token {
		p := off + i
		if swapped {
			p = off + (i ^ 1)
		}
		if p >= 0 && p < len(payload) {
			payload[p] = b
		}
	}
}

// CollidingTexts returns pairs of different 8-character texts that collide under the cheap hash functions of the Go standard
// library (FNV-1a and FNV-1 32 bit, CRC-32 IEEE, Adler-32) plus an anagram pair (equal length, byte sum and xor): what a cache or
// "have I decoded this already" shortcut keyed by such a checksum confuses. Found by a birthday search over generated candidates
// (a few hundred thousand hashes), deterministic.
func CollidingTexts() [][2]string {
	collidingOnce.Do(func() {
		hashes := []func([]byte) uint32{
			func(b []byte) uint32 { h := fnv.New32a(); h.Write(b); return h.Sum32() },
			func(b []byte) uint32 { h := fnv.New32(); h.Write(b); return h.Sum32() },
			crc32.ChecksumIEEE,
			adler32.Checksum,
		}
		const alphabet = "ABCDEFGHIJKLMNOPQRSTUVWXYZ0123456789"
		for _, hf := range hashes {
			seen := map[uint32]string{}
			s := uint64(0x9E3779B97F4A7C15)
			for i := 0; i < 600000; i++ {
				b := make([]byte, 8)
				for k := range b {
					s = s*6364136223846793005 + 1442695040888963407
					b[k] = alphabet[(s>>33)%uint64(len(alphabet))]
				}
				h := hf(b)
				if prev, ok := seen[h]; ok && prev != string(b) {
					collidingPairs = append(collidingPairs, [2]string{prev, string(b)})
					break
				}
				seen[h] = string(b)
			}
		}
		collidingPairs = append(collidingPairs, [2]string{"SN-AB123", "SN-BA123"})
	})
	return collidingPairs
}

var (
	collidingOnce  sync.Once
	collidingPairs [][2]string
)

// The functions below only describe inputs (for the labels counted in the evidence); they take no part in any verdict.

// BodyCRCClass names the CRC-16 of an RTU frame body (frame without trailer) when it is a value an implementation might
// special-case: "0000" (the body ends with its own CRC), "ffff", or "" otherwise.
func BodyCRCClass(body []byte) string {
	switch spec.RefCRC16(body) {
	case 0x0000:
		return "0000"
	case 0xFFFF:
		return "ffff"
	}
	return ""
}

// EndsWithExceptionFrame reports whether the last five bytes of an RTU frame longer than five bytes are, taken alone, a
// CRC-consistent exception frame (unit, function|0x80, code, CRC).
func EndsWithExceptionFrame(frame []byte) bool {
	n := len(frame)
	if n < 6 || frame[n-4]&0x80 == 0 {
		return false
	}
	c := spec.RefCRC16(frame[n-5 : n-2])
	return frame[n-2] == byte(c) && frame[n-1] == byte(c>>8)
}

// StartsWithTextToken reports whether b begins with one of TextTokens, as the bytes stand or with the two bytes of every
// register exchanged.
func StartsWithTextToken(b []byte) bool {
	for _, tok := range TextTokens {
		for _, swapped := range []bool{false, true} {
			ok := len(b) >= len(tok)+len(tok)%2
			for i := 0; ok && i < len(tok); i++ {
				p := i
				if swapped {
					p = i ^ 1
				}
				ok = p < len(b) && b[p] == tok[i]
			}
			if ok {
				return true
			}
		}
	}
	return false
}

// StartsWithToken reports whether b begins with one of Tokens of at least three bytes.
func StartsWithToken(b []byte) bool {
	for _, tok := range Tokens {
		if len(tok) >= 3 && bytes.HasPrefix(b, tok) {
			return true
		}
	}
	return false
}
