// The library's go.mod says go 1.22: in a program whose main module says the same, timer channels are still buffered and Reset/Stop do
// not discard a tick that has fired (GODEBUG asynctimerchan=1). This module says go 1.23, so the check asks for the library's own setting.
//
//go:debug asynctimerchan=1
package c14

import (
	"bytes"
	"context"
	"errors"
	"fmt"
	"io"
	"net"
	"runtime"
	"strings"
	"sync"
	"sync/atomic"
	"testing"
	"time"

	modbus "github.com/aldas/go-modbus-client"
	"github.com/aldas/go-modbus-client/packet"
	"pgregory.net/rapid"

	"verif/internal/cat"
	"verif/internal/device"
	"verif/internal/harness"
	"verif/internal/spec"
	"verif/internal/xport"
)

func TestMain(m *testing.M) {
	harness.EnableJournal()
	harness.Main(m)
}

func TestReplay(t *testing.T)  { harness.RunReplay(t) }
func TestRegress(t *testing.T) { harness.RunRegress(t) }

type call struct {
	FC    uint8  `json:"fc"`
	Plan  uint64 `json:"plan"` // seed of the fragmentation / yield plan for this call's reply
	Pause int    `json:"pause"`
	// DelayUs: the transport withholds the reply for this long (the call stays in flight)
	DelayUs int `json:"delay_us,omitempty"`
	// CancelUs > 0: the call's context is cancelled this many microseconds after the call started
	// (possibly while it is still waiting for its turn); such a call may fail with the context's error
	CancelUs int `json:"cancel_us,omitempty"`
	// Exc != 0: the device answers this call's request with that exception code; the caller must get exactly that exception
	// (for its own unit / function / transaction id) and the exchange stays one write and one reply like any other
	Exc uint8 `json:"exc,omitempty"`
}

// slowDialKey: context value (a time.Duration) that makes the harness's dial function take that long, whatever happens to the context
type slowDialKey struct{}
type failDialKey struct{}

type closer struct {
	AtRequest int    `json:"at_request"`
	Op        string `json:"op"` // close | connect | close-connect | connect-cancelled (Connect whose context ends while the dial is still going on) | connect-fails (the dial fails, with a typed nil connection)
}

type concCase struct {
	Kind    string   `json:"kind"` // tcp | rtu-net | serial
	Procs   int      `json:"procs"`
	Workers [][]call `json:"workers"`
	Closers []closer `json:"closers"`
	DevSeed uint64   `json:"dev_seed"`
	// CloseDelayUs: the transport's Close takes this long (widens the window in which Close holds the client's lock)
	CloseDelayUs int `json:"close_delay_us,omitempty"`
	// FlushDelayUs (kind serial-flush): the port's Flush takes this long
	FlushDelayUs int `json:"flush_delay_us,omitempty"`
	// ReadBlockUs (serial kinds): a Read on the port blocks this long while no reply byte is readable (default 300 us)
	ReadBlockUs int `json:"read_block_us,omitempty"`
	// Hooks: logging hooks are installed whose methods touch a plain field without any lock (a logger that is not safe for
	// concurrent use); CountingParser (network kinds): the client is built with NewClient and a response parser that does the same.
	// Request calls are carried out one at a time, so neither may ever run for two calls at once (race detector).
	Hooks          bool `json:"hooks,omitempty"`
	CountingParser bool `json:"counting_parser,omitempty"`
	// ReadTimeoutMs: the client's total read timeout (0: 2 s). It bounds the time a call may spend READING its reply; the time a call
	// spends waiting for its turn behind other callers is not part of it.
	ReadTimeoutMs int `json:"read_timeout_ms,omitempty"`
	// WriteTimeoutMs (network kinds): the client's write timeout (0: 1 s). It bounds the time the WRITE of a request may take, counted
	// from the moment the call has the connection to itself; the transport refuses a write that starts after the deadline it was given.
	WriteTimeoutMs int `json:"write_timeout_ms,omitempty"`
	// CloseFirst (network kinds): Close is called on the client before it is connected for the first time
	CloseFirst bool `json:"close_first,omitempty"`
	// Age: before the goroutines start, the client makes this many ordinary request calls one after the other (a client that has been
	// in use for a long time: ticket and sequence counters have advanced, maybe wrapped)
	Age int `json:"age,omitempty"`
}

// within runs f and reports whether it returned within d (f keeps running in its goroutine otherwise).
func within(d time.Duration, f func()) bool {
	done := make(chan struct{})
	go func() { defer close(done); f() }()
	select {
	case <-done:
		return true
	case <-time.After(d):
		return false
	}
}

// racyHooks is a ClientHooks implementation that is deliberately not safe for concurrent use.
type racyHooks struct{ n int }

func (h *racyHooks) BeforeWrite(b []byte)                   { h.n += len(b) }
func (h *racyHooks) AfterEachRead(b []byte, n int, e error) { h.n += n }
func (h *racyHooks) BeforeParse(b []byte)                   { h.n += len(b) }

func framingOf(kind string) spec.Framing {
	if kind == "tcp" {
		return spec.TCP
	}
	return spec.RTU
}

// reqFor builds the attributable request of worker w, call m.
func reqFor(kind string, w, m int, c call) spec.Req {
	id := w*16 + m
	r := spec.Req{FC: c.FC, Unit: uint8(1 + w), Tx: uint16(id + 1), Addr: uint16(1000 + id*32)}
	switch c.FC {
	case 3, 4:
		r.Qty = 3
	case 1:
		r.Qty = 19
	case 6:
		r.Value = uint16(0xA000 + id)
	case 15:
		r.Qty = 11
		r.Payload, r.ByteCount = []byte{byte(id), byte(id>>8) & 7}, 2
	case 16:
		r.Qty = 2
		r.Payload, r.ByteCount = []byte{byte(id), 1, byte(id), 2}, 4
	}
	return r
}

// planFor: chunk sizes that avoid the read boundaries affected by the known expected-length findings
// (replies of fc1-4 over RTU are delivered with cuts strictly below len-1).
func planFor(kind string, seed uint64, fc uint8, replyLen int) ([]int, []int) {
	s := seed
	var chunks []int
	limit := replyLen
	if kind != "tcp" && fc >= 1 && fc <= 4 {
		limit = replyLen - 1
	}
	left := replyLen
	pos := 0
	nCuts := int(harness.SplitMix64(&s) % 4)
	for i := 0; i < nCuts && left > 1; i++ {
		k := 1 + int(harness.SplitMix64(&s)%uint64(left))
		if pos+k >= limit {
			break
		}
		chunks = append(chunks, k)
		pos += k
		left -= k
	}
	chunks = append(chunks, left)
	yields := make([]int, 0, 8)
	for i := 0; i < 8; i++ {
		yields = append(yields, int(harness.SplitMix64(&s)%4))
	}
	return chunks, yields
}

type callResult struct {
	resp packet.Response
	err  error
	p    interface{}
}

func runConc(c concCase) harness.Result {
	if c.Procs > 0 {
		old := runtime.GOMAXPROCS(c.Procs)
		defer runtime.GOMAXPROCS(old)
	}
	f := framingOf(c.Kind)
	mon := &xport.Monitor{F: f, Dev: device.New(c.DevSeed), Serial: isSerial(c.Kind), CloseDelay: time.Duration(c.CloseDelayUs) * time.Microsecond}
	// per-request plan: looked up by arrival index -> we do not know which call arrives n-th, so derive from the request itself
	plans := map[uint16]call{}
	for w, calls := range c.Workers {
		for m, cl := range calls {
			plans[uint16(1000+(w*16+m)*32)] = cl
		}
	}
	var monRef = mon
	mon.Plan = func(n int, replyLen int) ([]int, []int) {
		// called with the monitor lock held: read the last arrival directly
		r := monRef.Arrivals[n-1]
		if r.Addr == 60000 || r.FC == 17 {
			return nil, nil // the ageing calls (see Age) and Read Server ID: whole reply at once, no yields
		}
		cl := plans[r.Addr]
		return planFor(c.Kind, cl.Plan, r.FC, replyLen)
	}
	mon.ExcFor = func(r spec.Req) uint8 { return plans[r.Addr].Exc }
	mon.Abandonable = func(r spec.Req) bool { return plans[r.Addr].CancelUs > 0 }
	mon.Delay = func(r spec.Req) time.Duration { return time.Duration(plans[r.Addr].DelayUs) * time.Microsecond }
	readTimeout := 2 * time.Second
	if c.ReadTimeoutMs > 0 {
		readTimeout = time.Duration(c.ReadTimeoutMs) * time.Millisecond
	}
	var do func(context.Context, packet.Request) (packet.Response, error)
	var closeFn func() error
	var connectFn, connectCancelledFn, connectFailsFn func() error
	if isSerial(c.Kind) {
		mon.IdleRead = time.Duration(c.ReadBlockUs) * time.Microsecond
		sp := serialPort{mon.NewConn()}
		var port io.ReadWriteCloser = sp
		if c.Kind == "serial-flush" {
			port = serialPortFlusher{sp}
			mon.FlushDelay = time.Duration(c.FlushDelayUs) * time.Microsecond
		}
		opts := []modbus.SerialClientOptionFunc{modbus.WithSerialReadTimeout(readTimeout)}
		if c.Hooks {
			opts = append(opts, modbus.WithSerialHooks(&racyHooks{}))
		}
		sc := modbus.NewSerialClient(port, opts...)
		do, closeFn = sc.Do, sc.Close
		connectFn = func() error { return nil }
	} else {
		writeTimeout := time.Second
		if c.WriteTimeoutMs > 0 {
			writeTimeout = time.Duration(c.WriteTimeoutMs) * time.Millisecond
		}
		conf := modbus.ClientConfig{ReadTimeout: readTimeout, WriteTimeout: writeTimeout,
			DialContextFunc: func(ctx context.Context, address string) (net.Conn, error) {
				// a dial function that does not return early when the context ends (a wrapper around net.DialTimeout or tls.Dial)
				if d, ok := ctx.Value(slowDialKey{}).(time.Duration); ok {
					time.Sleep(d)
				}
				if ctx.Value(failDialKey{}) != nil {
					// the dial fails the way `return tls.Dial(...)` or a wrapper's `return w, err` does: the error comes with a nil
					// pointer of a concrete type inside the net.Conn interface
					var none *xport.ArrivalConn
					return none, errors.New("dial: host unreachable")
				}
				return mon.NewConn(), nil
			}}
		if c.Hooks {
			conf.Hooks = &racyHooks{}
		}
		var cl *modbus.Client
		switch {
		case c.CountingParser:
			parsed := 0
			inner := packet.ParseTCPResponse
			conf.AsProtocolErrorFunc = packet.AsTCPErrorPacket
			if c.Kind != "tcp" {
				inner, conf.AsProtocolErrorFunc = packet.ParseRTUResponseWithCRC, packet.AsRTUErrorPacket
			}
			conf.ParseResponseFunc = func(d []byte) (packet.Response, error) {
				parsed += len(d) // unsynchronised on purpose
				return inner(d)
			}
			cl = modbus.NewClient(conf)
		case c.Kind == "tcp":
			cl = modbus.NewTCPClientWithConfig(conf)
		default:
			cl = modbus.NewRTUClientWithConfig(conf)
		}
		if c.CloseFirst {
			// Close on a client that has never been connected (a Close that wins the race against the first Connect, a deferred Close
			// after a failed start): a no-op that leaves the client usable
			if !within(10*time.Second, func() { _ = cl.Close() }) {
				return harness.Fail("Close on a client that was never connected did not return within 10 s")
			}
		}
		var cerr error
		if !within(10*time.Second, func() { cerr = cl.Connect(context.Background(), "arrival:1") }) {
			return harness.Fail("Connect (close before the first connect: %v) did not return within 10 s", c.CloseFirst)
		}
		if cerr != nil {
			return harness.Fail("connect: %v", cerr)
		}
		do, closeFn = cl.Do, cl.Close
		connectFn = func() error { return cl.Connect(context.Background(), "arrival:1") }
		connectFailsFn = func() error {
			return cl.Connect(context.WithValue(context.Background(), failDialKey{}, true), "arrival:1")
		}
		connectCancelledFn = func() error {
			ctx, cancel := context.WithTimeout(context.WithValue(context.Background(), slowDialKey{}, 3*time.Millisecond), 300*time.Microsecond)
			defer cancel()
			return cl.Connect(ctx, "arrival:1")
		}
	}
	// closers fire when the n-th request arrives at the transport
	var closerWG sync.WaitGroup
	var closerPanics []interface{}
	var cpMu sync.Mutex
	fired := map[int]bool{}
	var firedMu sync.Mutex
	mon.OnRequest = func(n int) {
		for i, cs := range c.Closers {
			if cs.AtRequest != n {
				continue
			}
			firedMu.Lock()
			if fired[i] {
				firedMu.Unlock()
				continue
			}
			fired[i] = true
			firedMu.Unlock()
			closerWG.Add(1)
			go func(cs closer) {
				defer closerWG.Done()
				defer func() {
					if p := recover(); p != nil {
						cpMu.Lock()
						closerPanics = append(closerPanics, p)
						cpMu.Unlock()
					}
				}()
				switch cs.Op {
				case "close":
					_ = closeFn()
				case "connect":
					_ = connectFn()
				case "connect-fails":
					// the dial of this Connect call fails; the client goes on as it was
					if connectFailsFn != nil {
						if err := connectFailsFn(); err == nil {
							panic("harness: Connect reported success although the dial function failed")
						}
					}
				case "connect-cancelled":
					// the context of the Connect call ends while the dial is still going on
					if connectCancelledFn != nil {
						_ = connectCancelledFn()
					} else {
						_ = connectFn()
					}
				default:
					_ = closeFn()
					_ = connectFn()
				}
			}(cs)
		}
	}
	if c.Age > 0 {
		aq, err := cat.NewRequest(f, spec.Req{FC: 3, Unit: 250, Tx: 9, Addr: 60000, Qty: 1})
		if err != nil {
			return harness.Fail("harness: %v", err)
		}
		for i := 0; i < c.Age; i++ {
			if _, err := do(context.Background(), aq); err != nil {
				return harness.Fail("ordinary call #%d on a client used by one goroutine only failed: %v", i+1, err)
			}
		}
	}
	results := make([][]callResult, len(c.Workers))
	reqs := make([][]packet.Request, len(c.Workers))
	specReqs := make([][]spec.Req, len(c.Workers))
	for w, calls := range c.Workers {
		results[w] = make([]callResult, len(calls))
		for m, cl := range calls {
			sr := reqFor(c.Kind, w, m, cl)
			q, err := cat.NewRequest(f, sr)
			if err != nil {
				return harness.Fail("harness: %v", err)
			}
			reqs[w] = append(reqs[w], q)
			specReqs[w] = append(specReqs[w], sr)
		}
	}
	var wg sync.WaitGroup
	start := make(chan struct{})
	for w := range c.Workers {
		wg.Add(1)
		go func(w int) {
			defer wg.Done()
			<-start
			for m := range c.Workers[w] {
				func() {
					defer func() {
						if p := recover(); p != nil {
							results[w][m].p = p
						}
					}()
					if c.Workers[w][m].Pause > 0 {
						time.Sleep(time.Duration(c.Workers[w][m].Pause) * 20 * time.Microsecond)
					}
					ctx := context.Background()
					if us := c.Workers[w][m].CancelUs; us > 0 {
						var cancel context.CancelFunc
						ctx, cancel = context.WithTimeout(ctx, time.Duration(us)*time.Microsecond)
						defer cancel()
					}
					resp, err := do(ctx, reqs[w][m])
					results[w][m].resp, results[w][m].err = resp, err
				}()
			}
		}(w)
	}
	close(start)
	done := make(chan struct{})
	go func() { wg.Wait(); closerWG.Wait(); close(done) }()
	select {
	case <-done:
	case <-time.After(60 * time.Second):
		return harness.Fail("scenario did not finish within 60 s (deadlock?)")
	}
	violations, arrivals := mon.Snapshot()
	if len(violations) > 0 {
		return harness.Fail("transport monitor: %s (arrival order: %s)", violations[0], arrivalText(arrivals))
	}
	if len(closerPanics) > 0 {
		return harness.Fail("Close/Connect panicked: %v", closerPanics[0])
	}
	// caller side
	refDev := device.New(c.DevSeed)
	_ = refDev
	for w := range c.Workers {
		for m := range c.Workers[w] {
			r := results[w][m]
			sr := specReqs[w][m]
			if r.p != nil {
				return harness.Fail("worker %d call %d panicked: %v", w, m, r.p)
			}
			if r.err != nil {
				if c.Workers[w][m].CancelUs > 0 && (errors.Is(r.err, context.DeadlineExceeded) || errors.Is(r.err, context.Canceled)) {
					continue // the caller gave up itself
				}
				if code := c.Workers[w][m].Exc; code != 0 {
					var et *packet.ErrorResponseTCP
					var er *packet.ErrorResponseRTU
					switch {
					case errors.As(r.err, &et):
						if et.Code != code || et.UnitID != sr.Unit || et.Function != sr.FC || et.TransactionID != sr.Tx {
							return harness.Fail("worker %d call %d (fc%d unit %d tx %d): the device answered with exception %d, the caller got %+v (arrival order: %s)", w, m, sr.FC, sr.Unit, sr.Tx, code, *et, arrivalText(arrivals))
						}
						continue
					case errors.As(r.err, &er):
						if er.Code != code || er.UnitID != sr.Unit || er.Function != sr.FC {
							return harness.Fail("worker %d call %d (fc%d unit %d): the device answered with exception %d, the caller got %+v (arrival order: %s)", w, m, sr.FC, sr.Unit, code, *er, arrivalText(arrivals))
						}
						continue
					}
				}
				if len(c.Closers) == 0 {
					return harness.Fail("worker %d call %d (fc%d addr %d) failed although nobody closed the client: %v (arrival order: %s)", w, m, sr.FC, sr.Addr, r.err, arrivalText(arrivals))
				}
				continue
			}
			if code := c.Workers[w][m].Exc; code != 0 && c.Workers[w][m].CancelUs == 0 {
				return harness.Fail("worker %d call %d (fc%d unit %d): the device answered with exception %d but the call returned a response %x", w, m, sr.FC, sr.Unit, code, r.resp.Bytes())
			}
			if cat.IsNilValue(r.resp) {
				return harness.Fail("worker %d call %d: (nil, nil)", w, m)
			}
			// the reply must be the device's answer to the caller's own request
			want := expectedReply(f, c.DevSeed, sr, arrivals)
			if !bytes.Equal(r.resp.Bytes(), want) {
				return harness.Fail("worker %d call %d (fc%d unit %d tx %d addr %d) received %x, the reply to its own request is %x (arrival order: %s)", w, m, sr.FC, sr.Unit, sr.Tx, sr.Addr, r.resp.Bytes(), want, arrivalText(arrivals))
			}
		}
	}
	// non-trivial: at least one switch between workers in arrival order
	switches := 0
	workersSeen := map[uint8]bool{}
	for i, a := range arrivals {
		workersSeen[a.Unit] = true
		if i > 0 && arrivals[i-1].Unit != a.Unit {
			switches++
		}
	}
	labels := []string{"kind:" + c.Kind, fmt.Sprintf("procs:%d", c.Procs), fmt.Sprintf("workers:%d", len(c.Workers))}
	if len(c.Closers) > 0 {
		labels = append(labels, "with-close-connect")
	}
	for _, calls := range c.Workers {
		for _, cl := range calls {
			if cl.CancelUs > 0 {
				labels = append(labels, "with-cancelled-callers")
				goto done
			}
		}
	}
done:
	excs, slow := 0, 0
	for _, calls := range c.Workers {
		for _, cl := range calls {
			if cl.Exc != 0 {
				excs++
			}
			if cl.DelayUs >= 50000 {
				slow++
			}
		}
	}
	if excs > 0 {
		labels = append(labels, "with-exception-replies")
	}
	if slow >= 3 {
		labels = append(labels, "callers-queue-behind-slow-replies")
	}
	if switches > 0 {
		labels = append(labels, "interleaved-arrivals")
	}
	return harness.Result{NonTrivial: len(workersSeen) >= 2 && switches >= 1, Labels: labels}
}

func arrivalText(a []spec.Req) string {
	s := ""
	for i, r := range a {
		if i > 24 {
			s += "…"
			break
		}
		s += fmt.Sprintf("u%d/a%d ", r.Unit, r.Addr)
	}
	return s
}

// expectedReply: the device's answer to sr. Reads see device memory that no request in these scenarios changes
// (writes go to addresses only their own caller reads back via the echo), so the answer is a pure function of the request.
func expectedReply(f spec.Framing, seed uint64, sr spec.Req, arrivals []spec.Req) []byte {
	d := device.New(seed)
	return spec.EncodeResponse(f, d.Respond(sr))
}

type serialPort struct{ c *xport.ArrivalConn }

// serialPortFlusher additionally offers the optional Flush operation, which the serial client calls after every exchange.
type serialPortFlusher struct{ serialPort }

func (s serialPortFlusher) Flush() error { return s.c.Flush() }

func isSerial(kind string) bool { return kind == "serial" || kind == "serial-flush" }

func (s serialPort) Read(p []byte) (int, error)  { return s.c.Read(p) }
func (s serialPort) Write(p []byte) (int, error) { return s.c.Write(p) }
func (s serialPort) Close() error                { return s.c.Close() }

func genConc(t *rapid.T) concCase {
	c := concCase{DevSeed: rapid.Uint64().Draw(t, "dev_seed"), Procs: rapid.SampledFrom([]int{2, 16}).Draw(t, "procs")}
	c.Kind = rapid.SampledFrom([]string{"tcp", "tcp", "tcp", "rtu-net", "rtu-net", "serial", "serial-flush"}).Draw(t, "kind")
	n := rapid.IntRange(2, 8).Draw(t, "workers")
	maxCalls := 6
	if isSerial(c.Kind) {
		n = rapid.IntRange(2, 4).Draw(t, "workers_serial")
		maxCalls = 2
	}
	// (17 = Read Server ID on the TCP client: a reply - up to 250 bytes - whose length the request does not let the client anticipate;
	// always delivered in one piece, because how the clients find the end of a fragmented FC17 reply is C07's listed finding)
	fcs := []uint8{1, 3, 4, 6, 15, 16, 17, 17}
	if c.Kind != "tcp" {
		fcs = []uint8{3, 4, 15, 16}
	}
	total := 0
	withCancel := rapid.IntRange(0, 2).Draw(t, "with_cancel") == 0
	for w := 0; w < n; w++ {
		m := rapid.IntRange(1, maxCalls).Draw(t, "calls")
		var calls []call
		for i := 0; i < m; i++ {
			cl := call{FC: rapid.SampledFrom(fcs).Draw(t, "fc"), Plan: rapid.Uint64().Draw(t, "plan"), Pause: rapid.IntRange(0, 5).Draw(t, "pause")}
			if cl.FC != 17 && rapid.IntRange(0, 5).Draw(t, "exception") == 0 {
				cl.Exc = rapid.SampledFrom([]uint8{1, 2, 3, 4, 5, 6, 6, 8, 10, 11}).Draw(t, "exc_code")
			}
			if withCancel && cl.FC != 17 {
				if rapid.IntRange(0, 2).Draw(t, "delayed") == 0 {
					cl.DelayUs = rapid.SampledFrom([]int{500, 1500, 3000}).Draw(t, "delay_us")
					if isSerial(c.Kind) {
						// the serial client starts reading 30 ms after its write: longer delays keep it blocked in Read
						cl.DelayUs = rapid.SampledFrom([]int{500, 3000, 40000, 60000}).Draw(t, "delay_us_serial")
					}
				}
				if rapid.IntRange(0, 3).Draw(t, "cancellable") == 0 {
					cl.CancelUs = rapid.SampledFrom([]int{1, 100, 400, 1000, 2500}).Draw(t, "cancel_us")
					if isSerial(c.Kind) {
						// the serial client sleeps 30 ms after its write before it looks at the context again
						cl.CancelUs = rapid.SampledFrom([]int{1, 2000, 20000, 45000}).Draw(t, "cancel_us_serial")
					}
				}
			}
			calls = append(calls, cl)
			total++
		}
		c.Workers = append(c.Workers, calls)
	}
	c.Hooks = rapid.IntRange(0, 2).Draw(t, "hooks") == 0
	c.CountingParser = !isSerial(c.Kind) && rapid.IntRange(0, 3).Draw(t, "counting_parser") == 0
	c.CloseFirst = !isSerial(c.Kind) && rapid.IntRange(0, 3).Draw(t, "close_first") == 0
	if isSerial(c.Kind) {
		c.ReadBlockUs = rapid.SampledFrom([]int{0, 3000, 15000}).Draw(t, "read_block")
	}
	if c.Kind == "serial-flush" {
		c.FlushDelayUs = rapid.SampledFrom([]int{0, 100, 500, 2000}).Draw(t, "flush_delay")
	}
	if rapid.IntRange(0, 2).Draw(t, "closers") == 0 {
		k := rapid.IntRange(1, 3).Draw(t, "nclosers")
		ops := []string{"close", "connect", "close-connect", "connect-cancelled", "connect-fails", "connect-fails"}
		if isSerial(c.Kind) {
			ops = []string{"close"} // the serial client has no Connect
		}
		for i := 0; i < k; i++ {
			c.Closers = append(c.Closers, closer{AtRequest: rapid.IntRange(1, total).Draw(t, "at"), Op: rapid.SampledFrom(ops).Draw(t, "op")})
		}
		c.CloseDelayUs = rapid.SampledFrom([]int{0, 200, 1000, 3000}).Draw(t, "close_delay")
	}
	return c
}

var chkConc = harness.Define("shared-client", genConc, runConc)

func TestRandom(t *testing.T) {
	chkConc.Rapid(t, harness.Pick(100, 1500))
}

// TestSerialCancelWhileReading: the first caller's context ends while the serial port is blocked in Read (its reply is withheld); the
// callers queued behind it must find the port free: no transport call of theirs may overlap one still running for the first caller,
// and each gets the reply to its own request.
func TestSerialCancelWhileReading(t *testing.T) {
	idx := 0
	for _, kind := range []string{"serial", "serial-flush"} {
		for _, block := range []int{3000, 15000} {
			for _, cancel := range []int{35000, 45000, 52000} {
				idx++
				if !harness.Mine(idx) {
					continue
				}
				c := concCase{Kind: kind, Procs: 16, DevSeed: uint64(idx) + harness.Seed(), ReadBlockUs: block, FlushDelayUs: 100,
					Workers: [][]call{
						{{FC: 3, Plan: 1, DelayUs: 90000, CancelUs: cancel}},
						{{FC: 4, Plan: 2, Pause: 100}},
						{{FC: 3, Plan: 3, Pause: 150}, {FC: 16, Plan: 4}},
					}}
				if !chkConc.Eval(t, c) {
					return
				}
			}
		}
	}
}

// TestQueuedCallersKeepTheirTimeout: five callers queue on one network client whose device takes 100 ms per reply; the client's read
// timeout is 400 ms. Every exchange is well inside the timeout, so every caller must get its own reply - however long it waited for
// its turn. The same with a write timeout of 80 ms, shorter than the wait: the time a caller spends queueing is not part of its write
// timeout either. (A failure is reported only if it repeats three times: the scenario depends on real time.)
func TestQueuedCallersKeepTheirTimeout(t *testing.T) {
	idx := 0
	for _, kind := range []string{"tcp", "rtu-net", "tcp+write-timeout", "rtu-net+write-timeout"} {
		idx++
		if !harness.Mine(idx) {
			continue
		}
		c := concCase{Kind: kind, Procs: 16, DevSeed: uint64(idx) + harness.Seed(), ReadTimeoutMs: 400}
		if k, found := strings.CutSuffix(kind, "+write-timeout"); found {
			// the write timeout (80 ms) is shorter than the time a caller waits for its turn: it must not have started by then
			c.Kind, c.WriteTimeoutMs = k, 80
		}
		for w := 0; w < 5; w++ {
			c.Workers = append(c.Workers, []call{{FC: 3, Plan: uint64(w), DelayUs: 100000}})
		}
		ok := false
		for attempt := 0; attempt < 3 && !ok; attempt++ {
			if r := runConc(c); r.Err == nil {
				ok = true
			}
		}
		if !ok && !chkConc.Eval(t, c) {
			return
		}
	}
}

// TestLateSuccessThenNextCall: a serial port whose reads block for up to 100 ms, a total read timeout of 150 ms, and a device that
// takes 230 ms for the first reply: the read that brings the reply starts before the total timeout and ends after it, so the first
// call may succeed late (or time out, if the machine is slow). Whatever it did, it has ended; the calls that follow on the same client
// get their own time and their own replies. (Real time: a failure is reported only if it repeats three times.)
func TestLateSuccessThenNextCall(t *testing.T) {
	idx := 0
	for _, kind := range []string{"serial", "serial-flush"} {
		idx++
		if !harness.Mine(idx) {
			continue
		}
		c := concCase{Kind: kind, Procs: 16, DevSeed: uint64(idx) + harness.Seed(), ReadTimeoutMs: 150, ReadBlockUs: 100000,
			Workers: [][]call{{{FC: 3, Plan: 0, DelayUs: 230000}, {FC: 3, Plan: 0}, {FC: 4, Plan: 0}, {FC: 3, Plan: 0}}}}
		ok := false
		for attempt := 0; attempt < 3 && !ok; attempt++ {
			if r := runConc(c); r.Err == nil {
				ok = true
			}
		}
		if !ok && !chkConc.Eval(t, c) {
			return
		}
	}
}

// ---------------------------------------------------------------------------
// the same property over a real TCP connection (the clients treat *net.TCPConn specially in places): a device model behind a
// loopback listener, one client shared by several goroutines, every caller cancelling its context as soon as its call has
// returned (the usual `defer cancel()`), some requests answered with exceptions

type realCase struct {
	Workers int    `json:"workers"`
	Calls   int    `json:"calls"`
	Seed    uint64 `json:"seed"`
	// DelayUs: the device takes this long to answer (another caller is waiting meanwhile)
	DelayUs int `json:"delay_us"`
	// ExcEvery k > 0: every k-th call (by worker+call index) goes to a unit the device answers with exception 2
	ExcEvery int `json:"exc_every"`
}

// serveModel answers Modbus TCP requests on l with the device model until l is closed.
func serveModel(l net.Listener, dev *device.Device, delay time.Duration) {
	var mu sync.Mutex
	for {
		conn, err := l.Accept()
		if err != nil {
			return
		}
		go func(conn net.Conn) {
			defer conn.Close()
			hdr := make([]byte, 6)
			for {
				if _, err := io.ReadFull(conn, hdr); err != nil {
					return
				}
				body := make([]byte, int(hdr[4])<<8|int(hdr[5]))
				if _, err := io.ReadFull(conn, body); err != nil {
					return
				}
				frame := append(append([]byte(nil), hdr...), body...)
				mu.Lock()
				var reply []byte
				if len(body) > 0 && body[0] >= 200 {
					d := device.New(1)
					d.ForceException = 2
					reply = d.Answer(spec.TCP, frame)
				} else {
					reply = dev.Answer(spec.TCP, frame)
				}
				mu.Unlock()
				if delay > 0 {
					time.Sleep(delay)
				}
				if reply != nil {
					if _, err := conn.Write(reply); err != nil {
						return
					}
				}
			}
		}(conn)
	}
}

func runReal(c realCase) harness.Result {
	l, err := net.Listen("tcp", "127.0.0.1:0")
	if err != nil {
		return harness.Fail("harness: listen: %v", err)
	}
	defer l.Close()
	dev := device.New(c.Seed)
	go serveModel(l, dev, time.Duration(c.DelayUs)*time.Microsecond)
	// a generous read timeout (replies take at most a millisecond): on a correct library it never expires
	cl := modbus.NewTCPClientWithConfig(modbus.ClientConfig{ReadTimeout: 5 * time.Second, WriteTimeout: 5 * time.Second})
	cctx, ccancel := context.WithTimeout(context.Background(), 5*time.Second)
	err = cl.Connect(cctx, l.Addr().String())
	ccancel()
	if err != nil {
		return harness.Fail("harness: connect to the loopback device: %v", err)
	}
	defer cl.Close()
	errs := make([]error, c.Workers)
	var wg sync.WaitGroup
	start := make(chan struct{})
	for w := 0; w < c.Workers; w++ {
		wg.Add(1)
		go func(w int) {
			defer wg.Done()
			<-start
			for m := 0; m < c.Calls; m++ {
				unit := uint8(1 + w)
				isExc := c.ExcEvery > 0 && (w+m)%c.ExcEvery == 0
				if isExc {
					unit = uint8(200 + w)
				}
				addr, qty := uint16(100*w+m), uint16(1+(w+m)%5)
				req, err := packet.NewReadHoldingRegistersRequestTCP(unit, addr, qty)
				if err != nil {
					errs[w] = fmt.Errorf("harness: %v", err)
					return
				}
				ctx, cancel := context.WithCancel(context.Background())
				resp, err := cl.Do(ctx, req)
				cancel() // the call is over: what happens to its context now must not matter to anybody
				if isExc {
					var e *packet.ErrorResponseTCP
					if !errors.As(err, &e) || e.Code != 2 || e.UnitID != unit || e.TransactionID != req.TransactionID {
						errs[w] = fmt.Errorf("goroutine %d call %d (unit %d, answered with exception 2): got response %v, error %v", w, m, unit, resp, err)
						return
					}
					continue
				}
				if err != nil {
					errs[w] = fmt.Errorf("goroutine %d call %d (unit %d, %d registers at %d): %v", w, m, unit, qty, addr, err)
					return
				}
				r, ok := resp.(*packet.ReadHoldingRegistersResponseTCP)
				want := dev.RegBytes(device.Holding, int(addr), int(qty))
				if !ok || r.UnitID != unit || r.TransactionID != req.TransactionID || !bytes.Equal(r.Data, want) {
					errs[w] = fmt.Errorf("goroutine %d call %d (unit %d, %d registers at %d, tx %d): received %x, the reply to this request carries %x", w, m, unit, qty, addr, req.TransactionID, resp.Bytes(), want)
					return
				}
			}
		}(w)
	}
	close(start)
	done := make(chan struct{})
	go func() { wg.Wait(); close(done) }()
	select {
	case <-done:
	case <-time.After(60 * time.Second):
		return harness.Fail("calls on a client shared by %d goroutines over loopback TCP did not finish within 60 s", c.Workers)
	}
	for _, e := range errs {
		if e != nil {
			return harness.Result{Err: e, NonTrivial: true}
		}
	}
	labels := []string{fmt.Sprintf("real-tcp-workers:%d", c.Workers)}
	if c.ExcEvery > 0 {
		labels = append(labels, "with-exception-replies")
	}
	return harness.Result{NonTrivial: c.Workers >= 2 && c.Calls >= 2, Labels: labels, Weight: int64(c.Workers * c.Calls)}
}

var chkReal = harness.Define("shared-client-over-loopback-tcp",
	func(t *rapid.T) realCase {
		return realCase{
			Workers:  rapid.IntRange(2, 8).Draw(t, "workers"),
			Calls:    rapid.IntRange(5, 40).Draw(t, "calls"),
			Seed:     rapid.Uint64().Draw(t, "seed"),
			DelayUs:  rapid.SampledFrom([]int{0, 50, 200, 1000}).Draw(t, "delay_us"),
			ExcEvery: rapid.SampledFrom([]int{0, 2, 3, 5}).Draw(t, "exc_every"),
		}
	}, runReal)

func TestRealTCP(t *testing.T) { chkReal.Rapid(t, harness.Pick(25, 600)) }

// TestAgedClientConcurrency: the concurrent scenario on clients that have already made 250..65540 calls (around the wraps of 8- and
// 16-bit counters): several goroutines whose replies take 200 us each, so that calls queue behind one another.
func TestAgedClientConcurrency(t *testing.T) {
	idx := 0
	ages := []int{250, 65530}
	if harness.Thorough() {
		ages = []int{250, 4090, 32760, 65530, 131066}
	}
	for _, kind := range []string{"tcp", "rtu-net"} {
		for _, age := range ages {
			idx++
			if !harness.Mine(idx) {
				continue
			}
			c := concCase{Kind: kind, Procs: 8, DevSeed: uint64(idx) + harness.Seed(), Age: age}
			for w := 0; w < 6; w++ {
				var calls []call
				for m := 0; m < 6; m++ {
					calls = append(calls, call{FC: 3, Plan: uint64(w*7 + m), DelayUs: 200})
				}
				c.Workers = append(c.Workers, calls)
			}
			if !chkConc.Eval(t, c) {
				return
			}
		}
	}
}

// ---------------------------------------------------------------------------
// goroutines that poll the SAME register with byte-identical requests while another goroutine writes increasing values to it: every
// call is an exchange of its own on the wire (one request frame each), and a read that started after write k had returned must see a
// value >= k - the reply to ITS request, not to somebody else's earlier, identical one.

type pollCase struct {
	Kind    string `json:"kind"` // tcp | rtu-net | serial | serial-flush
	Readers int    `json:"readers"`
	Polls   int    `json:"polls"`
	Writes  int    `json:"writes"`
	Seed    uint64 `json:"seed"`
	// DelayUs: the device takes this long per reply, so that callers queue
	DelayUs int `json:"delay_us"`
	// Unit: the unit id everybody talks to (0 and 255 are legal; this device answers every unit id)
	Unit uint8 `json:"unit"`
}

func runPolls(c pollCase) harness.Result {
	f := framingOf(c.Kind)
	mon := &xport.Monitor{F: f, Dev: device.New(c.Seed), Serial: isSerial(c.Kind)}
	mon.Delay = func(r spec.Req) time.Duration { return time.Duration(c.DelayUs) * time.Microsecond }
	var do func(context.Context, packet.Request) (packet.Response, error)
	if isSerial(c.Kind) {
		sp := serialPort{mon.NewConn()}
		var port io.ReadWriteCloser = sp
		if c.Kind == "serial-flush" {
			port = serialPortFlusher{sp}
		}
		do = modbus.NewSerialClient(port, modbus.WithSerialReadTimeout(5*time.Second)).Do
	} else {
		conf := modbus.ClientConfig{ReadTimeout: 5 * time.Second, WriteTimeout: time.Second,
			DialContextFunc: func(ctx context.Context, address string) (net.Conn, error) { return mon.NewConn(), nil }}
		var cl *modbus.Client
		if c.Kind == "tcp" {
			cl = modbus.NewTCPClientWithConfig(conf)
		} else {
			cl = modbus.NewRTUClientWithConfig(conf)
		}
		if err := cl.Connect(context.Background(), "arrival:1"); err != nil {
			return harness.Fail("connect: %v", err)
		}
		do = cl.Do
	}
	unit, addr := c.Unit, uint16(300)
	// the register starts at 0
	if q, err := cat.NewRequest(f, spec.Req{FC: 6, Unit: unit, Tx: 1, Addr: addr, Value: 0}); err != nil {
		return harness.Fail("harness: %v", err)
	} else if _, err := do(context.Background(), q); err != nil {
		return harness.Fail("initial write failed: %v", err)
	}
	var written atomic.Int64 // highest value whose write call has returned
	errs := make([]error, c.Readers+1)
	var calls atomic.Int64
	calls.Add(1)
	var wg sync.WaitGroup
	start := make(chan struct{})
	wg.Add(1)
	go func() {
		defer wg.Done()
		<-start
		for k := 1; k <= c.Writes; k++ {
			q, err := cat.NewRequest(f, spec.Req{FC: 6, Unit: unit, Tx: uint16(1000 + k), Addr: addr, Value: uint16(k)})
			if err != nil {
				errs[c.Readers] = err
				return
			}
			calls.Add(1)
			if _, err := do(context.Background(), q); err != nil {
				errs[c.Readers] = fmt.Errorf("write %d failed: %v", k, err)
				return
			}
			written.Store(int64(k))
		}
	}()
	for g := 0; g < c.Readers; g++ {
		wg.Add(1)
		go func(g int) {
			defer wg.Done()
			<-start
			last := int64(0)
			for m := 0; m < c.Polls; m++ {
				// every reader sends the very same frame every time
				q, err := cat.NewRequest(f, spec.Req{FC: 3, Unit: unit, Tx: 77, Addr: addr, Qty: 1})
				if err != nil {
					errs[g] = err
					return
				}
				floor := written.Load()
				if last > floor {
					floor = last
				}
				calls.Add(1)
				resp, err := do(context.Background(), q)
				if err != nil {
					errs[g] = fmt.Errorf("reader %d poll %d failed: %v", g, m, err)
					return
				}
				b := resp.Bytes()
				n := len(b)
				if f == spec.RTU {
					n -= 2
				}
				if n < 2 {
					errs[g] = fmt.Errorf("reader %d poll %d: reply %x too short", g, m, b)
					return
				}
				v := int64(b[n-2])<<8 | int64(b[n-1])
				if v < floor {
					errs[g] = fmt.Errorf("reader %d poll %d read the value %d although the write of %d had returned (or this reader had already read it) before the poll started: a stale reply (%x)", g, m, v, floor, b)
					return
				}
				last = v
			}
		}(g)
	}
	close(start)
	done := make(chan struct{})
	go func() { wg.Wait(); close(done) }()
	select {
	case <-done:
	case <-time.After(60 * time.Second):
		return harness.Fail("polling scenario did not finish within 60 s")
	}
	for _, e := range errs {
		if e != nil {
			return harness.Result{Err: e, NonTrivial: true}
		}
	}
	violations, arrivals := mon.Snapshot()
	if len(violations) > 0 {
		return harness.Fail("transport monitor: %s", violations[0])
	}
	if int64(len(arrivals)) != calls.Load() {
		return harness.Fail("%d request calls returned successfully but %d request frames reached the transport: a call was answered without an exchange of its own", calls.Load(), len(arrivals))
	}
	return harness.Result{NonTrivial: c.Readers >= 2 && c.Writes >= 2, Labels: []string{"kind:" + c.Kind, fmt.Sprintf("identical-polls-readers:%d", c.Readers)}, Weight: calls.Load()}
}

var chkPolls = harness.Define("identical-polls-while-writing",
	func(t *rapid.T) pollCase {
		return pollCase{Kind: rapid.SampledFrom([]string{"tcp", "rtu-net", "serial", "serial-flush"}).Draw(t, "kind"), Readers: rapid.IntRange(2, 6).Draw(t, "readers"),
			Polls: rapid.IntRange(3, 12).Draw(t, "polls"), Writes: rapid.IntRange(2, 10).Draw(t, "writes"), Seed: rapid.Uint64().Draw(t, "seed"),
			DelayUs: rapid.SampledFrom([]int{0, 100, 500}).Draw(t, "delay_us"), Unit: rapid.SampledFrom([]uint8{7, 0, 255, 1}).Draw(t, "unit")}
	}, runPolls)

func TestIdenticalPolls(t *testing.T) { chkPolls.Rapid(t, harness.Pick(12, 300)) }

// ---------------------------------------------------------------------------
// two clients, each shared by its own goroutines and talking to its own device, at work at the same time: each caller still gets the
// reply to its own request on its own client (clients do not share anything)

type duoCase struct {
	A concCase `json:"a"`
	B concCase `json:"b"`
}

func runDuo(c duoCase) harness.Result {
	c.B.Procs = c.A.Procs // (GOMAXPROCS is process-wide)
	var ra, rb harness.Result
	var wg sync.WaitGroup
	wg.Add(2)
	go func() { defer wg.Done(); ra = runConc(c.A) }()
	go func() { defer wg.Done(); rb = runConc(c.B) }()
	wg.Wait()
	if ra.Err != nil {
		return harness.Fail("two clients at work at the same time; first client (%s): %v", c.A.Kind, ra.Err)
	}
	if rb.Err != nil {
		return harness.Fail("two clients at work at the same time; second client (%s): %v", c.B.Kind, rb.Err)
	}
	return harness.Result{NonTrivial: ra.NonTrivial || rb.NonTrivial, Labels: []string{"two-clients-at-once", "kinds:" + c.A.Kind + "+" + c.B.Kind}}
}

var chkDuo = harness.Define("two-shared-clients",
	func(t *rapid.T) duoCase {
		d := duoCase{A: genConc(t), B: genConc(t)}
		// no Close/Connect actions and no aged clients here: two plain concurrent scenarios side by side
		d.A.Closers, d.B.Closers, d.A.Age, d.B.Age = nil, nil, 0, 0
		return d
	}, runDuo)

func TestTwoClients(t *testing.T) { chkDuo.Rapid(t, harness.Pick(40, 600)) }
