package c06

import (
	"fmt"
	"sort"
	"strings"
	"testing"

	modbus "github.com/aldas/go-modbus-client"
	"pgregory.net/rapid"

	"verif/internal/fgen"
	"verif/internal/harness"
	"verif/internal/spec"
)

func TestMain(m *testing.M) { harness.Main(m) }

func TestReplay(t *testing.T)  { harness.RunReplay(t) }
func TestRegress(t *testing.T) { harness.RunRegress(t) }

type batchCase struct {
	Fields []modbus.Field `json:"fields"`
	// Target 0..7: fc1 tcp, fc1 rtu, fc2 tcp, fc2 rtu, fc3 tcp, fc3 rtu, fc4 tcp, fc4 rtu
	Target int `json:"target"`
	// Caller: what the caller does with the slice it handed to AddAll: 0 nothing | 1 reuses it afterwards (overwrites every element
	// and appends to it: the slice has spare capacity) | 2 adds the fields with two AddAll calls (first third, then the rest) and
	// then overwrites both slices. The builder must have taken copies. | 3 adds the first third, asks the builder for its requests, adds
	// the rest and asks again: the second answer covers all fields.
	Caller int `json:"caller,omitempty"`
	// Rebuilds > 0 (a builder that lives long): after one build of the other kind of request, the builder is asked Rebuilds times for this
	// target; every answer must describe the same requests as the first one, which is judged as usual.
	Rebuilds int `json:"rebuilds,omitempty"`
	// Grow > 0 (a builder that grows): the builder is first filled with Fields and asked for its requests (both framings), then Grow more
	// valid fields are added (synthesised by grown()) and it is asked again; that answer is judged over all Fields+Grow fields.
	Grow int `json:"grow,omitempty"`
}

// grown returns the i-th synthesised field of a growing builder: coils and registers alternate, spread over three units of one server.
func grown(i int) modbus.Field {
	f := modbus.Field{Name: fmt.Sprintf("g%d", i), ServerAddress: "grow:502", UnitID: uint8(1 + i%3), Address: uint16((i * 7) % 60000), Type: modbus.FieldTypeUint16}
	if i%2 == 1 {
		f.Type = modbus.FieldTypeCoil
	}
	return f
}

// violation is what build() panics with when it has seen the property broken itself.
type violation string

// signature describes a build result independently of transaction ids.
func signature(reqs []modbus.BuilderRequest, err error, tcp bool) string {
	if err != nil {
		return "error: " + err.Error()
	}
	var parts []string
	for _, r := range reqs {
		fr := append([]byte(nil), r.Bytes()...)
		if tcp && len(fr) >= 2 {
			fr[0], fr[1] = 0, 0
		}
		parts = append(parts, fmt.Sprintf("%s|%d|%d|%x|%d", r.ServerAddress, r.UnitID, r.StartAddress, fr, len(r.Fields)))
	}
	sort.Strings(parts)
	return strings.Join(parts, ";")
}

func build(c batchCase) ([]modbus.BuilderRequest, error) {
	in := make([]modbus.Field, len(c.Fields), len(c.Fields)+4)
	copy(in, c.Fields)
	b := modbus.NewRequestBuilder("", 0)
	if len(c.Fields)%3 == 2 {
		// a builder with defaults of its own: complete definitions handed to AddAll (unit id 0 and all) are not subject to them
		b = modbus.NewRequestBuilder("default-target:502", 7)
	}
	if c.Rebuilds > 0 {
		b.AddAll(in)
		_, _ = buildTarget(b, (c.Target+4)%8)
		first, err := buildTarget(b, c.Target)
		want := signature(first, err, c.Target%2 == 0)
		for i := 2; i <= c.Rebuilds; i++ {
			again, aerr := buildTarget(b, c.Target)
			if got := signature(again, aerr, c.Target%2 == 0); got != want {
				panic(violation(fmt.Sprintf("build #%d of the same builder for the same target describes other requests than build #1:\n  #1: %s\n  #%d: %s", i, want, i, got)))
			}
		}
		return first, err
	}
	if c.Grow > 0 {
		b.AddAll(in[:len(c.Fields)-c.Grow])
		_, _ = buildTarget(b, c.Target)
		_, _ = buildTarget(b, c.Target^1)
		rest := in[len(c.Fields)-c.Grow:]
		for len(rest) > 0 {
			k := min(len(rest), 4099)
			b.AddAll(rest[:k:k])
			rest = rest[k:]
		}
		return buildTarget(b, c.Target)
	}
	if c.Caller == 2 {
		k := len(in) / 3
		b.AddAll(in[:k:k]).AddAll(in[k:])
	} else if c.Caller == 3 {
		// the builder is asked for its requests (this target, and another kind) before the remaining fields are added
		k := len(in) / 3
		b.AddAll(in[:k:k])
		_, _ = buildTarget(b, c.Target)
		_, _ = buildTarget(b, (c.Target+4)%8)
		b.AddAll(in[k:])
		return buildTarget(b, c.Target)
	} else {
		b.AddAll(in)
	}
	if c.Caller != 0 {
		bogus := modbus.Field{Name: "not-added", ServerAddress: "bogus:1", UnitID: 99, Address: 4242, Type: modbus.FieldTypeUint64}
		if c.Target < 4 {
			bogus.Type = modbus.FieldTypeCoil
		}
		for i := range in {
			in[i] = bogus
		}
		in = append(in, bogus, bogus)
		return buildTarget(b, c.Target)
	}
	// a builder may be asked for several kinds of requests: building another target first must not change what this
	// target gets (and must not modify the caller's field slice)
	if c.Target%3 != 0 {
		other := batchCase{Target: (c.Target + 4) % 8}
		_, _ = buildTarget(b, other.Target)
		_, _ = buildTarget(b, (c.Target+1)%8)
	}
	defer func() {
		for i := range in {
			if in[i] != c.Fields[i] {
				panic(fmt.Sprintf("builder modified the caller's field slice at index %d", i))
			}
		}
	}()
	return buildTarget(b, c.Target)
}

func buildTarget(b *modbus.Builder, target int) ([]modbus.BuilderRequest, error) {
	{
		// a second builder is alive and filled at the same time (a program with one builder per device): builders are independent
		otherB := modbus.NewRequestBuilder("elsewhere:502", 9)
		stranger := modbus.Field{Name: "stranger", ServerAddress: "elsewhere:502", UnitID: 9, Address: 4321, Type: modbus.FieldTypeUint64}
		if target < 4 {
			stranger.Type = modbus.FieldTypeCoil
		}
		otherB.AddAll([]modbus.Field{stranger, stranger, stranger})
		_, _ = otherB.ReadHoldingRegistersTCP()
	}
	switch target {
	case 0:
		return b.ReadCoilsTCP()
	case 1:
		return b.ReadCoilsRTU()
	case 2:
		return b.ReadDiscreteInputsTCP()
	case 3:
		return b.ReadDiscreteInputsRTU()
	case 4:
		return b.ReadHoldingRegistersTCP()
	case 5:
		return b.ReadHoldingRegistersRTU()
	case 6:
		return b.ReadInputRegistersTCP()
	}
	return b.ReadInputRegistersRTU()
}

type groupKey struct {
	server string
	unit   uint8
}

func runBatch(c batchCase) harness.Result {
	fc := uint8(c.Target/2 + 1)
	framing := spec.Framing(c.Target % 2)
	wantCoils := fc <= 2
	limit := 125
	if wantCoils {
		limit = 2000
	}
	var reqs []modbus.BuilderRequest
	var err error
	var panicked interface{}
	if c.Grow > 0 {
		// (the synthesised fields are part of what the final build must cover)
		c.Fields = append([]modbus.Field(nil), c.Fields...)
		for i := 0; i < c.Grow; i++ {
			c.Fields = append(c.Fields, grown(i))
		}
	}
	func() {
		defer func() {
			if p := recover(); p != nil {
				panicked = p
			}
		}()
		reqs, err = build(c)
	}()
	if v, ok := panicked.(violation); ok {
		return harness.Fail("%s", string(v))
	}
	if panicked != nil {
		return harness.Fail("builder panicked: %v", panicked)
	}
	anyInvalid := false
	var relevant []modbus.Field
	tooLong := false
	crossing := false
	for _, f := range c.Fields {
		if !fgen.IsValid(f) {
			anyInvalid = true
			continue
		}
		if (f.Type == modbus.FieldTypeCoil) == wantCoils {
			relevant = append(relevant, f)
			if fgen.Size(f) > limit {
				tooLong = true
			}
			if int(f.Address)+fgen.Size(f) > 65536 {
				crossing = true
			}
		}
	}
	labels := []string{fmt.Sprintf("fc%d", fc), framing.String()}
	switch c.Caller {
	case 1:
		labels = append(labels, "caller-overwrites-its-slice")
	case 2:
		labels = append(labels, "two-AddAll-calls")
	case 3:
		labels = append(labels, "built-between-two-AddAll-calls")
	}
	if c.Rebuilds > 0 {
		labels = append(labels, fmt.Sprintf("rebuilt>=%d-times", c.Rebuilds/256*256))
	}
	if c.Grow > 0 {
		labels = append(labels, fmt.Sprintf("grown-by:%d", c.Grow))
	}
	{
		// distinct addresses per target: implementations may switch data structure at a size
		addrs := map[string]map[uint16]bool{}
		most := 0
		for _, f := range c.Fields {
			k := fmt.Sprintf("%s|%d", f.ServerAddress, f.UnitID)
			if addrs[k] == nil {
				addrs[k] = map[uint16]bool{}
			}
			addrs[k][f.Address] = true
			if len(addrs[k]) > most {
				most = len(addrs[k])
			}
		}
		switch {
		case most >= 256:
			labels = append(labels, "target-with>=256-addresses")
		case most >= 128:
			labels = append(labels, "target-with>=128-addresses")
		case most >= 32:
			labels = append(labels, "target-with>=32-addresses")
		}
	}
	if err != nil {
		if reqs != nil {
			return harness.Fail("builder returned requests together with error %v", err)
		}
		switch {
		case anyInvalid:
			labels = append(labels, "error_with_invalid_field")
		case tooLong:
			labels = append(labels, "error_span_too_long")
		case crossing:
			labels = append(labels, "error_field_crossing_65536")
		default:
			labels = append(labels, "error_on_all_valid")
		}
		return harness.Result{Labels: labels}
	}
	if anyInvalid {
		labels = append(labels, "success_with_invalid_field")
	}
	// multiset of expected fields
	want := map[modbus.Field]int{}
	for _, f := range relevant {
		want[f]++
	}
	got := map[modbus.Field]int{}
	perGroup := map[groupKey]int{}
	for ri, r := range reqs {
		if len(r.Fields) == 0 {
			return harness.Fail("request %d has no fields", ri)
		}
		if r.Request == nil {
			return harness.Fail("request %d has a nil packet", ri)
		}
		frame := r.Bytes()
		tx, unit, pdu, uerr := spec.Unframe(framing, frame)
		_ = tx
		if uerr != nil {
			return harness.Fail("request %d: frame %x is not a valid %s ADU: %v", ri, frame, framing, uerr)
		}
		pr, derr := spec.DecodeRequestPDU(pdu)
		if derr != nil || pr.FC != fc {
			return harness.Fail("request %d: frame %x is not an fc%d request (%v)", ri, frame, fc, derr)
		}
		if r.FunctionCode() != fc {
			return harness.Fail("request %d: FunctionCode()=%d want %d", ri, r.FunctionCode(), fc)
		}
		start, qty := int(pr.Addr), int(pr.Qty)
		if unit != r.UnitID || uint16(start) != r.StartAddress {
			return harness.Fail("request %d: descriptor says unit %d start %d, the encoded packet carries unit %d start %d", ri, r.UnitID, r.StartAddress, unit, start)
		}
		if qty < 1 || qty > limit {
			return harness.Fail("request %d: quantity %d outside 1..%d", ri, qty, limit)
		}
		lo, hi := 1<<30, -1
		for _, f := range r.Fields {
			got[f]++
			if (f.Type == modbus.FieldTypeCoil) != wantCoils {
				return harness.Fail("request %d (fc%d) contains field %q of the other kind (type %d)", ri, fc, f.Name, f.Type)
			}
			if f.ServerAddress != r.ServerAddress || f.UnitID != r.UnitID {
				return harness.Fail("request %d targets %q unit %d but contains field %q of %q unit %d", ri, r.ServerAddress, r.UnitID, f.Name, f.ServerAddress, f.UnitID)
			}
			a, e := int(f.Address), int(f.Address)+fgen.Size(f)
			if a < start || e > start+qty {
				return harness.Fail("request %d window [%d,%d) does not contain field %q span [%d,%d)", ri, start, start+qty, f.Name, a, e)
			}
			if a < lo {
				lo = a
			}
			if e > hi {
				hi = e
			}
		}
		if lo != start || hi != start+qty {
			return harness.Fail("request %d window [%d,%d) is not tight: its fields span [%d,%d)", ri, start, start+qty, lo, hi)
		}
		perGroup[groupKey{r.ServerAddress, r.UnitID}]++
	}
	for f, n := range want {
		if got[f] != n {
			return harness.Fail("field %+v defined %d time(s) appears %d time(s) in the requests", f, n, got[f])
		}
	}
	for f, n := range got {
		if want[f] != n {
			return harness.Fail("field %+v appears %d time(s) in the requests but was defined %d time(s) (as a valid field of the requested kind)", f, n, want[f])
		}
	}
	// never split a group that fits
	type ext struct{ lo, hi int }
	groups := map[groupKey]*ext{}
	for _, f := range relevant {
		k := groupKey{f.ServerAddress, f.UnitID}
		g := groups[k]
		if g == nil {
			g = &ext{1 << 30, -1}
			groups[k] = g
		}
		if int(f.Address) < g.lo {
			g.lo = int(f.Address)
		}
		if e := int(f.Address) + fgen.Size(f); e > g.hi {
			g.hi = e
		}
	}
	nearLimit := false
	for k, g := range groups {
		span := g.hi - g.lo
		if span >= limit-2 && span <= limit+2 {
			nearLimit = true
		}
		if span <= limit && perGroup[k] != 1 {
			return harness.Fail("fields of server %q unit %d span %d <= %d but were split into %d requests", k.server, k.unit, span, limit, perGroup[k])
		}
		if perGroup[k] == 0 {
			return harness.Fail("no request for server %q unit %d", k.server, k.unit)
		}
	}
	if len(reqs) >= 2 {
		labels = append(labels, "requests>=2")
	}
	if nearLimit {
		labels = append(labels, "group-near-limit")
	}
	dups := len(relevant) != len(want)
	if dups {
		labels = append(labels, "duplicates")
	}
	if crossing {
		labels = append(labels, "has-field-crossing-65536")
	}
	return harness.Result{NonTrivial: len(reqs) >= 2 || nearLimit || dups, Labels: append(labels, "success")}
}

var servers = []string{"a:502", "b_1:502", "tcp://c:5020", "b:502"}

func genBatch(t *rapid.T) batchCase {
	c := batchCase{Target: rapid.IntRange(0, 7).Draw(t, "target")}
	wantCoils := c.Target < 4
	limit := 125
	if wantCoils {
		limit = 2000
	}
	n := rapid.IntRange(0, 30).Draw(t, "nfields")
	if rapid.IntRange(0, 9).Draw(t, "many") == 0 {
		n = rapid.IntRange(30, 60).Draw(t, "nfields_many")
	}
	veryMany := rapid.IntRange(0, 19).Draw(t, "very_many") == 0
	nServers := rapid.IntRange(1, 4).Draw(t, "nservers")
	nUnits := rapid.IntRange(1, 3).Draw(t, "nunits")
	invalidRate := rapid.SampledFrom([]int{0, 0, 0, 20}).Draw(t, "invalid_rate")
	colliding := rapid.IntRange(0, 5).Draw(t, "colliding_names") == 0
	if veryMany {
		// hundreds of fields of one target at (mostly) distinct addresses, many of them revisited later: far more slots per group
		// than any size-dependent shortcut (a lazily built index, a fixed-size table) tolerates
		n = rapid.IntRange(150, 420).Draw(t, "nfields_very_many")
		nServers, nUnits, invalidRate, colliding = 1, 1, 0, false
	}
	bases := []int{0, 1, 65535, 65536 - limit, 65536 - limit - 1, 30000}
	base := rapid.SampledFrom(bases).Draw(t, "base")
	for i := 0; i < n; i++ {
		f := modbus.Field{Name: fmt.Sprintf("f%d", i)}
		f.ServerAddress = servers[rapid.IntRange(0, nServers-1).Draw(t, "server")]
		f.UnitID = []uint8{0, 255, 1, 128}[rapid.IntRange(0, nUnits-1).Draw(t, "unit")]
		if colliding {
			f.ServerAddress = rapid.SampledFrom([]string{"h:502", "h:5021", "h:50", "h:502_1"}).Draw(t, "cserver")
			f.UnitID = rapid.SampledFrom([]uint8{1, 11, 21, 2, 12, 211}).Draw(t, "cunit")
		}
		// kind: mostly the requested kind
		coil := wantCoils
		if rapid.IntRange(0, 5).Draw(t, "otherkind") == 0 {
			coil = !coil
		}
		if coil {
			f.Type = modbus.FieldTypeCoil
			if rapid.IntRange(0, 3).Draw(t, "coil_with_register_attributes") == 0 {
				// attributes that mean something for register fields only (a definition copied from a bit field, a struct reused): a coil
				// field is its address
				f.Bit, f.FromHighByte, f.Length = uint8(rapid.IntRange(1, 15).Draw(t, "coil_bit")), rapid.Bool().Draw(t, "coil_high"), uint8(rapid.IntRange(0, 4).Draw(t, "coil_len"))
			}
		} else {
			g := fgen.RegisterField(t, f.Name, 0, 0)
			f.Type, f.Bit, f.FromHighByte, f.ByteOrder, f.Length = g.Type, g.Bit, g.FromHighByte, g.ByteOrder, g.Length
			if f.Type == modbus.FieldTypeString && rapid.IntRange(0, 9).Draw(t, "hugestr") == 0 {
				f.Length = uint8(rapid.SampledFrom([]int{248, 249, 250, 251, 252, 255}).Draw(t, "hugelen"))
			}
		}
		// address: cluster offsets around the limit
		var off int
		mode := rapid.IntRange(0, 4).Draw(t, "offmode")
		if veryMany {
			mode = 5
		}
		switch mode {
		case 5:
			// walk through distinct addresses (stride 3, so multi-register fields overlap a little), revisiting earlier ones now and then
			off = 3 * i
			if i > 130 && rapid.IntRange(0, 3).Draw(t, "revisit") == 0 {
				off = 3 * rapid.IntRange(1, 129).Draw(t, "revisit_i")
			}
		case 0:
			off = rapid.SampledFrom([]int{0, 1, 2, limit - 4, limit - 3, limit - 2, limit - 1, limit, limit + 1, limit + 2, 2 * limit, 2*limit + 1}).Draw(t, "off_hot")
		case 1:
			off = rapid.IntRange(0, 12).Draw(t, "off_dense")
		case 2:
			off = rapid.IntRange(0, 3*limit).Draw(t, "off_any")
		case 3:
			off = rapid.IntRange(limit-8, limit+8).Draw(t, "off_limit")
		default:
			off = -base + rapid.IntRange(0, 65535).Draw(t, "abs")
		}
		a := base + off
		a = ((a % 65536) + 65536) % 65536
		f.Address = uint16(a)
		if invalidRate > 0 && rapid.IntRange(0, 99).Draw(t, "invalid") < invalidRate {
			switch rapid.IntRange(0, 4).Draw(t, "invalid_kind") {
			case 0:
				f.ServerAddress = ""
			case 1:
				f.Type = 0
			case 2:
				f.Type = modbus.FieldType(rapid.IntRange(15, 255).Draw(t, "badtype"))
			case 3:
				f.Bit = uint8(rapid.IntRange(16, 255).Draw(t, "badbit"))
			case 4:
				f.Type, f.Length = modbus.FieldTypeString, 0
			}
		}
		c.Fields = append(c.Fields, f)
		if rapid.IntRange(0, 9).Draw(t, "dup") == 0 {
			c.Fields = append(c.Fields, f)
		}
	}
	c.Caller = rapid.SampledFrom([]int{0, 0, 0, 1, 2, 3}).Draw(t, "caller")
	return c
}

var chkBatch = harness.Define("batching", genBatch, runBatch).Repeated(2)

func TestRandom(t *testing.T) {
	chkBatch.Rapid(t, harness.Pick(6000, 500000))
}

// TestTwoFieldGrid: two fields at every distance 0..2100 x types x 8 targets.
func TestTwoFieldGrid(t *testing.T) {
	types := []modbus.Field{
		{Type: modbus.FieldTypeUint16}, {Type: modbus.FieldTypeUint32}, {Type: modbus.FieldTypeFloat64},
		{Type: modbus.FieldTypeString, Length: 5}, {Type: modbus.FieldTypeString, Length: 250}, {Type: modbus.FieldTypeCoil},
	}
	step := harness.Pick(1, 1)
	bases := []int{0, 1000, 65536 - 2200}
	if !harness.Thorough() {
		bases = []int{1000}
	}
	idx := 0
	n := int64(0)
	for target := 0; target < 8; target++ {
		wantCoils := target < 4
		for _, base := range bases {
			for ti, ta := range types {
				if (ta.Type == modbus.FieldTypeCoil) != wantCoils {
					continue
				}
				for tj, tb := range types {
					if (tb.Type == modbus.FieldTypeCoil) != wantCoils {
						continue
					}
					if !harness.Thorough() && ti != tj && ti != 0 {
						continue
					}
					idx++
					if !harness.Mine(idx) {
						continue
					}
					maxd := 2100
					if !wantCoils {
						maxd = 300
					}
					for d := 0; d <= maxd; d += step {
						a, b := ta, tb
						a.Name, b.Name = "a", "b"
						a.ServerAddress, b.ServerAddress = "s:1", "s:1"
						a.Address, b.Address = uint16(base), uint16(base+d)
						n++
						// both orders of definition
						fields := []modbus.Field{a, b}
						if d%2 == 1 {
							fields = []modbus.Field{b, a}
						}
						if !chkBatch.EvalFast(t, batchCase{Fields: fields, Target: target}) {
							return
						}
					}
				}
			}
		}
	}
	harness.Exhaustive("batching", "two fields at every distance (0..300 registers / 0..2100 coils) x type pairs x 8 split targets", n)
}

var _ = sort.Ints

// TestLongLivedBuilder: builders that are asked again and again (around the wraps of 8- and 16-bit counters) and builders that grow
// by 255..65537 fields between two builds.
func TestLongLivedBuilder(t *testing.T) {
	base := []modbus.Field{
		{Name: "r0", ServerAddress: "a:502", UnitID: 1, Address: 10, Type: modbus.FieldTypeUint16},
		{Name: "r1", ServerAddress: "a:502", UnitID: 1, Address: 300, Type: modbus.FieldTypeUint32},
		{Name: "c0", ServerAddress: "a:502", UnitID: 1, Address: 5, Type: modbus.FieldTypeCoil},
		{Name: "c1", ServerAddress: "b:502", UnitID: 2, Address: 4000, Type: modbus.FieldTypeCoil},
		{Name: "r2", ServerAddress: "b:502", UnitID: 2, Address: 7, Type: modbus.FieldTypeInt16},
	}
	rebuilds := []int{258, 515}
	grows := []int{255, 256, 65535, 65536, 65537}
	if harness.Thorough() {
		rebuilds = []int{258, 515, 65538, 131075}
		grows = append(grows, 257, 4096, 131072)
	}
	idx := 0
	for target := 0; target < 8; target++ {
		for _, n := range rebuilds {
			idx++
			if harness.Mine(idx) && !chkBatch.Eval(t, batchCase{Fields: base, Target: target, Rebuilds: n}) {
				return
			}
		}
		for _, g := range grows {
			idx++
			if g > 60000 && target%3 != 0 && !harness.Thorough() {
				continue
			}
			if harness.Mine(idx) && !chkBatch.Eval(t, batchCase{Fields: base[:1+target%4], Target: target, Grow: g}) {
				return
			}
		}
	}
}
