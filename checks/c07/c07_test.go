// The library's go.mod says go 1.22: in a program whose main module says the same, timer channels are still buffered and Reset/Stop do
// not discard a tick that has fired (GODEBUG asynctimerchan=1). This module says go 1.23, so the check asks for the library's own setting.
//
//go:debug asynctimerchan=1
package c07

import (
	"bytes"
	"errors"
	"fmt"
	"strings"
	"testing"

	"github.com/aldas/go-modbus-client/packet"
	"pgregory.net/rapid"

	"verif/internal/cat"
	"verif/internal/cli"
	"verif/internal/device"
	"verif/internal/gen"
	"verif/internal/harness"
	"verif/internal/spec"
	"verif/internal/xport"
)

// (every case is written to disk before it runs: if the library kills the process - unbounded recursion, a fatal runtime error in a
// goroutine it started - the case that did it is the replay)
func TestMain(m *testing.M) {
	harness.EnableJournal()
	harness.Main(m)
}

func TestReplay(t *testing.T)  { harness.RunReplay(t) }
func TestRegress(t *testing.T) { harness.RunRegress(t) }

// fragCase: one request, the device's reply, and how the transport fragments it.
type fragCase struct {
	Kind    string   `json:"kind"`
	Req     spec.Req `json:"req"`
	DevSeed uint64   `json:"dev_seed"`
	ExcCode uint8    `json:"exc_code"` // != 0: the device answers with this exception
	// Chunks: lengths of successive data reads (sum = reply length); Gaps[i]: empty reads before chunk i
	Chunks  []int  `json:"chunks"`
	Gaps    []int  `json:"gaps"`
	GapKind string `json:"gap_kind"` // timeout | empty | eof0 (serial only)
	// EOF: 0 none, 1 io.EOF together with the last chunk, 2 io.EOF in a separate empty read after the last chunk (network clients)
	EOF int `json:"eof"`
	// Follow: a later call on the same client must not change the reply already returned
	Follow bool `json:"follow,omitempty"`
	// EchoShaped (RTU framings, FC03): the device's memory is prepared so that the legal reply BEGINS with the bytes of the request itself
	// (byte count == address high byte, first registers == rest of the request incl. its CRC, then the unit id): a reply that looks
	// like an echo of the request followed by a frame
	EchoShaped bool `json:"echo_shaped,omitempty"`
	// SlowLastMs (serial kinds, with Follow): the read that delivers the last chunk blocks this long - longer than the client's
	// total read timeout (200 ms in these cases). The reply is complete when that read returns, so the call succeeds, and the
	// later call on the same client must not be affected by the timeout that expired meanwhile.
	SlowLastMs int `json:"slow_last_ms,omitempty"`
	// Late: the reads that deliver these chunks (0-based) also report that their deadline has passed (the deadline ended the read
	// after the bytes had arrived; an io.Reader may return both): the bytes are part of the reply like any others
	Late []int `json:"late,omitempty"`
	// ExplicitParser: the client's configuration names the standard response parser explicitly (see cli.Scenario)
	ExplicitParser bool `json:"explicit_parser,omitempty"`
	// ShortTimeoutMs (serial kinds, replies delivered in at most three reads with at most two empty reads): the client's total read
	// timeout is this short (25 ms: less than the pause the serial client makes after writing). The reply is there at once, so it
	// must still be returned; because a starved machine can stall a goroutine for that long, a failure is believed only if the same
	// scenario fails three more times on its own.
	ShortTimeoutMs int `json:"short_timeout_ms,omitempty"`
	// Address: the form of the address given to Connect (network kinds; see cli.Scenario)
	Address string `json:"address,omitempty"`
	// Prior / PriorRepeat (network kinds): earlier calls on the same client that were given up - "cancelled" (context cancelled while
	// waiting for the first byte) or "eof" - PriorRepeat times in a row. The judged call gets a complete, correct reply and must return it.
	Prior       string `json:"prior,omitempty"`
	PriorRepeat int    `json:"prior_repeat,omitempty"`
}

// Replies computes the reply (and the normal reply length) from the device model.
func replies(c fragCase, reqBytes []byte) (reply []byte, normalLen int) {
	f := cli.FramingOf(c.Kind)
	d := device.New(c.DevSeed)
	if c.EchoShaped && f == spec.RTU && c.Req.FC == 3 && len(reqBytes) == 8 && c.Req.Qty >= 3 {
		regs := []byte{reqBytes[3], reqBytes[4], reqBytes[5], reqBytes[6], reqBytes[7], reqBytes[0]}
		d.Answer(f, spec.EncodeRequest(f, spec.Req{FC: 16, Unit: c.Req.Unit, Addr: c.Req.Addr, Qty: 3, ByteCount: 6, Payload: regs}))
	}
	normal := d.Answer(f, reqBytes)
	if c.ExcCode != 0 {
		d2 := device.New(c.DevSeed)
		d2.ForceException = c.ExcCode
		return d2.Answer(f, reqBytes), len(normal)
	}
	return normal, len(normal)
}

func events(c fragCase) []xport.Event {
	var ev []xport.Event
	gk := c.GapKind
	if gk == "" {
		gk = "timeout"
	}
	late := map[int]bool{}
	for _, i := range c.Late {
		late[i] = true
	}
	for i, n := range c.Chunks {
		g := 0
		if i < len(c.Gaps) {
			g = c.Gaps[i]
		}
		for k := 0; k < g; k++ {
			if gk == "eof0" {
				ev = append(ev, xport.Event{Kind: "eof", N: 0})
			} else {
				ev = append(ev, xport.Event{Kind: gk})
			}
		}
		if i == len(c.Chunks)-1 && c.EOF == 1 {
			ev = append(ev, xport.Event{Kind: "eof", N: n})
		} else if i == len(c.Chunks)-1 && c.SlowLastMs > 0 {
			ev = append(ev, xport.Event{Kind: "data", N: n, Ms: c.SlowLastMs})
		} else if late[i] {
			ev = append(ev, xport.Event{Kind: "timeout", N: n})
		} else {
			ev = append(ev, xport.Event{Kind: "data", N: n})
		}
	}
	if c.EOF == 2 {
		ev = append(ev, xport.Event{Kind: "eof", N: 0})
	}
	return ev
}

type prepared struct {
	sc        cli.Scenario
	reply     []byte
	affected  bool
	tolerate  bool // open finding lists "truncated-success"
	predicted cli.Stop
	known     bool
}

func prepare(c fragCase) (prepared, error) {
	f := cli.FramingOf(c.Kind)
	q, err := cat.NewRequest(f, c.Req)
	if err != nil {
		return prepared{}, err
	}
	reply, normalLen := replies(c, q.Bytes())
	sum := 0
	for _, n := range c.Chunks {
		sum += n
	}
	if sum != len(reply) {
		return prepared{}, fmt.Errorf("harness: chunks sum to %d, reply has %d bytes", sum, len(reply))
	}
	ev := events(c)
	p := prepared{reply: reply}
	E, known := cli.LibExpected(f, c.Req, normalLen)
	p.known = known
	p.predicted = cli.Model(c.Kind, reply, ev, E)
	p.affected = known && (p.predicted.Timeout || p.predicted.Total != len(reply))
	// (no later call where an open finding makes the client wait for more bytes than the reply has: it would only end by the read timeout)
	p.sc = cli.Scenario{Kind: c.Kind, Req: c.Req, Stream: reply, Events: ev, Follow: c.Follow && E <= normalLen, ExplicitParser: c.ExplicitParser, Address: c.Address, Prior: c.Prior, PriorRepeat: c.PriorRepeat}
	if p.affected && p.predicted.Timeout {
		p.sc.ReadTimeoutMs = 25
	} else if c.SlowLastMs > 0 {
		p.sc.ReadTimeoutMs = 200
	} else if c.ShortTimeoutMs > 0 && cli.IsSerial(c.Kind) {
		p.sc.ReadTimeoutMs = c.ShortTimeoutMs
		p.sc.Follow = false
	}
	return p, nil
}

// errChain names the types of an error and of everything it unwraps to.
func errChain(err error) string {
	var parts []string
	for e := err; e != nil && len(parts) < 8; e = errors.Unwrap(e) {
		parts = append(parts, fmt.Sprintf("%T", e))
	}
	return strings.Join(parts, " -> ")
}

func judge(c fragCase, p prepared, o cli.Outcome) harness.Result {
	f := cli.FramingOf(c.Kind)
	labels := []string{"kind:" + c.Kind, fmt.Sprintf("fc%d", c.Req.FC), fmt.Sprintf("chunks:%d", min(len(c.Chunks), 4))}
	if c.ExcCode != 0 {
		labels = append(labels, "exception-reply")
	}
	if c.EOF != 0 {
		labels = append(labels, "eof")
	}
	gaps := 0
	for _, g := range c.Gaps {
		gaps += g
	}
	if gaps > 0 {
		labels = append(labels, "empty-reads")
	}
	if rb := spec.EncodeRequest(f, c.Req); len(p.reply) > len(rb) && bytes.HasPrefix(p.reply, rb) {
		labels = append(labels, "reply-begins-with-the-request-bytes")
	}
	if c.SlowLastMs > 0 {
		labels = append(labels, "last-read-blocks-beyond-timeout")
	}
	if c.ShortTimeoutMs > 0 {
		labels = append(labels, "serial-read-timeout-25ms")
	}
	if c.ExplicitParser {
		labels = append(labels, "explicit-parser")
	}
	if c.Prior != "" {
		labels = append(labels, fmt.Sprintf("after-%d+-abandoned-calls", min(c.PriorRepeat/8*8, 16)))
	}
	if o.PriorHung {
		return harness.Fail("an earlier call (%s) on the same client did not return", c.Prior)
	}
	if i := strings.Index(c.Address, "://"); i > 0 {
		labels = append(labels, "address:"+c.Address[:i])
	}
	if o.Panic != nil {
		return harness.Fail("client panicked: %v", o.Panic)
	}
	if o.Hung {
		return harness.Fail("Do did not return within %v", cli.HangCeiling)
	}
	if len(o.Writes) != 1 || !bytes.Equal(o.Writes[0], o.ReqBytes) {
		return harness.Fail("transport saw writes %x, want exactly one write of %x", o.Writes, o.ReqBytes)
	}
	var excT *packet.ErrorResponseTCP
	var excR *packet.ErrorResponseRTU
	isExc := errors.As(o.Err, &excT) || errors.As(o.Err, &excR)
	if p.affected {
		// open expected-length finding: the schedule has a read boundary where the library's formula stops early / never
		// stops. It must still fail cleanly (unless the finding lists truncated success).
		if o.Err == nil {
			if bytes.Equal(o.Resp.Bytes(), p.reply) && !p.predicted.Timeout {
				// fine: behaviour inside the region improved
			} else if !tolerates(f, c.Req) {
				return harness.Fail("affected by known expected-length finding, but the call SUCCEEDED with a value parsed from %d of %d reply bytes: %x", o.Consumed, len(p.reply), o.Resp.Bytes())
			}
		} else if isExc && c.ExcCode == 0 {
			return harness.Fail("affected by known expected-length finding, but a normal reply was reported as a device exception: %v", o.Err)
		}
		return harness.Result{Excluded: cli.KeyExpectedLen, Labels: append(labels, "known:expected-length")}
	}
	reply := p.reply
	if c.ExcCode != 0 {
		if !cat.IsNilValue(o.Resp) || o.Err == nil {
			return harness.Fail("exception reply %x: got response %v err %v, want (nil, typed exception)", reply, o.Resp, o.Err)
		}
		if f == spec.TCP {
			if excT == nil {
				return harness.Fail("exception reply %x: error %T %q does not unwrap to *ErrorResponseTCP", reply, o.Err, o.Err)
			}
			if excT.Code != c.ExcCode || excT.Function != c.Req.FC || excT.UnitID != c.Req.Unit || excT.TransactionID != c.Req.Tx {
				return harness.Fail("exception reply %x reported as %+v", reply, *excT)
			}
		} else {
			if excR == nil {
				return harness.Fail("exception reply %x: error %T %q does not unwrap to *ErrorResponseRTU", reply, o.Err, o.Err)
			}
			if excR.Code != c.ExcCode || excR.Function != c.Req.FC || excR.UnitID != c.Req.Unit {
				return harness.Fail("exception reply %x reported as %+v", reply, *excR)
			}
		}
		// "no matter how the transport splits the reply": the error for this delivery is built like the error for the same reply
		// delivered whole in one read (same chain of error types down to the typed exception) - network clients
		if !cli.IsSerial(c.Kind) && (len(c.Chunks) > 1 || c.EOF != 0 || gaps > 0 || len(c.Late) > 0) {
			ref := cli.Run(cli.Scenario{Kind: c.Kind, Req: c.Req, Stream: reply, Events: []xport.Event{{Kind: "data", N: len(reply)}}, ExplicitParser: c.ExplicitParser})
			if ref.Err != nil && !ref.Hung && ref.Panic == nil {
				if a, b := errChain(o.Err), errChain(ref.Err); a != b {
					return harness.Fail("exception reply %x delivered as chunks %v (gaps %v, eof %d, late %v) is reported as %s; the same reply delivered in one read is reported as %s", reply, c.Chunks, c.Gaps, c.EOF, c.Late, a, b)
				}
				labels = append(labels, "exception-compared-with-whole-delivery")
			}
		}
		return harness.Result{NonTrivial: len(c.Chunks) >= 2, Labels: labels}
	}
	if o.Err != nil {
		return harness.Fail("complete correct reply %x delivered as chunks %v (gaps %v %s, eof %d) but Do failed: %v (client consumed %d bytes)", reply, c.Chunks, c.Gaps, c.GapKind, c.EOF, o.Err, o.Consumed)
	}
	if cat.IsNilValue(o.Resp) {
		return harness.Fail("Do returned (nil, nil)")
	}
	if got, want := cat.GoType(o.Resp), cat.TypeName(f, c.Req.FC, false); got != want {
		return harness.Fail("response type %s, want %s", got, want)
	}
	if o.RespAtReturn != nil {
		labels = append(labels, "followed-by-later-call")
		if !bytes.Equal(o.RespAtReturn, reply) {
			return harness.Fail("response re-encodes to %x, the reply was %x (chunks %v)", o.RespAtReturn, reply, c.Chunks)
		}
		if o.FollowErr != nil {
			return harness.Fail("the call succeeded, but a later call on the same client, answered with a complete correct reply in one read, failed: %v", o.FollowErr)
		}
		if !bytes.Equal(o.RespAfterFollow, reply) {
			return harness.Fail("the returned reply %x reads %x after a later call on the same client received another reply (later call: %v)", reply, o.RespAfterFollow, o.FollowErr)
		}
		return harness.Result{NonTrivial: len(c.Chunks) >= 2, Labels: labels}
	}
	if !bytes.Equal(o.Resp.Bytes(), reply) {
		return harness.Fail("response re-encodes to %x, the reply was %x (chunks %v)", o.Resp.Bytes(), reply, c.Chunks)
	}
	return harness.Result{NonTrivial: len(c.Chunks) >= 2, Labels: labels}
}

func tolerates(f spec.Framing, r spec.Req) bool {
	for _, fd := range harness.OpenFindings(cli.KeyExpectedLen) {
		if fd.Params["framing"] == f.String() && fd.Params["truncated-success"] == "yes" {
			for _, s := range []string{fd.Params["fc"]} {
				if s == fmt.Sprint(r.FC) {
					return true
				}
			}
		}
	}
	return false
}

func runFrag(c fragCase) harness.Result {
	p, err := prepare(c)
	if err != nil {
		return harness.Fail("%v", err)
	}
	return judge(c, p, cli.Run(p.sc))
}

func genFrag(t *rapid.T, kinds []string) fragCase {
	c := fragCase{Kind: rapid.SampledFrom(kinds).Draw(t, "kind")}
	fc := gen.FC(t)
	c.Req = gen.LegalReq(t, fc, true)
	c.DevSeed = rapid.Uint64().Draw(t, "dev_seed")
	if rapid.IntRange(0, 5).Draw(t, "exception") == 0 {
		c.ExcCode = rapid.SampledFrom([]uint8{1, 2, 3, 4, 5, 6, 8, 10, 11, 0x7F, 0xFF}).Draw(t, "exc_code")
	}
	f := cli.FramingOf(c.Kind)
	if f == spec.RTU && rapid.IntRange(0, 9).Draw(t, "echo_shaped") == 0 {
		q := rapid.IntRange(3, 125).Draw(t, "echo_qty")
		c.EchoShaped, c.ExcCode = true, 0
		c.Req = spec.Req{FC: 3, Unit: rapid.Uint8().Draw(t, "echo_unit"), Addr: uint16(2*q)<<8 | uint16(rapid.Uint8().Draw(t, "echo_addr_lo")), Qty: uint16(q)}
	}
	q, err := cat.NewRequest(f, c.Req)
	if err != nil {
		// legal request the constructor refuses (fc23 read quantity 125): make it acceptable
		c.Req.Qty = 124
		q, _ = cat.NewRequest(f, c.Req)
	}
	reply, _ := replies(c, q.Bytes())
	c.Chunks = gen.CutSet(t, "cuts", len(reply))
	for range c.Chunks {
		g := 0
		if rapid.IntRange(0, 3).Draw(t, "gap") == 0 {
			g = rapid.IntRange(1, 3).Draw(t, "gap_n")
		}
		c.Gaps = append(c.Gaps, g)
	}
	if cli.IsSerial(c.Kind) {
		c.GapKind = rapid.SampledFrom([]string{"empty", "timeout", "eof0"}).Draw(t, "gap_kind")
	} else {
		c.GapKind = "timeout"
		c.EOF = rapid.SampledFrom([]int{0, 0, 0, 1, 2}).Draw(t, "eof")
	}
	c.ExplicitParser = !cli.IsSerial(c.Kind) && rapid.IntRange(0, 3).Draw(t, "explicit_parser") == 0
	if !cli.IsSerial(c.Kind) {
		c.Address = rapid.SampledFrom(cli.Addresses).Draw(t, "address")
		if rapid.IntRange(0, 4).Draw(t, "after_abandoned_calls") == 0 {
			c.Prior = rapid.SampledFrom([]string{"cancelled", "cancelled", "eof"}).Draw(t, "prior")
			c.PriorRepeat = rapid.SampledFrom([]int{1, 3, 8, 12, 16}).Draw(t, "prior_repeat")
		}
	}
	if cli.IsSerial(c.Kind) && c.ExcCode == 0 && rapid.IntRange(0, 7).Draw(t, "slow_last") == 0 {
		c.SlowLastMs = 260
	}
	if cli.IsSerial(c.Kind) && c.SlowLastMs == 0 && len(c.Chunks) <= 3 && rapid.IntRange(0, 3).Draw(t, "short_timeout") == 0 {
		gaps := 0
		for _, g := range c.Gaps {
			gaps += g
		}
		if gaps <= 2 {
			c.ShortTimeoutMs = 25
		}
	}
	if rapid.IntRange(0, 4).Draw(t, "late_reads") == 0 {
		for i := range c.Chunks {
			if rapid.IntRange(0, 2).Draw(t, "late") == 0 {
				c.Late = append(c.Late, i)
			}
		}
	}
	c.Follow = c.SlowLastMs > 0 || c.ExcCode == 0 && rapid.IntRange(0, 3).Draw(t, "follow") == 0
	return c
}

var chkFrag = harness.Define("fragmented-reply", func(t *rapid.T) fragCase { return genFrag(t, []string{cli.TCP, cli.RTUNet}) }, runFrag)

// serial scenarios are executed in concurrent batches (fixed 30 ms sleep inside the serial client)
type batchCase struct {
	Cases []fragCase `json:"cases"`
}

var chkSerial = harness.Define("fragmented-reply-serial-batch",
	func(t *rapid.T) batchCase {
		n := harness.Pick(32, 64)
		var b batchCase
		for i := 0; i < n; i++ {
			b.Cases = append(b.Cases, genFrag(t, []string{cli.Serial, cli.SerialFlush}))
		}
		return b
	},
	func(b batchCase) harness.Result {
		ps := make([]prepared, len(b.Cases))
		scs := make([]cli.Scenario, len(b.Cases))
		for i, c := range b.Cases {
			p, err := prepare(c)
			if err != nil {
				return harness.Fail("%v", err)
			}
			ps[i], scs[i] = p, p.sc
		}
		outs := cli.RunMany(scs)
		res := harness.Result{NonTrivial: true, Weight: int64(len(b.Cases))}
		lab := map[string]bool{}
		for i, c := range b.Cases {
			r := judge(c, ps[i], outs[i])
			for again := 0; again < 3 && r.Err != nil && c.ShortTimeoutMs > 0; again++ {
				r = judge(c, ps[i], cli.Run(ps[i].sc)) // (on its own, without 63 other scenarios competing for the processor)
			}
			if r.Err != nil {
				return harness.Fail("serial scenario %d (%+v): %v", i, c, r.Err)
			}
			for _, l := range r.Labels {
				lab[l] = true
			}
			if r.Excluded != "" {
				res.Excluded = r.Excluded
			}
		}
		for l := range lab {
			res.Labels = append(res.Labels, l)
		}
		return res
	})

func TestFindings(t *testing.T) {
	harness.Probe(t, cli.KeyExpectedLen, func(fd harness.Finding) (bool, string) {
		// witness: reply cut exactly at the library's expected length (delta<0), or delivered whole without EOF (delta>0)
		f := spec.TCP
		kind := cli.TCP
		if fd.Params["framing"] == "rtu" {
			f, kind = spec.RTU, cli.RTUNet
		}
		var fc uint8
		fmt.Sscanf(fd.Params["fc"], "%d", &fc)
		r := spec.Req{FC: fc, Unit: 1, Tx: 5, Addr: 10, Qty: 2, Value: 0xFF00, WAddr: 3, WQty: 1, Payload: []byte{0, 1}, ByteCount: 2}
		c := fragCase{Kind: kind, Req: r, DevSeed: 42}
		q, err := cat.NewRequest(f, r)
		if err != nil {
			return false, ""
		}
		reply, normalLen := replies(c, q.Bytes())
		E, _ := cli.LibExpected(f, r, normalLen)
		if got := q.ExpectedResponseLength(); got == normalLen && fc != 17 {
			return false, ""
		}
		if E < len(reply) {
			c.Chunks = []int{E, len(reply) - E}
			if E == 0 {
				return false, ""
			}
		} else {
			c.Chunks = []int{len(reply)}
		}
		p, err := prepare(c)
		if err != nil || !p.affected {
			return false, ""
		}
		o := cli.Run(p.sc)
		ok := o.Err != nil || !bytes.Equal(o.Resp.Bytes(), reply)
		return ok, fmt.Sprintf("ExpectedResponseLength()=%d, true reply length %d; reply as chunks %v -> err=%v", q.ExpectedResponseLength(), normalLen, c.Chunks, o.Err)
	})
}

func TestRandom(t *testing.T) {
	chkFrag.Rapid(t, harness.Pick(4000, 100000))
	chkSerial.Rapid(t, harness.Pick(4, 100))
}

// TestCutSweeps: for every function x client kind (network) x reply sizes: all single cuts; all pairs for replies <= 40 bytes;
// all cut sets for replies <= 14 bytes.
func TestCutSweeps(t *testing.T) {
	idx := 0
	n := int64(0)
	for _, kind := range []string{cli.TCP, cli.RTUNet} {
		for _, fc := range spec.Functions {
			for size := 0; size < 3; size++ {
				for _, exc := range []uint8{0, 2} {
					if exc != 0 && size > 0 {
						continue
					}
					r := sized(fc, size)
					c := fragCase{Kind: kind, Req: r, DevSeed: uint64(fc)*31 + uint64(size) + harness.Seed(), ExcCode: exc, GapKind: "timeout"}
					q, err := cat.NewRequest(cli.FramingOf(kind), r)
					if err != nil {
						t.Fatalf("constructor: %v", err)
					}
					reply, _ := replies(c, q.Bytes())
					L := len(reply)
					var sets [][]int
					for a := 1; a < L; a++ {
						sets = append(sets, []int{a})
					}
					if L <= 40 || harness.Thorough() && L <= 64 {
						for a := 1; a < L; a++ {
							for b := a + 1; b < L; b++ {
								sets = append(sets, []int{a, b})
							}
						}
					}
					if L <= 14 {
						for m := 1; m < 1<<uint(L-1); m++ {
							var cs []int
							for i := 0; i < L-1; i++ {
								if m&(1<<uint(i)) != 0 {
									cs = append(cs, i+1)
								}
							}
							if len(cs) > 2 {
								sets = append(sets, cs)
							}
						}
					}
					for _, cs := range sets {
						idx++
						if !harness.Mine(idx) {
							continue
						}
						cc := c
						cc.Chunks = gen.ChunksFromCuts(L, cs)
						cc.Gaps = make([]int, len(cc.Chunks))
						if idx%3 == 0 {
							cc.Gaps[len(cc.Gaps)-1] = 1
						}
						if idx%5 == 0 {
							cc.EOF = 1 + idx%2
						}
						n++
						if !chkFrag.EvalFast(t, cc) {
							return
						}
					}
				}
			}
		}
	}
	harness.Exhaustive("fragmented-reply", "network clients: every function x {tcp,rtu} x 3 reply sizes (+ exception reply): all single cuts, all cut pairs for replies <= 40 bytes, all cut sets for replies <= 14 bytes", n)
}

// sized returns a legal request whose reply is small (0), medium (1) or maximal (2).
func sized(fc uint8, size int) spec.Req {
	r := spec.Req{FC: fc, Unit: 17, Tx: 0x1234, Addr: 100}
	q := []uint16{1, 20, 125}[size]
	switch fc {
	case 1, 2:
		r.Qty = []uint16{3, 100, 2000}[size]
	case 3, 4:
		r.Qty = q
	case 5:
		r.Value = 0xFF00
	case 6:
		r.Value = 0xBEEF
	case 15:
		r.Qty = 10
		r.Payload, r.ByteCount = []byte{0x55, 0x01}, 2
	case 16:
		r.Qty = 2
		r.Payload, r.ByteCount = []byte{1, 2, 3, 4}, 4
	case 23:
		r.Qty = []uint16{1, 20, 124}[size]
		r.WAddr, r.WQty = 7, 1
		r.Payload, r.ByteCount = []byte{9, 9}, 2
	}
	return r
}

// ---------------------------------------------------------------------------
// the same property on a client that has been in use for a long time: one Client value makes N calls (what a polling program does for
// days); every call gets a complete, correct reply in some fragmentation and must return it - the 1st like the 256th, the 4000th and
// the 65537th

type agedCase struct {
	Kind string `json:"kind"`
	// N calls are made; call i uses Cases[i % len(Cases)]
	N     int        `json:"n"`
	Cases []fragCase `json:"cases"`
}

func runAged(c agedCase) harness.Result {
	if len(c.Cases) == 0 {
		return harness.Result{}
	}
	sess, err := cli.NewSession(c.Kind, 0, false)
	if err != nil {
		return harness.Fail("harness: %v", err)
	}
	defer sess.Close()
	preps := make([]prepared, len(c.Cases))
	for i, fc := range c.Cases {
		fc.Kind = c.Kind
		c.Cases[i] = fc
		p, err := prepare(fc)
		if err != nil {
			return harness.Fail("harness: %v", err)
		}
		preps[i] = p
	}
	emptyReads, dataReads := 0, 0
	for i := 0; i < c.N; i++ {
		k := i % len(c.Cases)
		fc, p := c.Cases[k], preps[k]
		o := sess.Call(fc.Req, p.sc.Stream, p.sc.Events)
		for _, r := range o.Reads {
			if r.N > 0 {
				dataReads++
			} else {
				emptyReads++
			}
		}
		if r := judge(fc, p, o); r.Err != nil {
			return harness.Fail("call #%d on one long-lived %s client (%d empty and %d data reads so far): %v; this call: %+v", i+1, c.Kind, emptyReads, dataReads, r.Err, fc)
		}
		if i%3 == 0 && c.Kind == cli.TCP {
			// the same request once more under the next transaction id (polling): the reply differs from the previous one in the
			// transaction id only, and must come back as itself
			twin := fc
			twin.Req.Tx = fc.Req.Tx + 1
			if tp, err := prepare(twin); err == nil && !(tp.affected && tp.predicted.Timeout) {
				to := sess.Call(twin.Req, tp.sc.Stream, tp.sc.Events)
				if r := judge(twin, tp, to); r.Err != nil {
					return harness.Fail("call #%d on one long-lived %s client, the same request as the call before under the next transaction id: %v; this call: %+v", i+1, c.Kind, r.Err, twin)
				}
			}
		}
	}
	labels := []string{"kind:" + c.Kind, fmt.Sprintf("calls-on-one-client:%d", c.N)}
	if emptyReads > dataReads+4000 {
		labels = append(labels, "empty-reads-outnumber-data-reads-by>4000")
	}
	return harness.Result{NonTrivial: c.N >= 300, Labels: labels, Weight: int64(c.N)}
}

func genAged(t *rapid.T, sizes []int) agedCase {
	c := agedCase{Kind: rapid.SampledFrom([]string{cli.TCP, cli.RTUNet}).Draw(t, "kind"), N: rapid.SampledFrom(sizes).Draw(t, "n")}
	k := rapid.IntRange(3, 24).Draw(t, "ncases")
	manyGaps := rapid.Bool().Draw(t, "many_gaps")
	for len(c.Cases) < k {
		fc := genFrag(t, []string{c.Kind})
		fc.Follow, fc.SlowLastMs, fc.Prior, fc.PriorRepeat, fc.Address, fc.EOF = false, 0, "", 0, "", 0
		if manyGaps {
			for i := range fc.Gaps {
				fc.Gaps[i] = 2 + i%2
			}
		}
		p, err := prepare(fc)
		if err != nil || (p.affected && p.predicted.Timeout) {
			continue // (cases that end by the read timeout under a listed finding would make the run slow)
		}
		c.Cases = append(c.Cases, fc)
	}
	return c
}

var chkAged = harness.Define("fragmented-reply-long-lived-client", func(t *rapid.T) agedCase { return genAged(t, []int{300, 1100, 4200, 13000}) }, runAged)

func TestLongLivedClient(t *testing.T) {
	chkAged.Rapid(t, harness.Pick(6, 40))
	if harness.Thorough() {
		// past the wrap of a 16-bit counter
		big := harness.Define("fragmented-reply-long-lived-client", func(t *rapid.T) agedCase { return genAged(t, []int{66000, 140000}) }, runAged)
		big.Rapid(t, 2)
	}
}
