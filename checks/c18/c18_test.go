package c18

import (
	"context"
	"errors"
	"fmt"
	"testing"
	"time"

	"github.com/aldas/go-modbus-client/packet"
	"github.com/aldas/go-modbus-client/server"
	"pgregory.net/rapid"

	"verif/internal/cat"
	"verif/internal/gen"
	"verif/internal/harness"
	"verif/internal/hostile"
	"verif/internal/spec"
	"verif/internal/srv"
	"verif/internal/xport"
)

func TestMain(m *testing.M) { harness.Main(m) }

func TestReplay(t *testing.T)  { harness.RunReplay(t) }
func TestRegress(t *testing.T) { harness.RunRegress(t) }

func classify(d []byte, allow bool) (n int, err error, panicked interface{}) {
	defer func() {
		if p := recover(); p != nil {
			panicked = p
		}
	}()
	n, err = packet.LooksLikeModbusTCP(d, allow)
	return
}

func parse(d []byte) (v packet.Request, err error, panicked interface{}) {
	defer func() {
		if p := recover(); p != nil {
			panicked = p
		}
	}()
	v, err = packet.ParseTCPRequest(d)
	return
}

// validException: 9-byte ADU, protocol 0, length 3, high bit set in the function byte.
func validException(b []byte) bool {
	return len(b) == 9 && b[2] == 0 && b[3] == 0 && b[4] == 0 && b[5] == 3 && b[7]&0x80 != 0
}

// ---------------------------------------------------------------------------
// 1. encodable frames x every prefix

type prefixCase struct {
	Req spec.Req `json:"req"`
	// Proto: value left in the request's exported MBAPHeader.ProtocolID field before it is encoded; whatever a caller leaves there, the
	// frame the library encodes is one its own classifier accepts
	Proto uint16 `json:"proto,omitempty"`
}

func runPrefix(c prefixCase) harness.Result {
	q, err := cat.NewRequest(spec.TCP, c.Req)
	if err != nil {
		return harness.Result{Labels: []string{"constructor-rejected"}}
	}
	if c.Proto != 0 {
		cat.SetProtocolID(q, c.Proto)
	}
	frame := q.Bytes()
	if len(frame) < 8 {
		return harness.Fail("encoded frame shorter than 8 bytes: %x", frame)
	}
	trueLen := 6 + (int(frame[4])<<8 | int(frame[5]))
	if trueLen != len(frame) {
		return harness.Fail("encoder: length field says %d, frame has %d bytes", trueLen, len(frame))
	}
	for _, allow := range []bool{false, true} {
		for l := 0; l <= len(frame); l++ {
			buf := make([]byte, l)
			copy(buf, frame[:l])
			n, err, p := classify(buf, allow)
			if p != nil {
				return harness.Fail("classifier panicked on prefix %d of %x: %v", l, frame, p)
			}
			if l < 8 {
				if err != packet.ErrTCPDataTooShort || n != 0 {
					return harness.Fail("prefix of %d bytes of %x (allow=%v): got (%d, %v), want (0, ErrTCPDataTooShort)", l, frame, allow, n, err)
				}
				continue
			}
			if err != nil || n != trueLen {
				return harness.Fail("prefix of %d bytes of the encodable fc%d frame %x (allow=%v): classifier says (%d, %v), want (%d, nil)", l, c.Req.FC, frame, allow, n, err, trueLen)
			}
		}
	}
	// whole frame is parseable by the dispatcher (or refused with a valid exception)
	v, perr, p := parse(append([]byte(nil), frame...))
	if p != nil {
		return harness.Fail("ParseTCPRequest panicked on %x: %v", frame, p)
	}
	if perr != nil {
		var pe *packet.ErrorParseTCP
		if !errors.As(perr, &pe) || !validException(pe.Bytes()) {
			return harness.Fail("dispatcher refused classifier-accepted frame %x with %T %v which does not encode to a valid exception", frame, perr, perr)
		}
	} else if v == nil {
		return harness.Fail("dispatcher returned (nil, nil) for %x", frame)
	}
	labels := []string{fmt.Sprintf("fc%d", c.Req.FC)}
	if len(frame) >= 8 {
		if crc := spec.RefCRC16(frame[:6]); frame[6] == byte(crc) && frame[7] == byte(crc>>8) {
			labels = append(labels, "tcp-header-is-also-a-crc-valid-rtu-frame")
		}
	}
	return harness.Result{NonTrivial: true, Labels: labels, Weight: int64(2 * (len(frame) + 1))}
}

var chkPrefix = harness.Define("classifier-prefixes",
	func(t *rapid.T) prefixCase {
		fc := gen.FC(t)
		r := gen.LegalReq(t, fc, false)
		// also arguments at/over the constructor limits (accepted ones matter)
		if fc == 16 && rapid.IntRange(0, 9).Draw(t, "lim") == 0 {
			r.Payload = gen.Payload(t, "p", 248)
		}
		c := prefixCase{Req: r}
		if rapid.IntRange(0, 3).Draw(t, "with_proto") == 0 {
			c.Proto = rapid.SampledFrom([]uint16{1, 0x0100, 0xFFFF, 0x4D42}).Draw(t, "proto")
		}
		return c
	}, runPrefix)

// ---------------------------------------------------------------------------
// 2. headers

type headerCase struct {
	Proto  uint16 `json:"proto"`
	Length uint16 `json:"length"`
	Allow  bool   `json:"allow"`
	// Bodies: complete accepted headers to full frames and run the dispatcher (sampled)
	Bodies bool   `json:"bodies"`
	Seed   uint64 `json:"seed"`
}

func validBody(fc uint8, n int, seed uint64) []byte {
	// a legal request body of function fc if one with total frame length n exists
	s := seed
	r := spec.Req{FC: fc, Addr: uint16(harness.SplitMix64(&s))}
	switch fc {
	case 1, 2:
		r.Qty = 1 + uint16(harness.SplitMix64(&s)%2000)
	case 3, 4:
		r.Qty = 1 + uint16(harness.SplitMix64(&s)%125)
	case 5:
		r.Value = 0xFF00
	case 6:
		r.Value = uint16(harness.SplitMix64(&s))
	case 15:
		nb := n - 13
		if nb < 1 || nb > 246 {
			return nil
		}
		r.Qty = uint16(nb * 8)
		r.Payload, r.ByteCount = harness.Bytes(s, nb), uint8(nb)
	case 16:
		nb := n - 13
		if nb < 2 || nb > 246 || nb%2 != 0 {
			return nil
		}
		r.Qty = uint16(nb / 2)
		r.Payload, r.ByteCount = harness.Bytes(s, nb), uint8(nb)
	case 17:
	case 23:
		nb := n - 17
		if nb < 2 || nb > 242 || nb%2 != 0 {
			return nil
		}
		r.Qty, r.WQty = 1+uint16(harness.SplitMix64(&s)%125), uint16(nb/2)
		r.Payload, r.ByteCount = harness.Bytes(s, nb), uint8(nb)
	default:
		return nil
	}
	f := spec.EncodeRequest(spec.TCP, r)
	if len(f) != n {
		return nil
	}
	return f[8:]
}

// prefixBody: the first n-8 body bytes of a large valid request of function fc (in-range quantities, remainder cut off or
// zero padded): the shape a header-consistent truncation has.
func prefixBody(fc uint8, n int, seed uint64) []byte {
	if !spec.IsSupported(fc) || n < 8 || n > 400 {
		return nil
	}
	s := seed
	r := spec.Req{FC: fc, Addr: uint16(harness.SplitMix64(&s))}
	switch fc {
	case 1, 2:
		r.Qty = 100
	case 3, 4:
		r.Qty = 100
	case 5:
		r.Value = 0xFF00
	case 6:
		r.Value = 7
	case 15:
		r.Qty = 1968
		r.Payload, r.ByteCount = harness.Bytes(s, 246), 246
	case 16:
		r.Qty = 123
		r.Payload, r.ByteCount = harness.Bytes(s, 246), 246
	case 23:
		r.Qty, r.WQty = 100, 121
		r.Payload, r.ByteCount = harness.Bytes(s, 242), 242
	}
	f := spec.EncodeRequest(spec.TCP, r)
	body := f[8:]
	out := make([]byte, n-8)
	copy(out, body)
	return out
}

func runHeader(c headerCase) harness.Result {
	hdr := []byte{0, 0, byte(c.Proto >> 8), byte(c.Proto), byte(c.Length >> 8), byte(c.Length), 0, 0}
	s := c.Seed ^ uint64(c.Length)<<16 ^ uint64(c.Proto)
	accepted := 0
	var heldErr *packet.ErrorParseTCP
	var heldEnc, heldFrame []byte
	var heldCls *packet.ErrorParseTCP
	var heldClsEnc, heldClsHdr []byte
	for fc := 0; fc < 256; fc++ {
		v := harness.SplitMix64(&s)
		hdr[0], hdr[1], hdr[6], hdr[7] = byte(v), byte(v>>8), byte(v>>16), byte(fc)
		tx := uint16(hdr[0])<<8 | uint16(hdr[1])
		n, err, p := classify(hdr, c.Allow)
		if p != nil {
			return harness.Fail("classifier panicked on header %x: %v", hdr, p)
		}
		if n != 0 && n != 6+int(c.Length) {
			return harness.Fail("header %x: classifier reports length %d, 6+length field is %d", hdr, n, 6+int(c.Length))
		}
		if err != nil && n != 0 {
			// "unsupported function code" classification: must carry a matching illegal-function exception
			if c.Allow {
				return harness.Fail("header %x: allow-unsupported set but classifier returned (%d, %v)", hdr, n, err)
			}
			if spec.IsSupported(uint8(fc)) {
				return harness.Fail("header %x: supported function %d classified as unsupported", hdr, fc)
			}
			var pe *packet.ErrorParseTCP
			if !errors.As(err, &pe) {
				return harness.Fail("header %x: unsupported-function error has type %T", hdr, err)
			}
			if fc >= 1 && fc <= 127 {
				want := []byte{byte(tx >> 8), byte(tx), 0, 0, 0, 3, hdr[6], byte(fc) | 0x80, 1}
				if got := pe.Bytes(); string(got) != string(want) {
					return harness.Fail("header %x: unsupported function %d: exception encodes to %x, want %x", hdr, fc, got, want)
				}
				// the classification kept from an earlier header still carries the exception for THAT header (a caller may classify
				// several frames - of several connections - before it sends the exceptions)
				if heldCls != nil && string(heldCls.Bytes()) != string(heldClsEnc) {
					return harness.Fail("the unsupported-function classification of header %x encoded to %x; after header %x was classified it encodes to %x: classifications share an error value", heldClsHdr, heldClsEnc, hdr, heldCls.Bytes())
				}
				heldCls, heldClsEnc, heldClsHdr = pe, want, append([]byte(nil), hdr...)
			}
			continue
		}
		if err != nil {
			// refused outright: a supported-function header that the library's own encoders can produce must not be refused
			continue
		}
		// accepted with n
		if n < 8 {
			return harness.Fail("header %x: classifier accepted it with an expected length of %d bytes, shorter than the 8 bytes it needs to decide (length field %d)", hdr, n, c.Length)
		}
		accepted++
		if !c.Allow && !spec.IsSupported(uint8(fc)) {
			return harness.Fail("header %x: unsupported function %d accepted with flag off", hdr, fc)
		}
		if !c.Bodies {
			continue
		}
		bodies := [][]byte{}
		if n <= 400 || fc == 3 {
			bodies = append(bodies, make([]byte, n-8))
			bodies = append(bodies, harness.Bytes(s, n-8))
		}
		if vb := validBody(uint8(fc), n, s); vb != nil {
			bodies = append(bodies, vb)
		}
		if pb := prefixBody(uint8(fc), n, s); pb != nil {
			bodies = append(bodies, pb)
		}
		for _, b := range bodies {
			frame := append(append([]byte(nil), hdr...), b...)
			v, perr, p := parse(frame)
			if p != nil {
				return harness.Fail("classifier accepted header %x with n=%d, ParseTCPRequest panicked on the completed frame %x: %v", hdr, n, trunc(frame), p)
			}
			if perr == nil {
				if v == nil {
					return harness.Fail("ParseTCPRequest returned (nil,nil) for %x", trunc(frame))
				}
				continue
			}
			if !cat.IsNilValue(v) {
				return harness.Fail("ParseTCPRequest returned a value with error %v", perr)
			}
			var pe *packet.ErrorParseTCP
			if !errors.As(perr, &pe) {
				return harness.Fail("classifier accepted %x; dispatcher error %T %v is not an *ErrorParseTCP", hdr, perr, perr)
			}
			enc := append([]byte(nil), pe.Bytes()...)
			if !validException(enc) {
				return harness.Fail("classifier accepted %x; dispatcher error %v encodes to %x which is not a valid exception ADU", hdr, perr, enc)
			}
			// a valid exception reply to THIS frame: its transaction id, its unit id, its function code with the high bit set
			// (judged for the ten supported functions; what the dispatcher says about other function codes that the classifier was
			// told to let through is not constrained beyond the shape checked above)
			if spec.IsSupported(uint8(fc)) && (enc[0] != hdr[0] || enc[1] != hdr[1] || enc[6] != hdr[6] || enc[7] != hdr[7]|0x80) {
				return harness.Fail("classifier accepted %x; dispatcher error %v encodes to %x, which is not an exception reply to that frame (transaction id / unit id / function differ)", hdr, perr, enc)
			}
			// an error kept from an earlier rejection must still encode to what it encoded to then (two requests can be rejected
			// before either exception is sent)
			if heldErr != nil && string(heldErr.Bytes()) != string(heldEnc) {
				return harness.Fail("the error returned for the rejected frame %x encoded to %x; after the rejection of %x it encodes to %x: rejections share an error value", heldFrame, heldEnc, trunc(frame), heldErr.Bytes())
			}
			heldErr, heldEnc, heldFrame = pe, enc, append([]byte(nil), trunc(frame)...)
		}
	}
	labels := []string{}
	if accepted > 0 {
		labels = append(labels, "some-accepted")
	}
	switch {
	case c.Proto == 0:
		labels = append(labels, "protocol-id:0")
	case (c.Proto>>8+c.Proto)&0xFF == 0:
		labels = append(labels, "protocol-id:bytes-sum-to-0-mod-256")
	default:
		labels = append(labels, "protocol-id:other")
	}
	return harness.Result{NonTrivial: accepted > 0, Labels: labels, Weight: 256}
}

func trunc(b []byte) []byte {
	if len(b) > 40 {
		return b[:40]
	}
	return b
}

// genProto: protocol id 0 half of the time, otherwise any value, with the values whose two bytes add up to 0 modulo 256 or are equal /
// complementary as hot spots.
func genProto(t *rapid.T) uint16 {
	switch rapid.IntRange(0, 5).Draw(t, "proto_mode") {
	case 0, 1, 2:
		return 0
	case 3:
		return rapid.SampledFrom([]uint16{1, 0x0100, 0xFFFF, 0x01FF, 0xFF01, 0x8080, 0x02FE, 0x00FF, 0xFF00, 0x0101, 0x7F81}).Draw(t, "proto_hot")
	}
	return rapid.Uint16().Draw(t, "proto")
}

var chkHeader = harness.Define("classifier-headers",
	func(t *rapid.T) headerCase {
		return headerCase{
			Proto:  genProto(t),
			Length: gen.U16(t, "length", []int{0, 1, 2, 3, 4, 5, 6, 7, 8, 9, 253, 254, 255, 256, 65535}),
			Allow:  rapid.Bool().Draw(t, "allow"),
			Bodies: true,
			Seed:   rapid.Uint64().Draw(t, "seed"),
		}
	}, runHeader)

func TestPrefixes(t *testing.T) {
	chkPrefix.Rapid(t, harness.Pick(3000, 100000))
	// one frame of every function explicitly (fc17 has the 2-byte body)
	for _, fc := range spec.Functions {
		r := spec.Req{FC: fc, Unit: 16, Tx: 0x0102, Addr: 107, Qty: 3, Value: 0xFF00, WAddr: 9}
		switch fc {
		case 15:
			r.Payload = []byte{5}
		case 16:
			r.Payload = []byte{1, 2, 3, 4, 5, 6}
		case 23:
			r.Payload = []byte{1, 2}
		}
		if !chkPrefix.Eval(t, prefixCase{Req: r}) {
			return
		}
	}
}

func TestHeaders(t *testing.T) {
	chkHeader.Rapid(t, harness.Pick(1500, 50000))
	protos := []uint16{0, 1, 0x0100, 0xFFFF}
	var lengths []int
	if harness.Thorough() {
		for l := 0; l < 65536; l++ {
			lengths = append(lengths, l)
		}
	} else {
		for l := 0; l <= 600; l++ {
			lengths = append(lengths, l)
		}
		lengths = append(lengths, 1000, 4096, 32767, 32768, 65534, 65535)
	}
	idx := 0
	n := int64(0)
	for _, pr := range protos {
		for _, allow := range []bool{false, true} {
			for _, l := range lengths {
				idx++
				n += 256
				if !harness.Mine(idx) {
					continue
				}
				bodies := l <= 300 || idx%97 == 0
				if !chkHeader.EvalFast(t, headerCase{Proto: pr, Length: uint16(l), Allow: allow, Bodies: bodies, Seed: harness.Seed() + uint64(idx)}) {
					return
				}
			}
		}
	}
	harness.Exhaustive("classifier-headers", fmt.Sprintf("%d length-field values x all 256 function codes x 4 protocol ids x both flags (bodies completed for lengths <= 300 and a 1%% sample)", len(lengths)), n)
}

// TestCrossFramingRequests: encodable TCP requests whose first eight bytes are at the same time a CRC-valid RTU request frame
// (transaction id = RTU unit and function, protocol id = RTU address 0, length 6 = RTU quantity, TCP unit and function = the RTU CRC):
// all such headers for functions 1..6, found by search. They are ordinary Modbus TCP requests and must be classified as such.
func TestCrossFramingRequests(t *testing.T) {
	n := 0
	for i, fr := range hostile.TCPRequestLookingLikeRTU([4]byte{0, 1, 0, 1}) {
		if !harness.Mine(i + 1) {
			continue
		}
		r := spec.Req{FC: fr[7], Unit: fr[6], Tx: uint16(fr[0])<<8 | uint16(fr[1]), Addr: 1, Qty: 1, Value: 0xFF00}
		n++
		if !chkPrefix.Eval(t, prefixCase{Req: r}) {
			return
		}
	}
}

// ---------------------------------------------------------------------------
// the code that joins classifier and dispatcher: the server's stream assembler cuts what the classifier accepted out of the stream and
// hands it to the dispatcher. Every encodable request, fed to one assembler among many others (one, two or three per read, so that
// the bytes of the next frame already lie behind the one being cut out), must reach the handler as itself - the 1st like the 1024th.

type joinCase struct {
	N       int    `json:"n"`
	PerRead int    `json:"per_read"`
	Seed    uint64 `json:"seed"`
	// Uniform: every request is a 12-byte read request, so that PerRead requests make a read of exactly 12*PerRead bytes (25 per read:
	// 300 bytes, the size of the array a server connection reads into)
	Uniform bool `json:"uniform,omitempty"`
}

// echoHandler answers every request with a fixed-shape response that names the request it was given.
type echoHandler struct{}

type echoResponse struct{ b []byte }

func (r echoResponse) FunctionCode() uint8 { return r.b[7] }
func (r echoResponse) Bytes() []byte       { return r.b }

func (echoHandler) Handle(ctx context.Context, req packet.Request) (packet.Response, error) {
	raw := req.Bytes()
	return echoResponse{b: []byte{raw[0], raw[1], 0, 0, 0, 3, raw[6], raw[7], byte(len(raw))}}, nil
}

func runJoin(c joinCase) harness.Result {
	a := &server.ModbusTCPAssembler{Handler: echoHandler{}}
	s := c.Seed
	var read, want, prevFrame, prevReply []byte
	inRead := 0
	for i := 0; i < c.N; i++ {
		v := harness.SplitMix64(&s)
		fc := spec.Functions[int(v%uint64(len(spec.Functions)))]
		r := spec.Req{FC: fc, Unit: uint8(v >> 8), Tx: uint16(i), Addr: uint16(v>>16) & 0x0FFF, Qty: 1 + uint16(v>>40)%8, Value: 0xFF00, WAddr: 3, WQty: 1, ByteCount: 2, Payload: []byte{byte(v >> 32), byte(v >> 48)}}
		switch fc {
		case 15:
			r.Qty, r.ByteCount, r.Payload = 1+uint16(v>>40)%8, 1, []byte{byte(v >> 32)}
		case 16:
			r.Qty = 1
		}
		if c.Uniform {
			r = spec.Req{FC: 3 + uint8(v&1), Unit: uint8(v >> 8), Tx: uint16(i), Addr: uint16(v>>16) & 0x0FFF, Qty: 1 + uint16(v>>40)%8}
		}
		fr := spec.EncodeRequest(spec.TCP, r)
		reply := []byte{fr[0], fr[1], 0, 0, 0, 3, fr[6], fr[7], byte(len(fr))}
		if v%5 == 0 && !c.Uniform {
			// a frame with a function code the library does not support: classified as such, answered with the illegal-function exception
			ufc := []uint8{7, 8, 11, 20, 43, 65, 100}[int(v>>52)%7]
			fr = spec.Frame(spec.TCP, r.Tx, r.Unit, []byte{ufc, 1, 2, 3})
			reply = []byte{fr[0], fr[1], 0, 0, 0, 3, fr[6], ufc | 0x80, 1}
		}
		switch {
		case prevFrame != nil && i%4 == 1 && !c.Uniform:
			// the previous frame once more under the next transaction id (a master polling)
			fr = append([]byte(nil), prevFrame...)
			fr[0], fr[1] = byte(i>>8), byte(i)
			reply = append([]byte(nil), prevReply...)
			reply[0], reply[1] = fr[0], fr[1]
		case prevFrame != nil && i%6 == 2 && !c.Uniform:
			// the previous frame once more for the neighbouring unit, under the same transaction id (a master with a constant id)
			fr = append([]byte(nil), prevFrame...)
			fr[6] ^= 1
			reply = append([]byte(nil), prevReply...)
			reply[6] = fr[6]
		}
		prevFrame, prevReply = fr, reply
		read = append(read, fr...)
		want = append(want, reply...)
		inRead++
		if inRead < c.PerRead && i+1 < c.N {
			continue
		}
		out, closeConn := a.ReceiveRead(context.Background(), read, len(read))
		if closeConn {
			return harness.Fail("request %d of %d on one assembler (%d per read): the assembler asks to close the connection after the valid requests %x", i+1, c.N, c.PerRead, read)
		}
		if string(out) != string(want) {
			return harness.Fail("request %d of %d on one assembler (%d per read): for the valid requests %x the handler's replies are %x, the assembler returned %x", i+1, c.N, c.PerRead, read, want, out)
		}
		read, want, inRead = nil, nil, 0
	}
	return harness.Result{NonTrivial: c.N >= 100, Labels: []string{fmt.Sprintf("requests-on-one-assembler:%d", c.N), fmt.Sprintf("per-read:%d", c.PerRead)}, Weight: int64(c.N)}
}

var chkJoin = harness.Define("assembler-joins-classifier-and-dispatcher",
	func(t *rapid.T) joinCase {
		c := joinCase{N: rapid.SampledFrom([]int{100, 700, 2100, 4200}).Draw(t, "n"), PerRead: rapid.IntRange(1, 3).Draw(t, "per_read"), Seed: rapid.Uint64().Draw(t, "seed")}
		if rapid.IntRange(0, 3).Draw(t, "uniform") == 0 {
			c.Uniform, c.PerRead = true, rapid.SampledFrom([]int{24, 25, 25, 26, 50}).Draw(t, "per_read_uniform")
		}
		return c
	}, runJoin)

func TestAssemblerJoin(t *testing.T) {
	chkJoin.Rapid(t, harness.Pick(12, 300))
	if harness.Thorough() && harness.Mine(1) {
		chkJoin.Eval(t, joinCase{N: 140000, PerRead: 2, Seed: harness.Seed()})
	}
}

// twoConnCase: the same through a real Server and TWO connections used alternately: connection A sends the first Head bytes of its
// request, connection B a whole request (and gets its reply), A the rest (and gets its reply), for Rounds rounds.
type twoConnCase struct {
	Rounds int    `json:"rounds"`
	Head   int    `json:"head"`
	Seed   uint64 `json:"seed"`
	// PauseMs: A waits this long before it sends the rest (longer than the server's ReadTimeout of 20 ms: read deadlines pass on A's
	// connection while its request is incomplete)
	PauseMs int `json:"pause_ms,omitempty"`
}

func runTwoConn(c twoConnCase) harness.Result {
	l := xport.NewPipeListener()
	s := &server.Server{ReadTimeout: 20 * time.Millisecond, WriteTimeout: 2 * time.Second, OnErrorFunc: func(error) {}}
	ctx, cancel := context.WithCancel(context.Background())
	done := make(chan struct{})
	go func() { defer close(done); _ = s.Serve(ctx, l, echoHandler{}) }()
	defer func() { cancel(); _ = l.Close(); <-done }()
	ca, err := l.Dial()
	if err != nil {
		return harness.Fail("harness: %v", err)
	}
	defer ca.Close()
	cb, err := l.Dial()
	if err != nil {
		return harness.Fail("harness: %v", err)
	}
	defer cb.Close()
	colA, colB := srv.Collect(ca), srv.Collect(cb)
	gotA, gotB := 0, 0
	sd := c.Seed
	for i := 0; i < c.Rounds; i++ {
		v := harness.SplitMix64(&sd)
		ra := spec.Req{FC: 16, Unit: uint8(v), Tx: uint16(2 * i), Addr: uint16(v >> 8), Qty: 3, ByteCount: 6, Payload: []byte{1, 2, 3, 4, 5, byte(i)}}
		rb := spec.Req{FC: 3, Unit: uint8(v >> 24), Tx: uint16(2*i + 1), Addr: uint16(v >> 32), Qty: 1 + uint16(v>>48)%9}
		fa, fb := spec.EncodeRequest(spec.TCP, ra), spec.EncodeRequest(spec.TCP, rb)
		wantA := []byte{fa[0], fa[1], 0, 0, 0, 3, fa[6], fa[7], byte(len(fa))}
		wantB := []byte{fb[0], fb[1], 0, 0, 0, 3, fb[6], fb[7], byte(len(fb))}
		head := c.Head
		if head >= len(fa) {
			head = len(fa) - 1
		}
		_ = ca.SetWriteDeadline(time.Now().Add(5 * time.Second))
		_ = cb.SetWriteDeadline(time.Now().Add(5 * time.Second))
		if _, err := ca.Write(fa[:head]); err != nil {
			return harness.Fail("round %d: connection A: write failed: %v", i, err)
		}
		if _, err := cb.Write(fb); err != nil {
			return harness.Fail("round %d: connection B: write failed: %v", i, err)
		}
		if all := colB.WaitLen(gotB+9, 10*time.Second); len(all) < gotB+9 || string(all[gotB:gotB+9]) != string(wantB) {
			return harness.Fail("round %d: connection B sent the whole request %x while connection A had %d bytes of a request pending: received %x, the handler's reply to it is %x", i, fb, head, all[gotB:], wantB)
		}
		gotB += 9
		if c.PauseMs > 0 {
			time.Sleep(time.Duration(c.PauseMs) * time.Millisecond)
		}
		if _, err := ca.Write(fa[head:]); err != nil {
			return harness.Fail("round %d: connection A: write failed: %v", i, err)
		}
		if all := colA.WaitLen(gotA+9, 10*time.Second); len(all) < gotA+9 || string(all[gotA:gotA+9]) != string(wantA) {
			return harness.Fail("round %d: connection A completed its request %x (first %d bytes sent before connection B was served): received %x, the handler's reply to it is %x", i, fa, head, all[gotA:], wantA)
		}
		gotA += 9
	}
	return harness.Result{NonTrivial: c.Rounds >= 2, Labels: []string{"two-connections-alternately", fmt.Sprintf("head:%d", min(c.Head, 12))}, Weight: int64(2 * c.Rounds)}
}

var chkTwoConn = harness.Define("server-joins-classifier-and-dispatcher-two-connections",
	func(t *rapid.T) twoConnCase {
		c := twoConnCase{Rounds: rapid.IntRange(1, 12).Draw(t, "rounds"), Head: rapid.IntRange(1, 18).Draw(t, "head"), Seed: rapid.Uint64().Draw(t, "seed")}
		if rapid.IntRange(0, 3).Draw(t, "pause") == 0 {
			c.PauseMs, c.Rounds = 50, 1+c.Rounds%3
		}
		return c
	}, runTwoConn)

func TestTwoConnections(t *testing.T) { chkTwoConn.Rapid(t, harness.Pick(25, 600)) }
