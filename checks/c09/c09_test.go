package c09

import (
	"bytes"
	"fmt"
	"reflect"
	"testing"

	"github.com/aldas/go-modbus-client/packet"
	"pgregory.net/rapid"

	"verif/internal/cat"
	"verif/internal/gen"
	"verif/internal/harness"
	"verif/internal/hostile"
	"verif/internal/spec"
)

func TestMain(m *testing.M) { harness.Main(m) }

func TestReplay(t *testing.T)  { harness.RunReplay(t) }
func TestRegress(t *testing.T) { harness.RunRegress(t) }

// reqCase is a request at wire level. If it is legal under the specification it is
// encoded by the library's constructor, otherwise by the spec encoder.
type reqCase struct {
	Framing spec.Framing `json:"framing"`
	Req     spec.Req     `json:"req"`
	// refilled (set by runReq itself): this is the second pass of a case, on a request built from the same payload buffer after the
	// buffer was refilled in place
	refilled bool
}

const kfParser125 = "fc1-fc2-request-parser-limit-125"

func parsers(f spec.Framing, fc uint8) []cat.Parser {
	return append(cat.Dispatchers(f, true), cat.RequestParser(f, fc))
}

func runReq(c reqCase) harness.Result {
	r := c.Req
	if !c.refilled {
		r.Payload = append([]byte(nil), c.Req.Payload...) // this run's own buffer (refilled in place for the second pass)
	}
	labels := []string{fmt.Sprintf("fc%d", r.FC), c.Framing.String()}
	legalErr := spec.LegalRequest(r)
	if legalErr == nil {
		q, err := cat.NewRequest(c.Framing, r)
		if err != nil {
			return harness.Result{Labels: append(labels, "legal-but-constructor-refuses")}
		}
		frame := q.Bytes()
		if n := len(frame); c.Framing == spec.RTU && n > 2 {
			if cl := hostile.BodyCRCClass(frame[:n-2]); cl != "" {
				labels = append(labels, "rtu-body-crc:"+cl)
			}
			if frame[0] == ':' && frame[n-2] == '\r' && frame[n-1] == '\n' {
				labels = append(labels, "rtu-frame-looks-like-modbus-ascii")
			}
		}
		if want := spec.EncodeRequest(c.Framing, r); !bytes.Equal(frame, want) {
			// C01's business; do not judge here, but the round trip below is on the library's bytes
			labels = append(labels, "encoding-differs-from-spec")
		}
		known := ""
		if (r.FC == 1 || r.FC == 2) && r.Qty > 125 && harness.OpenFinding(kfParser125) {
			known = kfParser125
		}
		inputs := [][]byte{frame}
		if c.Framing == spec.RTU {
			inputs = append(inputs, frame[:len(frame)-2]) // per-function RTU parsers also accept the frame without CRC
		}
		if want := spec.EncodeRequest(c.Framing, r); !bytes.Equal(frame, want) && known == "" {
			// what a conforming master puts on the wire for this request (independent encoder, independent CRC) is what the parsers
			// must accept - whatever the library's own encoder does
			for _, p := range parsers(c.Framing, r.FC) {
				if v, err := p.Fn(append([]byte(nil), want...)); err != nil || cat.IsNilValue(v) {
					return harness.Fail("%s refused the specification's encoding %x of the legal request %+v: %v (the library's own encoder produces %x)", p.Name, want, r, err, frame)
				}
			}
		}
		for _, p := range parsers(c.Framing, r.FC) {
			for k, in := range inputs {
				if k == 1 && p.FC == 0 {
					continue // dispatchers get the full frame only
				}
				buf := append([]byte(nil), in...)
				v, err := p.Fn(buf)
				// the buffer the frame was parsed from is the caller's (a server reuses one receive buffer for every read): what was
				// decoded must not change when the buffer is used again
				for i := range buf {
					buf[i] = 0xA5
				}
				if err != nil {
					if !cat.IsNilValue(v) {
						return harness.Fail("%s: error %v together with non-nil value", p.Name, err)
					}
					if known != "" {
						continue
					}
					return harness.Fail("%s refused the legal request %+v (frame %x): %v", p.Name, r, in, err)
				}
				if known != "" {
					// behaviour inside the finding's region changed: accepted -> must still be faithful (checked below)
					labels = append(labels, "known-region-accepted")
				}
				if got, want := cat.GoType(v), cat.GoType(q); got != want {
					return harness.Fail("%s returned %s, want %s", p.Name, got, want)
				}
				if !reflect.DeepEqual(normalize(v), normalize(q)) {
					return harness.Fail("%s decoded (as read after the input buffer was overwritten)\n  %+v\noriginal\n  %+v\n(frame %x)", p.Name, v, q, in)
				}
				if re := v.(packet.Request).Bytes(); !bytes.Equal(re, frame) {
					return harness.Fail("%s: decoded request re-encodes to %x, original %x", p.Name, re, frame)
				}
				// a second request of the same unit and function is decoded while the first is still held (two connections, or a queue of
				// decoded requests): the first stays what it is
				r2 := r
				r2.Tx ^= 0x0155
				if r.FC != 17 {
					r2.Addr ^= 0x0001
				}
				if spec.LegalRequest(r2) == nil {
					sib := spec.EncodeRequest(c.Framing, r2)
					if k == 1 {
						sib = sib[:len(sib)-2]
					}
					v2, _ := p.Fn(sib)
					if !reflect.DeepEqual(normalize(v), normalize(q)) {
						return harness.Fail("%s: the request decoded from %x reads %+v after another request (%x) was decoded: decoded requests share storage", p.Name, in, v, sib)
					}
					if re := v.(packet.Request).Bytes(); !bytes.Equal(re, frame) {
						return harness.Fail("%s: the request decoded from %x re-encodes to %x after another request (%x) was decoded", p.Name, in, re, sib)
					}
					_ = v2
				}
			}
		}
		if known != "" {
			return harness.Result{Excluded: known, Labels: append(labels, "known:"+known)}
		}
		if !c.refilled && len(r.Payload) > 0 && (r.FC == 15 || r.FC == 16 || r.FC == 23) {
			// a program refills its payload buffer with the next values and builds the next request from it (same unit, address, size):
			// that request must round-trip as itself
			_ = q.Bytes() // (the last thing the library encoded is this request)
			for i := range r.Payload {
				r.Payload[i] ^= 0x3C
			}
			if r.FC == 15 {
				if rem := int(r.Qty) % 8; rem != 0 {
					r.Payload[len(r.Payload)-1] &= byte(1<<uint(rem)) - 1
				}
			}
			if res := runReq(reqCase{Framing: c.Framing, Req: r, refilled: true}); res.Err != nil {
				return harness.Fail("request built from the same payload buffer after the buffer was refilled in place: %v", res.Err)
			}
			labels = append(labels, "payload-buffer-refilled-in-place")
		}
		nt := r.Qty > 1 || len(r.Payload) > 0 || r.FC == 5 || r.FC == 6
		return harness.Result{NonTrivial: nt, Labels: append(labels, "legal")}
	}
	// illegal: must be refused by every parser
	judged := outsideLimits(r)
	frame := spec.EncodeRequest(c.Framing, r)
	inputs := [][]byte{frame}
	if c.Framing == spec.RTU {
		inputs = append(inputs, frame[:len(frame)-2])
	}
	for _, p := range parsers(c.Framing, r.FC) {
		for k, in := range inputs {
			if k == 1 && p.FC == 0 {
				continue
			}
			v, err := p.Fn(append([]byte(nil), in...))
			if err == nil {
				if !judged {
					continue
				}
				return harness.Fail("%s decoded the illegal request (%v), frame %x: %+v", p.Name, legalErr, in, v)
			}
			if !cat.IsNilValue(v) {
				return harness.Fail("%s: error %v together with non-nil value %+v", p.Name, err, v)
			}
		}
	}
	if !judged {
		return harness.Result{Labels: append(labels, "inconsistent-byte-count-not-judged")}
	}
	return harness.Result{NonTrivial: true, Labels: append(labels, "illegal")}
}

// outsideLimits: quantity, count or coil value outside the specification's limits
// (as opposed to a merely inconsistent byte count, which the property does not mention).
func outsideLimits(r spec.Req) bool {
	switch r.FC {
	case 1, 2:
		return r.Qty < 1 || r.Qty > 2000
	case 3, 4:
		return r.Qty < 1 || r.Qty > 125
	case 5:
		return r.Value != 0 && r.Value != 0xFF00
	case 15:
		return r.Qty < 1 || r.Qty > 1968
	case 16:
		return r.Qty < 1 || r.Qty > 123
	case 23:
		return r.Qty < 1 || r.Qty > 125 || r.WQty < 1 || r.WQty > 121
	}
	return false
}

// normalize maps nil and empty payload slices onto each other.
func normalize(v interface{}) interface{} {
	rv := reflect.ValueOf(v)
	if rv.Kind() != reflect.Ptr || rv.IsNil() {
		return v
	}
	cp := reflect.New(rv.Elem().Type())
	cp.Elem().Set(rv.Elem())
	var walk func(x reflect.Value)
	walk = func(x reflect.Value) {
		switch x.Kind() {
		case reflect.Struct:
			for i := 0; i < x.NumField(); i++ {
				walk(x.Field(i))
			}
		case reflect.Slice:
			if x.Len() == 0 && x.CanSet() {
				x.Set(reflect.Zero(x.Type()))
			}
		}
	}
	walk(cp.Elem())
	return cp.Interface()
}

// illegalize turns a legal request into one outside the limits, keeping byte counts consistent where the frame allows.
func illegalize(t *rapid.T, r spec.Req) spec.Req {
	setRegs := func(q int) ([]byte, uint8) {
		n := 2 * q
		if n > 255 {
			n = n % 256
		}
		return harness.Bytes(uint64(q), n), uint8(n)
	}
	switch r.FC {
	case 1, 2:
		r.Qty = rapid.SampledFrom([]uint16{0, 2001, 2002, 2008, 4000, 32768, 65535}).Draw(t, "bad_qty")
	case 3, 4:
		r.Qty = rapid.SampledFrom([]uint16{0, 126, 127, 128, 250, 256, 2000, 65535}).Draw(t, "bad_qty")
	case 5:
		r.Value = rapid.SampledFrom([]uint16{1, 0x00FF, 0xFF01, 0xFE00, 0xFFFF, 0x0100, 0x8000}).Draw(t, "bad_value")
	case 15:
		r.Qty = rapid.SampledFrom([]uint16{0, 1969, 1970, 1976, 2000, 2040, 65535}).Draw(t, "bad_qty")
		n := (int(r.Qty) + 7) / 8
		if n > 255 {
			n = 255
		}
		r.Payload, r.ByteCount = harness.Bytes(uint64(r.Qty), n), uint8(n)
	case 16:
		r.Qty = rapid.SampledFrom([]uint16{0, 124, 125, 126, 127, 128, 256, 65535}).Draw(t, "bad_qty")
		if rapid.Bool().Draw(t, "bad_qty_any") {
			r.Qty = uint16(rapid.IntRange(124, 65535).Draw(t, "bad_qty_r")) // any illegal quantity, byte count = low byte of 2*quantity
		}
		r.Payload, r.ByteCount = setRegs(int(r.Qty))
	case 23:
		if rapid.Bool().Draw(t, "bad_read") {
			r.Qty = rapid.SampledFrom([]uint16{0, 126, 127, 128, 256, 65535}).Draw(t, "bad_qty")
		} else {
			r.WQty = rapid.SampledFrom([]uint16{0, 122, 123, 124, 125, 127, 128, 65535}).Draw(t, "bad_wqty")
			if rapid.Bool().Draw(t, "bad_wqty_any") {
				r.WQty = uint16(rapid.IntRange(122, 65535).Draw(t, "bad_wqty_r"))
			}
			r.Payload, r.ByteCount = setRegs(int(r.WQty))
		}
	}
	return r
}

func genReq(t *rapid.T) reqCase {
	fc := gen.FC(t)
	r := gen.LegalReq(t, fc, false)
	mode := rapid.IntRange(0, 9).Draw(t, "mode")
	switch {
	case mode < 6: // legal
	case mode < 9: // outside limits
		r = illegalize(t, r)
	default: // inconsistent byte count (labelled, only nil-on-error is judged)
		if fc == 15 || fc == 16 || fc == 23 {
			r.ByteCount = uint8(int(r.ByteCount) + rapid.SampledFrom([]int{-2, -1, 1, 2}).Draw(t, "bc_delta"))
		}
	}
	return reqCase{Framing: gen.Framing(t), Req: r}
}

var chkReq = harness.Define("request-roundtrip", genReq, runReq).Repeated(2)

func TestFindings(t *testing.T) {
	harness.Probe(t, kfParser125, func(f harness.Finding) (bool, string) {
		q, _ := packet.NewReadCoilsRequestTCP(1, 0, 126)
		_, err := packet.ParseTCPRequest(q.Bytes())
		if err != nil {
			return true, "ParseTCPRequest(NewReadCoilsRequestTCP(1,0,126).Bytes()): " + err.Error()
		}
		return false, ""
	})
}

func TestRandom(t *testing.T) {
	chkReq.Rapid(t, harness.Pick(20000, 1000000))
}

func TestQuantityAxes(t *testing.T) {
	lo, hi := harness.Range(65536)
	n := int64(0)
	step := 1
	for _, fr := range []spec.Framing{spec.TCP, spec.RTU} {
		for q := lo; q < hi; q += step {
			s := uint64(q)*2654435761 + harness.Seed()
			base := spec.Req{Unit: uint8(harness.SplitMix64(&s)), Tx: uint16(harness.SplitMix64(&s)), Addr: uint16(harness.SplitMix64(&s))}
			var cases []spec.Req
			for _, fc := range []uint8{1, 2, 3, 4} {
				r := base
				r.FC, r.Qty = fc, uint16(q)
				cases = append(cases, r)
			}
			// fc15: byte count consistent while it fits a byte
			{
				r := base
				r.FC, r.Qty = 15, uint16(q)
				nb := (q + 7) / 8
				if nb > 255 {
					nb = 255
				}
				r.Payload, r.ByteCount = harness.Bytes(s, nb), uint8(nb)
				if rem := q % 8; rem != 0 && q <= 2040 {
					r.Payload[nb-1] &= byte(1<<uint(rem)) - 1
				}
				cases = append(cases, r)
			}
			{
				r := base
				r.FC, r.Qty = 16, uint16(q)
				nb := (2 * q) % 256
				if 2*q <= 255 {
					nb = 2 * q
				}
				r.Payload, r.ByteCount = harness.Bytes(s, nb), uint8(nb)
				cases = append(cases, r)
			}
			{ // fc23 read axis
				r := base
				r.FC, r.Qty, r.WQty, r.WAddr = 23, uint16(q), 2, uint16(s)
				r.Payload, r.ByteCount = harness.Bytes(s, 4), 4
				cases = append(cases, r)
			}
			{ // fc23 write axis
				r := base
				r.FC, r.Qty, r.WQty, r.WAddr = 23, 3, uint16(q), uint16(s)
				nb := (2 * q) % 256
				if 2*q <= 255 {
					nb = 2 * q
				}
				r.Payload, r.ByteCount = harness.Bytes(s, nb), uint8(nb)
				cases = append(cases, r)
			}
			for _, r := range cases {
				n++
				if !chkReq.EvalFast(t, reqCase{Framing: fr, Req: r}) {
					return
				}
			}
		}
	}
	harness.Exhaustive("request-roundtrip", "every quantity 0..65535 for fc1,2,3,4,15,16,23(read),23(write) x {tcp,rtu} (legal -> round trip, illegal -> refused)", 2*8*65536)
	// every fc5 value
	for _, fr := range []spec.Framing{spec.TCP, spec.RTU} {
		for v := lo; v < hi; v++ {
			if !chkReq.EvalFast(t, reqCase{Framing: fr, Req: spec.Req{FC: 5, Unit: uint8(v), Tx: uint16(v), Addr: uint16(v * 3), Value: uint16(v)}}) {
				return
			}
		}
	}
	harness.Exhaustive("request-roundtrip", "every fc5 coil value 0..65535 x {tcp,rtu}", 2*65536)
}

// TestForeignLookingLegalRequests: legal requests whose bytes coincide with another framing's magic. RTU requests for unit 58 (':')
// whose CRC is 0x0A0D end in CR LF - the delimiters of Modbus ASCII; the address that produces that CRC is found by search.
func TestForeignLookingLegalRequests(t *testing.T) {
	idx := 0
	for _, unit := range []uint8{58, 0x7E} {
		for _, fc := range []uint8{1, 2, 3, 4} {
			for _, qty := range []uint16{1, 2, 6, 100, 103, 125} {
				idx++
				if !harness.Mine(idx) {
					continue
				}
				for _, want := range []uint16{0x0A0D, 0x0D0A, 0x0000, 0xFFFF} {
					r, ok := hostile.ReadRequestWithCRC(unit, fc, qty, want)
					if !ok {
						continue
					}
					if !chkReq.Eval(t, reqCase{Framing: spec.RTU, Req: r}) {
						return
					}
				}
			}
		}
	}
}
