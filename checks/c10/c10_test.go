package c10

import (
	"context"
	"errors"
	"fmt"
	"reflect"
	"strings"
	"testing"

	"github.com/aldas/go-modbus-client/packet"
	"github.com/aldas/go-modbus-client/server"
	"pgregory.net/rapid"

	"verif/internal/cat"
	"verif/internal/gen"
	"verif/internal/harness"
	"verif/internal/hostile"
	"verif/internal/spec"
)

func TestMain(m *testing.M) { harness.Main(m) }

func TestReplay(t *testing.T)  { harness.RunReplay(t) }
func TestRegress(t *testing.T) { harness.RunRegress(t) }

// entry is one parse entry point normalised to (value, error).
type entry struct {
	Name string
	// nilOnError: the value must be nil / nil pointer / zero struct when err != nil
	NilOnError bool
	Fn         func(d []byte) (interface{}, error)
	Framing    spec.Framing
	FC         uint8
	Request    bool
	// SameAs: the result must equal that of the named entry on the same input (the same entry point reached on an object with a history)
	SameAs string
}

var entries []entry

// agedEntries are too slow for the sweeps: generated cases only
var agedEntries []entry
var entryByName = map[string]*entry{}

func init() {
	for _, p := range cat.Parsers {
		entries = append(entries, entry{Name: p.Name, NilOnError: true, Fn: p.Fn, Framing: p.Framing, FC: p.FC, Request: p.Request})
	}
	entries = append(entries,
		entry{Name: "ParseMBAPHeader", NilOnError: true, Framing: spec.TCP, Request: true, Fn: func(d []byte) (interface{}, error) {
			h, err := packet.ParseMBAPHeader(d)
			if err != nil && h == (packet.MBAPHeader{}) {
				return nil, err
			}
			return h, err
		}},
		entry{Name: "AsTCPErrorPacket", Framing: spec.TCP, Fn: func(d []byte) (interface{}, error) { return packet.AsTCPErrorPacket(d), nil }},
		entry{Name: "AsRTUErrorPacket", Framing: spec.RTU, Fn: func(d []byte) (interface{}, error) { return packet.AsRTUErrorPacket(d), nil }},
		entry{Name: "LooksLikeModbusTCP(false)", Framing: spec.TCP, Request: true, Fn: func(d []byte) (interface{}, error) { n, err := packet.LooksLikeModbusTCP(d, false); return n, err }},
		entry{Name: "LooksLikeModbusTCP(true)", Framing: spec.TCP, Request: true, Fn: func(d []byte) (interface{}, error) { n, err := packet.LooksLikeModbusTCP(d, true); return n, err }},
	)
	// the server's stream assembler is the caller of the classifier and the request dispatcher: whole input in one read, and byte by
	// byte (every prefix of the input is then classified)
	entries = append(entries,
		entry{Name: "ModbusTCPAssembler.ReceiveRead", Framing: spec.TCP, Request: true, Fn: func(d []byte) (interface{}, error) {
			a := &server.ModbusTCPAssembler{Handler: fixedHandler{}}
			out, closeConn := a.ReceiveRead(context.Background(), d, len(d))
			return fmt.Sprintf("%x close=%v", out, closeConn), nil
		}},
		entry{Name: "ModbusTCPAssembler.ReceiveRead(byte-wise)", Framing: spec.TCP, Request: true, Fn: func(d []byte) (interface{}, error) {
			a := &server.ModbusTCPAssembler{Handler: fixedHandler{}}
			var all []byte
			for i := range d {
				out, closeConn := a.ReceiveRead(context.Background(), d[i:i+1:i+1], 1)
				all = append(all, out...)
				if closeConn {
					return fmt.Sprintf("%x close after %d", all, i+1), nil
				}
			}
			return fmt.Sprintf("%x", all), nil
		}},
	)
	// the same while ANOTHER assembler (another connection of the server) holds the first part of a long frame: assemblers are
	// independent, so the result is that of an assembler on its own
	entries = append(entries, entry{Name: "ModbusTCPAssembler.ReceiveRead(while another assembler holds half a frame)", Framing: spec.TCP, Request: true, SameAs: "ModbusTCPAssembler.ReceiveRead",
		Fn: func(d []byte) (interface{}, error) {
			long := spec.EncodeRequest(spec.TCP, spec.Req{FC: 16, Unit: 2, Tx: 77, Addr: 5, Qty: 20, ByteCount: 40, Payload: make([]byte, 40)})
			other := &server.ModbusTCPAssembler{Handler: fixedHandler{}}
			_, _ = other.ReceiveRead(context.Background(), append([]byte(nil), long[:20]...), 20)
			a := &server.ModbusTCPAssembler{Handler: fixedHandler{}}
			out, closeConn := a.ReceiveRead(context.Background(), d, len(d))
			_, _ = other.ReceiveRead(context.Background(), append([]byte(nil), long[20:]...), len(long)-20)
			return fmt.Sprintf("%x close=%v", out, closeConn), nil
		}})
	// the same on an assembler that has been in use for a long time (one server connection that has handled hundreds of requests,
	// whole and two per read): what it makes of the input must be what a fresh assembler makes of it
	for _, age := range []int{300, 700, 1100} {
		age := age
		agedEntries = append(agedEntries, entry{Name: fmt.Sprintf("ModbusTCPAssembler.ReceiveRead(after %d requests)", age), Framing: spec.TCP, Request: true, SameAs: "ModbusTCPAssembler.ReceiveRead",
			Fn: func(d []byte) (interface{}, error) {
				a := &server.ModbusTCPAssembler{Handler: fixedHandler{}}
				for i := 0; i < age; i++ {
					fr := spec.EncodeRequest(spec.TCP, spec.Req{FC: 3, Unit: uint8(i), Tx: uint16(i), Addr: uint16(i), Qty: 1 + uint16(i%7)})
					if i%3 == 2 {
						// two requests in one read
						fr = append(fr, spec.EncodeRequest(spec.TCP, spec.Req{FC: 6, Unit: uint8(i + 1), Tx: uint16(i), Addr: 9, Value: uint16(i)})...)
						i++
					}
					if _, closeConn := a.ReceiveRead(context.Background(), fr, len(fr)); closeConn {
						return nil, fmt.Errorf("harness: the assembler closed the connection after ordinary request %d", i)
					}
				}
				out, closeConn := a.ReceiveRead(context.Background(), d, len(d))
				return fmt.Sprintf("%x close=%v", out, closeConn), nil
			}})
	}
	for i := range entries {
		entryByName[entries[i].Name] = &entries[i]
	}
	for i := range agedEntries {
		entryByName[agedEntries[i].Name] = &agedEntries[i]
	}
}

// fixedHandler answers every request the assembler hands over: odd unit ids with an error, even ones with a fixed response.
type fixedHandler struct{}

func (fixedHandler) Handle(ctx context.Context, req packet.Request) (packet.Response, error) {
	if len(req.Bytes()) > 6 && req.Bytes()[6]%2 == 1 {
		return nil, errors.New("handler refuses odd units")
	}
	return packet.WriteSingleRegisterResponseTCP{MBAPHeader: packet.MBAPHeader{TransactionID: 1, ProtocolID: 0}, WriteSingleRegisterResponse: packet.WriteSingleRegisterResponse{UnitID: 2, Address: 3, Data: [2]byte{4, 5}}}, nil
}

type parseCase struct {
	Entry string   `json:"entry"`
	Data  spec.Hex `json:"data"`
	// Tail: adversarial bytes placed in the spare capacity behind Data (e.g. the rest of the frame Data was cut from)
	Tail spec.Hex `json:"tail,omitempty"`
	Src  string   `json:"src,omitempty"`
	// PrevEntry/Prev: another parse call made between two calls with Data: the result for Data must not depend on what was parsed
	// before (no state carried between calls, e.g. through shared error values)
	PrevEntry string   `json:"prev_entry,omitempty"`
	Prev      spec.Hex `json:"prev,omitempty"`
}

type outcome struct {
	panicked interface{}
	val      interface{}
	err      error
	// errRepr is taken when the call returns (the error value may be shared and change later)
	errRepr string
}

func reprOf(err error) string {
	if err == nil {
		return "<nil>"
	}
	s := fmt.Sprintf("%T:%s", err, err.Error())
	if b, ok := err.(interface{ Bytes() []byte }); ok {
		s += fmt.Sprintf("|%x", b.Bytes())
	}
	return s
}

func call(e *entry, buf []byte) (o outcome) {
	defer func() {
		if p := recover(); p != nil {
			o.panicked = p
		}
	}()
	o.val, o.err = e.Fn(buf)
	o.errRepr = reprOf(o.err)
	if ev, ok := o.val.(error); ok && o.err == nil {
		o.errRepr = "value:" + reprOf(ev)
	}
	return
}

func errText(err error) string {
	if err == nil {
		return "<nil>"
	}
	return fmt.Sprintf("%T:%s", err, err.Error())
}

func same(a, b outcome) bool {
	if errText(a.err) != errText(b.err) || a.errRepr != b.errRepr {
		return false
	}
	if cat.IsNilValue(a.val) != cat.IsNilValue(b.val) {
		return false
	}
	if e1, ok := a.val.(error); ok {
		e2, ok2 := b.val.(error)
		return ok2 && errText(e1) == errText(e2) && reflect.DeepEqual(e1, e2)
	}
	return reflect.DeepEqual(a.val, b.val)
}

func runParse(c parseCase) harness.Result {
	e := entryByName[c.Entry]
	if e == nil {
		return harness.Fail("unknown entry %q", c.Entry)
	}
	n := len(c.Data)
	exact := make([]byte, n)
	copy(exact, c.Data)
	o1 := call(e, exact)
	if e.SameAs != "" && o1.panicked == nil {
		if ref := call(entryByName[e.SameAs], append([]byte(nil), c.Data...)); ref.panicked == nil && !same(o1, ref) {
			return harness.Fail("%s on input %x gives (%+v, %s), %s gives (%+v, %s): the result depends on the history of the object", e.Name, []byte(c.Data), o1.val, o1.errRepr, e.SameAs, ref.val, ref.errRepr)
		}
	}
	if o1.panicked != nil {
		return harness.Fail("%s panicked on %d-byte input %x: %v", e.Name, n, []byte(c.Data), o1.panicked)
	}
	if string(exact) != string(c.Data) {
		return harness.Fail("%s modified its input", e.Name)
	}
	if o1.err == nil && e.NilOnError && cat.IsNilValue(o1.val) {
		return harness.Fail("%s returned neither a decoded value nor an error (nil, nil) for the %d-byte input %x", e.Name, n, []byte(c.Data))
	}
	if o1.err != nil && e.NilOnError && !cat.IsNilValue(o1.val) {
		return harness.Fail("%s returned error %q together with a non-nil value %+v", e.Name, o1.err, o1.val)
	}
	// the decoded value is the caller's: it reads the same after the same entry point has decoded another input (the same bytes with
	// the second half inverted - for most frames the same header and counts with other data)
	if o1.err == nil && !cat.IsNilValue(o1.val) && n >= 2 {
		was := fmt.Sprintf("%+v", o1.val)
		sib := append([]byte(nil), c.Data...)
		for i := n / 2; i < n; i++ {
			sib[i] ^= 0xFF
		}
		if os := call(e, sib); os.panicked != nil {
			return harness.Fail("%s panicked on %d-byte input %x: %v", e.Name, n, sib, os.panicked)
		}
		if now := fmt.Sprintf("%+v", o1.val); now != was {
			return harness.Fail("%s decoded input %x to %s; after it has decoded %x as well, the value returned first reads %s: results share memory", e.Name, []byte(c.Data), was, sib, now)
		}
	}
	// capacity independence
	fillers := [][]byte{}
	ff := make([]byte, 64)
	for i := range ff {
		ff[i] = 0xFF
	}
	fillers = append(fillers, ff, make([]byte, 64))
	if len(c.Tail) > 0 {
		fillers = append(fillers, append(append([]byte(nil), c.Tail...), ff...))
	}
	for k, f := range fillers {
		buf := make([]byte, n+len(f))
		copy(buf, c.Data)
		copy(buf[n:], f)
		o2 := call(e, buf[:n])
		if o2.panicked != nil {
			return harness.Fail("%s panicked on input %x when the slice has spare capacity: %v", e.Name, []byte(c.Data), o2.panicked)
		}
		if !same(o1, o2) {
			return harness.Fail("%s depends on bytes beyond len: input %x gives (%+v, %s) with exact capacity but (%+v, %s) with spare capacity filler #%d", e.Name, []byte(c.Data), o1.val, errText(o1.err), o2.val, errText(o2.err), k)
		}
		if o2.err != nil && e.NilOnError && !cat.IsNilValue(o2.val) {
			return harness.Fail("%s returned error %q together with a non-nil value %+v", e.Name, o2.err, o2.val)
		}
	}
	if pe := entryByName[c.PrevEntry]; pe != nil {
		prev := append([]byte(nil), c.Prev...)
		if op := call(pe, prev); op.panicked != nil {
			return harness.Fail("%s panicked on %d-byte input %x: %v", pe.Name, len(prev), prev, op.panicked)
		}
		if now := reprOf(o1.err); o1.err != nil && now != o1.errRepr[len(o1.errRepr)-len(now):] && "value:"+now != o1.errRepr && now != o1.errRepr {
			return harness.Fail("%s on input %x returned the error %s; after %s parsed %x the same error value reads %s: results are not independent values", e.Name, []byte(c.Data), o1.errRepr, pe.Name, prev, now)
		}
		o3 := call(e, append([]byte(nil), c.Data...))
		if o3.panicked != nil {
			return harness.Fail("%s panicked on input %x (second call): %v", e.Name, []byte(c.Data), o3.panicked)
		}
		if !same(o1, o3) {
			return harness.Fail("%s on input %x gives (%+v, %s) but, after %s has parsed %x, (%+v, %s): the result depends on an earlier call", e.Name, []byte(c.Data), o1.val, o1.errRepr, pe.Name, prev, o3.val, o3.errRepr)
		}
	}
	nt := o1.err == nil || !(strings.Contains(o1.err.Error(), "too short") || strings.Contains(o1.err.Error(), "to short"))
	labels := []string{"src:" + c.Src}
	if o1.err == nil {
		labels = append(labels, "accepted")
	}
	return harness.Result{NonTrivial: nt, Labels: labels}
}

// ---------------------------------------------------------------------------
// generators

// validFrame returns a valid frame suited to the entry (request or response of its function and framing).
func validFrame(t *rapid.T, e *entry) []byte {
	fc := e.FC
	if fc == 0 {
		fc = gen.FC(t)
	}
	isReq := e.Request
	if e.Name == "AsTCPErrorPacket" || e.Name == "AsRTUErrorPacket" || rapid.IntRange(0, 19).Draw(t, "flip") == 0 {
		isReq = rapid.Bool().Draw(t, "isReq")
	}
	if !isReq && rapid.IntRange(0, 7).Draw(t, "exception") == 0 {
		return spec.EncodeResponse(e.Framing, spec.Resp{FC: fc, Unit: rapid.Uint8().Draw(t, "u"), Tx: rapid.Uint16().Draw(t, "tx"), IsException: true, Code: rapid.Uint8().Draw(t, "code")})
	}
	if isReq {
		return spec.EncodeRequest(e.Framing, gen.LegalReq(t, fc, false))
	}
	r := spec.Resp{FC: fc, Unit: rapid.Uint8().Draw(t, "u"), Tx: rapid.Uint16().Draw(t, "tx")}
	switch fc {
	case 1, 2:
		r.Data = gen.Payload(t, "d", rapid.IntRange(1, 250).Draw(t, "n"))
	case 3, 4, 23:
		r.Data = gen.Payload(t, "d", 2*rapid.IntRange(1, 125).Draw(t, "n"))
	case 5, 6, 15, 16:
		r.Addr, r.Value = rapid.Uint16().Draw(t, "a"), rapid.Uint16().Draw(t, "v")
	case 17:
		r.ServerID = gen.Payload(t, "id", rapid.IntRange(1, 60).Draw(t, "idn"))
		r.Additional = gen.Payload(t, "add", rapid.IntRange(0, 60).Draw(t, "addn"))
	}
	return spec.EncodeResponse(e.Framing, r)
}

func fixLen(f spec.Framing, d []byte) {
	if f == spec.TCP && len(d) >= 6 {
		n := len(d) - 6
		d[4], d[5] = byte(n>>8), byte(n)
	}
}

func fixCRC(f spec.Framing, d []byte) {
	if f == spec.RTU && len(d) >= 4 {
		c := spec.RefCRC16(d[:len(d)-2])
		d[len(d)-2], d[len(d)-1] = byte(c), byte(c>>8)
	}
}

func genParse(t *rapid.T) parseCase {
	e := &entries[rapid.IntRange(0, len(entries)-1).Draw(t, "entry")]
	if rapid.IntRange(0, 399).Draw(t, "aged_entry") == 0 {
		e = &agedEntries[rapid.IntRange(0, len(agedEntries)-1).Draw(t, "aged")]
	}
	c := genFor(t, e)
	if rapid.IntRange(0, 3).Draw(t, "with_prev") == 0 {
		pe := &entries[rapid.IntRange(0, len(entries)-1).Draw(t, "prev_entry")]
		if rapid.Bool().Draw(t, "prev_same_family") {
			pe = e
			if e.Framing == spec.TCP && rapid.Bool().Draw(t, "prev_dispatcher") {
				pe = entryByName[rapid.SampledFrom([]string{"ParseTCPRequest", "ParseTCPResponse", "LooksLikeModbusTCP(false)", "ParseMBAPHeader"}).Draw(t, "prev_name")]
			}
		}
		if pe != nil {
			p := genFor(t, pe)
			c.PrevEntry, c.Prev = pe.Name, p.Data
		}
	}
	return c
}

func genFor(t *rapid.T, e *entry) parseCase {
	c := parseCase{Entry: e.Name}
	mode := rapid.IntRange(0, 9).Draw(t, "mode")
	switch {
	case mode <= 6: // structure-aware mutation of a valid frame
		f := validFrame(t, e)
		switch rapid.IntRange(0, 6).Draw(t, "mut") {
		case 0: // as is
			c.Data, c.Src = f, "valid"
		case 1: // prefix
			k := rapid.IntRange(0, len(f)).Draw(t, "k")
			c.Data, c.Tail, c.Src = append([]byte(nil), f[:k]...), f[k:], "prefix"
		case 2: // header-consistent truncation (TCP: length field rewritten; RTU: CRC recomputed)
			k := rapid.IntRange(0, len(f)).Draw(t, "k")
			d := append([]byte(nil), f[:k]...)
			if e.Framing == spec.TCP {
				fixLen(e.Framing, d)
			} else if rapid.Bool().Draw(t, "crc") {
				fixCRC(e.Framing, d)
			}
			c.Data, c.Tail, c.Src = d, f[k:], "consistent-truncation"
		case 3: // single byte substitution
			d := append([]byte(nil), f...)
			i := rapid.IntRange(0, len(d)-1).Draw(t, "i")
			d[i] = rapid.Byte().Draw(t, "b")
			if rapid.Bool().Draw(t, "fix") {
				fixCRC(e.Framing, d)
			}
			c.Data, c.Src = d, "substitution"
		case 4: // byte count / length style edits near the header
			d := append([]byte(nil), f...)
			lim := 17
			if len(d) < lim {
				lim = len(d)
			}
			i := rapid.IntRange(0, lim-1).Draw(t, "i")
			d[i] = byte(int(d[i]) + rapid.SampledFrom([]int{-2, -1, 1, 2, 128}).Draw(t, "delta"))
			if rapid.Bool().Draw(t, "fix") {
				fixCRC(e.Framing, d)
			}
			c.Data, c.Src = d, "field-edit"
		case 5: // extension
			extra := gen.Payload(t, "extra", rapid.IntRange(1, 8).Draw(t, "nextra"))
			d := append(append([]byte(nil), f...), extra...)
			if rapid.Bool().Draw(t, "fixlen") {
				fixLen(e.Framing, d)
				fixCRC(e.Framing, d)
			}
			c.Data, c.Src = d, "extension"
		case 6: // truncation + consistent header + function code swapped to another supported one
			k := rapid.IntRange(0, len(f)).Draw(t, "k")
			d := append([]byte(nil), f[:k]...)
			fcIdx := 7
			if e.Framing == spec.RTU {
				fcIdx = 1
			}
			if len(d) > fcIdx {
				d[fcIdx] = gen.FC(t)
				if rapid.Bool().Draw(t, "excbit") {
					d[fcIdx] |= 0x80
				}
			}
			fixLen(e.Framing, d)
			c.Data, c.Tail, c.Src = d, f[k:], "truncation-fc-swap"
		}
	case mode == 7 && rapid.Bool().Draw(t, "foreign"):
		// input in the shape of another framing or protocol: a Modbus ASCII frame (':' hex digits CR LF) of a few bytes, or a token other
		// protocols open with, followed by random bytes
		if rapid.Bool().Draw(t, "ascii") {
			d := hostile.ASCIIFrame(gen.Payload(t, "ascii_body", rapid.IntRange(0, 9).Draw(t, "ascii_n")))
			if rapid.IntRange(0, 3).Draw(t, "ascii_odd") == 0 && len(d) > 3 {
				d = append(d[:len(d)-3], '\r', '\n') // odd number of hex digits
			}
			c.Data, c.Src = d, "ascii-frame"
		} else {
			tok := rapid.SampledFrom(hostile.Tokens).Draw(t, "token")
			c.Data, c.Src = append(append([]byte(nil), tok...), gen.Payload(t, "after_token", rapid.IntRange(0, 12).Draw(t, "after_n"))...), "foreign-token"
		}
	default: // random string with plausible header
		n := rapid.IntRange(0, 300).Draw(t, "n")
		if rapid.Bool().Draw(t, "short") {
			n = rapid.IntRange(0, 12).Draw(t, "n_short")
		}
		d := gen.Payload(t, "rnd", n)
		if e.Framing == spec.TCP && n >= 8 && rapid.Bool().Draw(t, "plausible") {
			d[2], d[3] = 0, 0
			fixLen(e.Framing, d)
			d[7] = gen.FC(t)
		} else if e.Framing == spec.RTU && n >= 2 && rapid.Bool().Draw(t, "plausible") {
			d[1] = gen.FC(t)
		}
		c.Data, c.Src = d, "random"
	}
	if e.Framing == spec.RTU && mode <= 6 && len(c.Data) >= 4 && rapid.IntRange(0, 7).Draw(t, "glitch") == 0 {
		// line noise in front of a frame that is CRC-consistent on its own (whatever its content): the whole input has a bad CRC
		g := rapid.SampledFrom([][]byte{{0x00}, {0xFF}, {0x00, 0x00}, {0x7E}}).Draw(t, "glitch_bytes")
		inner := append([]byte(nil), c.Data...)
		fixCRC(e.Framing, inner)
		c.Data = append(append([]byte(nil), g...), inner...)
		c.Src += "+noise-in-front"
	}
	return c
}

var chkParse = harness.Define("parse-any-bytes", genParse, runParse).Repeated(2)

func TestRandom(t *testing.T) {
	chkParse.Rapid(t, harness.Pick(50000, 4000000))
}

// TestTiny: every byte string of length 0..2 on every entry point.
func TestTiny(t *testing.T) {
	idx := 0
	for ei := range entries {
		e := &entries[ei]
		idx++
		if !harness.Mine(idx) {
			continue
		}
		if !chkParse.EvalFast(t, parseCase{Entry: e.Name, Data: []byte{}, Src: "tiny"}) {
			return
		}
		for a := 0; a < 256; a++ {
			if !chkParse.EvalFast(t, parseCase{Entry: e.Name, Data: []byte{byte(a)}, Src: "tiny"}) {
				return
			}
			for b := 0; b < 256; b++ {
				if !chkParse.EvalFast(t, parseCase{Entry: e.Name, Data: []byte{byte(a), byte(b)}, Src: "tiny"}) {
					return
				}
			}
		}
	}
	harness.Exhaustive("parse-any-bytes", fmt.Sprintf("every byte string of length 0..2 on each of %d entry points", len(entries)), int64(len(entries))*65793)
}

// TestTruncations: every header-consistent truncation (and plain prefix) of fixed valid frames of every type on the matching entry points.
func TestTruncations(t *testing.T) {
	frames := harness.Pick(3, 40)
	idx := 0
	n := int64(0)
	for ei := range entries {
		e := &entries[ei]
		for k := 0; k < frames; k++ {
			idx++
			if !harness.Mine(idx) {
				continue
			}
			fcs := []uint8{e.FC}
			if e.FC == 0 {
				fcs = spec.Functions
			}
			for _, fc := range fcs {
				f := fixedFrame(e, fc, uint64(k)+harness.Seed()*131)
				for cut := 0; cut <= len(f); cut++ {
					d := append([]byte(nil), f[:cut]...)
					if !chkParse.EvalFast(t, parseCase{Entry: e.Name, Data: d, Tail: f[cut:], Src: "sweep-prefix"}) {
						return
					}
					d2 := append([]byte(nil), f[:cut]...)
					if e.Framing == spec.TCP {
						fixLen(e.Framing, d2)
					} else {
						fixCRC(e.Framing, d2)
					}
					if !chkParse.EvalFast(t, parseCase{Entry: e.Name, Data: d2, Tail: f[cut:], Src: "sweep-consistent-truncation"}) {
						return
					}
					n += 2
				}
			}
		}
	}
	harness.Note("truncation sweep: all prefixes and all header-consistent truncations of %d fixed frames per (entry point, function)", frames)
	_ = n
}

// TestHotSubstitutions: short header-consistent frames with one byte replaced by a boundary value (wrap-around candidates
// for uint8 length arithmetic: 0, 1, 0x7f, 0x80, 0xf0..0xff) at every position, for every entry point and function.
func TestHotSubstitutions(t *testing.T) {
	hot := []byte{0, 1, 2, 0x7f, 0x80, 0xf0, 0xf5, 0xf6, 0xf7, 0xf8, 0xf9, 0xfa, 0xfb, 0xfc, 0xfd, 0xfe, 0xff}
	idx := 0
	n := int64(0)
	for ei := range entries {
		e := &entries[ei]
		fcs := []uint8{e.FC}
		if e.FC == 0 {
			fcs = spec.Functions
		}
		for _, fc := range fcs {
			idx++
			if !harness.Mine(idx) {
				continue
			}
			f := fixedFrame(e, fc, 3)
			maxL := 24
			if len(f) < maxL {
				maxL = len(f)
			}
			for L := 3; L <= maxL; L++ {
				for pos := 0; pos < L; pos++ {
					for _, v := range hot {
						for _, fix := range []bool{false, true} {
							d := append([]byte(nil), f[:L]...)
							d[pos] = v
							if fix {
								if e.Framing == spec.TCP {
									if pos == 4 || pos == 5 {
										continue
									}
									fixLen(e.Framing, d)
								} else {
									if pos >= L-2 {
										continue
									}
									fixCRC(e.Framing, d)
								}
							}
							n++
							if !chkParse.EvalFast(t, parseCase{Entry: e.Name, Data: d, Tail: f[L:], Src: "hot-substitution"}) {
								return
							}
						}
					}
				}
			}
		}
	}
	harness.Exhaustive("parse-any-bytes", "every prefix length 3..24 of one valid frame per (entry point, function) x every position x 17 boundary byte values, raw and with the length field / CRC made consistent", n)
}

func fixedFrame(e *entry, fc uint8, seed uint64) []byte {
	s := seed
	isReq := e.Request
	if e.Name == "AsTCPErrorPacket" || e.Name == "AsRTUErrorPacket" {
		return spec.EncodeResponse(e.Framing, spec.Resp{FC: fc, Unit: uint8(s), Tx: uint16(s >> 8), IsException: true, Code: uint8(s >> 3)})
	}
	if isReq {
		r := spec.Req{FC: fc, Unit: uint8(harness.SplitMix64(&s)), Tx: uint16(harness.SplitMix64(&s)), Addr: uint16(harness.SplitMix64(&s))}
		switch fc {
		case 1, 2:
			r.Qty = 1 + uint16(harness.SplitMix64(&s)%2000)
		case 3, 4:
			r.Qty = 1 + uint16(harness.SplitMix64(&s)%125)
		case 5:
			r.Value = 0xFF00
		case 6:
			r.Value = uint16(harness.SplitMix64(&s))
		case 15:
			r.Qty = 1 + uint16(harness.SplitMix64(&s)%200)
			r.Payload = harness.Bytes(s, (int(r.Qty)+7)/8)
			r.ByteCount = uint8(len(r.Payload))
		case 16:
			r.Qty = 1 + uint16(harness.SplitMix64(&s)%20)
			r.Payload = harness.Bytes(s, 2*int(r.Qty))
			r.ByteCount = uint8(len(r.Payload))
		case 23:
			r.Qty = 1 + uint16(harness.SplitMix64(&s)%125)
			r.WQty = 1 + uint16(harness.SplitMix64(&s)%20)
			r.WAddr = uint16(harness.SplitMix64(&s))
			r.Payload = harness.Bytes(s, 2*int(r.WQty))
			r.ByteCount = uint8(len(r.Payload))
		}
		return spec.EncodeRequest(e.Framing, r)
	}
	r := spec.Resp{FC: fc, Unit: uint8(harness.SplitMix64(&s)), Tx: uint16(harness.SplitMix64(&s))}
	switch fc {
	case 1, 2:
		r.Data = harness.Bytes(s, 1+int(harness.SplitMix64(&s)%30))
	case 3, 4, 23:
		r.Data = harness.Bytes(s, 2*(1+int(harness.SplitMix64(&s)%15)))
	case 5, 6, 15, 16:
		r.Addr, r.Value = uint16(harness.SplitMix64(&s)), uint16(harness.SplitMix64(&s))
	case 17:
		r.ServerID = harness.Bytes(s, 1+int(harness.SplitMix64(&s)%10))
		r.Additional = harness.Bytes(s+1, int(harness.SplitMix64(&s)%6))
	}
	return spec.EncodeResponse(e.Framing, r)
}
