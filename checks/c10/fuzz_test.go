package c10

import (
	"testing"

	"verif/internal/spec"
)

// Native coverage-guided fuzz targets (thorough tier only; go's fuzzer cannot be seeded, the crasher file is the reproducible unit).
// The semantic oracle (no panic, nil-on-error, capacity independence) is inside the target.

func fuzzFamily(f *testing.F, pick func(e *entry) bool) {
	var fam []*entry
	for i := range entries {
		if pick(&entries[i]) {
			fam = append(fam, &entries[i])
		}
	}
	// seed corpus: one valid frame per function for the family's framing/direction plus header-consistent truncations
	for _, e := range fam {
		fcs := []uint8{e.FC}
		if e.FC == 0 {
			fcs = spec.Functions
		}
		for _, fc := range fcs {
			fr := fixedFrame(e, fc, 7)
			f.Add(uint8(0), fr, []byte{})
			for _, cut := range []int{7, 8, 9, 10, 12, len(fr) - 1} {
				if cut > 0 && cut < len(fr) {
					d := append([]byte(nil), fr[:cut]...)
					if e.Framing == spec.TCP {
						fixLen(e.Framing, d)
					}
					f.Add(uint8(0), d, fr[cut:])
				}
			}
		}
	}
	f.Add(uint8(3), []byte{0, 0, 0, 0, 0, 1, 0}, []byte{0xFF})
	f.Fuzz(func(t *testing.T, which uint8, data []byte, tail []byte) {
		if len(data) > 400 || len(tail) > 64 {
			return
		}
		e := fam[int(which)%len(fam)]
		chkParse.EvalFast(t, parseCase{Entry: e.Name, Data: data, Tail: tail, Src: "native-fuzz"})
	})
}

func FuzzTCPRequestParsers(f *testing.F) {
	fuzzFamily(f, func(e *entry) bool { return e.Framing == spec.TCP && e.Request })
}
func FuzzRTURequestParsers(f *testing.F) {
	fuzzFamily(f, func(e *entry) bool { return e.Framing == spec.RTU && e.Request })
}
func FuzzTCPResponseParsers(f *testing.F) {
	fuzzFamily(f, func(e *entry) bool { return e.Framing == spec.TCP && !e.Request })
}
func FuzzRTUResponseParsers(f *testing.F) {
	fuzzFamily(f, func(e *entry) bool { return e.Framing == spec.RTU && !e.Request })
}
func FuzzDispatchers(f *testing.F) {
	fuzzFamily(f, func(e *entry) bool { return e.FC == 0 })
}
func FuzzAllEntryPoints(f *testing.F) {
	fuzzFamily(f, func(e *entry) bool { return true })
}
