package c16

import (
	"bytes"
	"context"
	"fmt"
	"net"
	"runtime"
	"sync"
	"testing"
	"time"

	"github.com/aldas/go-modbus-client/packet"
	"github.com/aldas/go-modbus-client/server"
	"pgregory.net/rapid"

	"verif/internal/device"
	"verif/internal/gen"
	"verif/internal/harness"
	"verif/internal/spec"
	"verif/internal/srv"
	"verif/internal/xport"
)

func TestMain(m *testing.M) {
	harness.EnableJournal()
	harness.Main(m)
}

func TestReplay(t *testing.T)  { harness.RunReplay(t) }
func TestRegress(t *testing.T) { harness.RunRegress(t) }

const kfParser125 = "fc1-fc2-request-parser-limit-125"

type reqCase struct {
	// Class: valid | unsupported | out-of-range | truncated | bad-bytecount | huge-length (complete frame whose MBAP length field is far
	// beyond any legal request, up to 65535) | not-modbus (protocol id not 0: nothing is required but a reply, if any, must be a
	// well-formed exception and nothing may crash)
	Class string   `json:"class"`
	Frame spec.Hex `json:"frame"`
	// Handler: device | typed-error | generic-error | panic
	Handler string `json:"handler"`
	Code    uint8  `json:"code"`
	DevSeed uint64 `json:"dev_seed"`
	Level   string `json:"level"`
	// Cut > 0: the frame is delivered in two reads, Frame[:Cut] then Frame[Cut:]
	Cut int `json:"cut,omitempty"`
	// PauseMs: real silence between the two reads (needs Cut)
	PauseMs int `json:"pause_ms,omitempty"`
	// LateReads k > 0 (level B): every k-th non-empty read of the server's connections also reports an expired read deadline
	// (xport.PipeListener.LateEvery): the bytes belong to the request all the same
	LateReads int `json:"late_reads,omitempty"`
}

func exception(frame []byte, code uint8) []byte {
	return []byte{frame[0], frame[1], 0, 0, 0, 3, frame[6], frame[7] | 0x80, code}
}

// checkReply applies the oracle to the bytes the server sent for the frame.
func checkReply(c reqCase, out []byte, panicked bool) (labels []string, err error) {
	f := c.Frame
	fc := f[7]
	labels = []string{"class:" + c.Class, "handler:" + c.Handler, "level:" + c.Level}
	if c.PauseMs > 0 {
		labels = append(labels, fmt.Sprintf("pause-between-fragments:%dms", c.PauseMs))
	}
	if len(out) == 0 {
		labels = append(labels, "no-reply")
		switch {
		case c.Class == "valid" && c.Handler != "panic":
			return labels, fmt.Errorf("no reply to the valid request %x", f)
		case c.Class == "unsupported" || c.Class == "out-of-range":
			return labels, fmt.Errorf("no exception reply to the %s request %x", c.Class, f)
		case c.Class == "huge-length" && !spec.IsSupported(fc):
			return labels, fmt.Errorf("no exception reply to the complete %d-byte frame with MBAP length %d starting %x", len(f), int(f[4])<<8|int(f[5]), f[:12])
		}
		return labels, nil
	}
	if c.Class == "not-modbus" {
		// the stream is not Modbus TCP, so its later bytes may be taken for further frames: whatever is sent must still be a sequence
		// of well-formed ADUs (and nothing may crash or disturb other connections, checked by the callers)
		for rest := out; len(rest) > 0; {
			if len(rest) < 8 || rest[2] != 0 || rest[3] != 0 || 6+(int(rest[4])<<8|int(rest[5])) > len(rest) || int(rest[4])<<8|int(rest[5]) < 2 {
				return labels, fmt.Errorf("bytes %x sent for the non-Modbus input %x are not a sequence of well-formed ADUs (at offset %d)", out, f, len(out)-len(rest))
			}
			rest = rest[6+(int(rest[4])<<8|int(rest[5])):]
		}
		return labels, nil
	}
	// exactly one well-formed ADU addressed to the request
	if len(out) < 8 {
		return labels, fmt.Errorf("reply %x is shorter than an ADU header (request %x)", out, f)
	}
	if out[2] != 0 || out[3] != 0 {
		return labels, fmt.Errorf("reply %x: protocol id not 0 (request %x)", out, f)
	}
	if n := int(out[4])<<8 | int(out[5]); n != len(out)-6 {
		return labels, fmt.Errorf("reply %x: length field %d but %d bytes follow: not exactly one ADU (request %x)", out, n, len(out)-6, f)
	}
	if out[0] != f[0] || out[1] != f[1] || out[6] != f[6] {
		return labels, fmt.Errorf("reply %x is not addressed to the request %x: transaction id / unit id differ", out, f)
	}
	isExc := out[7]&0x80 != 0
	if isExc {
		labels = append(labels, "exception-reply")
		if len(out) != 9 {
			return labels, fmt.Errorf("exception reply %x is not 9 bytes (request %x)", out, f)
		}
		if out[7] != fc|0x80 {
			return labels, fmt.Errorf("exception reply %x does not carry the request's function code %#02x with the high bit set (request %x)", out, fc, f)
		}
	}
	known := c.Class == "valid" && (fc == 1 || fc == 2) && (int(f[10])<<8|int(f[11])) > 125 && harness.OpenFinding(kfParser125)
	switch c.Class {
	case "unsupported":
		if !bytes.Equal(out, exception(f, 1)) {
			return labels, fmt.Errorf("unsupported function %d: reply %x, want the illegal-function exception %x", fc, out, exception(f, 1))
		}
	case "out-of-range":
		if !bytes.Equal(out, exception(f, 3)) {
			return labels, fmt.Errorf("out-of-range request %x: reply %x, want the illegal-data-value exception %x", f, out, exception(f, 3))
		}
	case "truncated":
		if !isExc {
			return labels, fmt.Errorf("truncated request %x was answered with a normal response %x", f, out)
		}
	case "huge-length":
		// the property does not say that over-long frames must be refused, only that whatever is sent is a well-formed ADU addressed to
		// the request (checked above) and that unsupported functions get exception 01
		if !spec.IsSupported(fc) && !bytes.Equal(out, exception(f, 1)) {
			return labels, fmt.Errorf("unsupported function %d in a frame with MBAP length %d: reply %x, want the illegal-function exception %x", fc, int(f[4])<<8|int(f[5]), out, exception(f, 1))
		}
	case "valid":
		if known {
			if !bytes.Equal(out, exception(f, 3)) {
				return labels, fmt.Errorf("known fc1/fc2 parser-limit region: reply %x, listed behaviour is %x", out, exception(f, 3))
			}
			return append(labels, "known:"+kfParser125), nil
		}
		switch c.Handler {
		case "device":
			want := device.New(c.DevSeed).Answer(spec.TCP, f)
			if !bytes.Equal(out, want) {
				return labels, fmt.Errorf("handler response not forwarded byte for byte: sent %x, handler returned %x (request %x)", out, want, f)
			}
		case "typed-error", "mutate-typed-error":
			if !bytes.Equal(out, exception(f, c.Code)) {
				return labels, fmt.Errorf("handler returned a typed error with code %d: reply %x, want %x", c.Code, out, exception(f, c.Code))
			}
		case "generic-error", "client-exception", "client-exception-wrapped", "mutate-error":
			// (addressing to the request - transaction id, unit id, function code - was checked above for every reply)
			if !isExc {
				return labels, fmt.Errorf("handler returned an error (%s): reply %x is not an exception", c.Handler, out)
			}
		case "panic":
			if !panicked {
				// a reply after a handler panic would have to be an exception
				if !isExc {
					return labels, fmt.Errorf("handler panicked but a normal response %x was sent", out)
				}
			}
		}
	}
	return labels, nil
}

func runReq(c reqCase) harness.Result {
	if len(c.Frame) < 8 {
		return harness.Fail("harness: frame shorter than 8 bytes")
	}
	var labels []string
	var err error
	if c.Level == "B" {
		labels, err = runServer(c)
	} else {
		labels, err = runAssembler(c)
	}
	if err != nil {
		return harness.Result{Err: err, NonTrivial: true}
	}
	for _, l := range labels {
		if l == "known:"+kfParser125 {
			return harness.Result{Excluded: kfParser125, Labels: labels}
		}
	}
	return harness.Result{NonTrivial: !(c.Class == "valid" && c.Handler == "device"), Labels: labels}
}

func handlerFor(c reqCase) *srv.Handler {
	h := &srv.Handler{Dev: device.New(c.DevSeed), Code: c.Code}
	if c.Handler != "device" {
		h.Mode = c.Handler
	}
	return h
}

func runAssembler(c reqCase) ([]string, error) {
	asm := &server.ModbusTCPAssembler{Handler: handlerFor(c)}
	var out []byte
	panicked := false
	var pv interface{}
	func() {
		defer func() {
			if p := recover(); p != nil {
				panicked, pv = true, p
			}
		}()
		parts := [][]byte{c.Frame}
		if c.Cut > 0 && c.Cut < len(c.Frame) {
			parts = [][]byte{c.Frame[:c.Cut], c.Frame[c.Cut:]}
		}
		for i, part := range parts {
			if i > 0 && c.PauseMs > 0 {
				time.Sleep(time.Duration(c.PauseMs) * time.Millisecond)
			}
			buf := append([]byte(nil), part...)
			o, _ := asm.ReceiveRead(context.Background(), buf, len(buf))
			out = append(out, o...)
		}
	}()
	if panicked && !(c.Class == "valid" && c.Handler == "panic") {
		return nil, fmt.Errorf("assembler panicked on request %x (handler %s): %v", []byte(c.Frame), c.Handler, pv)
	}
	// a second, valid request on the same assembler must still be answered correctly (nothing left over)
	labels, err := checkReply(c, out, panicked)
	if err != nil {
		return labels, err
	}
	if !panicked && c.Class != "not-modbus" { // a stream that is not Modbus cannot be resynchronised: nothing is required of what follows on it
		follow := spec.EncodeRequest(spec.TCP, spec.Req{FC: 3, Unit: 9, Tx: 0x7777, Addr: 5, Qty: 1})
		asm.Handler = &srv.Handler{Dev: device.New(c.DevSeed)}
		out2, _ := asm.ReceiveRead(context.Background(), follow, len(follow))
		want := device.New(c.DevSeed).Answer(spec.TCP, follow)
		if !bytes.Equal(out2, want) {
			return labels, fmt.Errorf("after request %x (reply %x) a following valid request %x was answered with %x, want %x: leftovers disturbed it", []byte(c.Frame), out, follow, out2, want)
		}
	}
	if !panicked && c.Handler != "panic" && c.Class != "not-modbus" && len(c.Frame) >= 8 {
		// a master with a constant transaction id asks the neighbouring unit the same thing next: the same frame with another unit id,
		// on the same connection. Its reply must be addressed to it (and otherwise be what this class of request gets).
		twin := c
		twin.Frame = append([]byte(nil), c.Frame...)
		twin.Frame[6] ^= 1
		twin.Cut, twin.PauseMs = 0, 0
		asmT := &server.ModbusTCPAssembler{Handler: handlerFor(c)}
		var outA, outB []byte
		var pT interface{}
		func() {
			defer func() { pT = recover() }()
			outA, _ = asmT.ReceiveRead(context.Background(), append([]byte(nil), c.Frame...), len(c.Frame))
			asmT.Handler = handlerFor(twin)
			outB, _ = asmT.ReceiveRead(context.Background(), append([]byte(nil), twin.Frame...), len(twin.Frame))
		}()
		if pT != nil {
			return labels, fmt.Errorf("assembler panicked on request %x followed by the same request for unit %d: %v", []byte(c.Frame), twin.Frame[6], pT)
		}
		if !bytes.Equal(outA, out) && c.Cut == 0 {
			return labels, fmt.Errorf("request %x answered with %x and, on another assembler, with %x", []byte(c.Frame), out, outA)
		}
		if _, err := checkReply(twin, outB, false); err != nil {
			return labels, fmt.Errorf("request %x followed on the same connection by the same request for unit %d (same transaction id): %v", []byte(c.Frame), twin.Frame[6], err)
		}
	}
	if !panicked && c.Handler != "panic" && c.Class != "not-modbus" {
		// pipelined: the same frame followed by two valid requests, all in ONE read. Every reply must still be a
		// well-formed ADU addressed to its own request, in order.
		byUnit := c.Frame[6] + 1
		f2 := spec.EncodeRequest(spec.TCP, spec.Req{FC: 3, Unit: byUnit, Tx: 0x2222, Addr: 9, Qty: 8})
		f3 := spec.EncodeRequest(spec.TCP, spec.Req{FC: 4, Unit: byUnit, Tx: 0x3333, Addr: 5, Qty: 1})
		router := &routing{main: handlerFor(c), sane: &srv.Handler{Dev: device.New(c.DevSeed)}, saneUnit: byUnit}
		asm2 := &server.ModbusTCPAssembler{Handler: router}
		all := append(append(append([]byte(nil), c.Frame...), f2...), f3...)
		var out3 []byte
		var p3 interface{}
		func() {
			defer func() { p3 = recover() }()
			out3, _ = asm2.ReceiveRead(context.Background(), all, len(all))
		}()
		if p3 != nil {
			return labels, fmt.Errorf("assembler panicked on three pipelined requests starting with %x: %v", []byte(c.Frame), p3)
		}
		ref := device.New(c.DevSeed)
		want2, want3 := ref.Answer(spec.TCP, f2), ref.Answer(spec.TCP, f3)
		tail := append(append([]byte(nil), want2...), want3...)
		if len(out3) < len(tail) || !bytes.Equal(out3[len(out3)-len(tail):], tail) {
			return labels, fmt.Errorf("three requests in one read (%x | %x | %x): the server sent %x, which does not end with the replies %x | %x to the second and third request", []byte(c.Frame), f2, f3, out3, want2, want3)
		}
		if first := out3[:len(out3)-len(tail)]; !bytes.Equal(first, out) {
			return labels, fmt.Errorf("request %x answered with %x when alone but with %x when followed by two more requests in the same read", []byte(c.Frame), out, first)
		}
	}
	return labels, nil
}

func exchange(conn interface {
	Write([]byte) (int, error)
	SetWriteDeadline(time.Time) error
}, col *srv.Collector, before int, frame []byte, want []byte) error {
	_ = conn.SetWriteDeadline(time.Now().Add(5 * time.Second))
	if _, err := conn.Write(frame); err != nil {
		return fmt.Errorf("write failed: %v", err)
	}
	got := col.WaitLen(before+len(want), 3*time.Second)
	if len(got) < before+len(want) {
		got = col.WaitLen(before+len(want), 12*time.Second)
	}
	if !bytes.Equal(got[before:], want) {
		return fmt.Errorf("sent %x, received %x, want %x", frame, got[before:], want)
	}
	return nil
}

func runServer(c reqCase) ([]string, error) {
	l := xport.NewPipeListener()
	l.LateEvery = c.LateReads
	h := handlerFor(c)
	// the bystander and follow-up connections need a sane handler: route by unit id 200
	byUnit := c.Frame[6] + 1 // the bystander's unit id differs from the request's, the router tells them apart by it
	router := &routing{main: h, sane: &srv.Handler{Dev: device.New(c.DevSeed)}, saneUnit: byUnit}
	s := &server.Server{ReadTimeout: 20 * time.Millisecond, WriteTimeout: 2 * time.Second, OnErrorFunc: func(error) {}}
	ctx, cancel := context.WithCancel(context.Background())
	var wg sync.WaitGroup
	wg.Add(1)
	go func() {
		defer wg.Done()
		_ = s.Serve(ctx, l, router)
	}()
	defer func() {
		cancel()
		_ = l.Close()
		wg.Wait()
	}()
	by, err := l.Dial()
	if err != nil {
		return nil, fmt.Errorf("harness: %v", err)
	}
	defer by.Close()
	byCol := srv.Collect(by)
	byReq := spec.EncodeRequest(spec.TCP, spec.Req{FC: 3, Unit: byUnit, Tx: 0x0B0B, Addr: 1, Qty: 2})
	byWant := device.New(c.DevSeed).Answer(spec.TCP, byReq)
	if err := exchange(by, byCol, 0, byReq, byWant); err != nil {
		return nil, fmt.Errorf("bystander connection before the request: %v", err)
	}
	// the bystander now leaves an incomplete frame pending while the other connection is served
	half := len(byReq) / 2
	_ = by.SetWriteDeadline(time.Now().Add(5 * time.Second))
	if _, err := by.Write(byReq[:half]); err != nil {
		return nil, fmt.Errorf("bystander connection: write failed: %v", err)
	}
	conn, err := l.Dial()
	if err != nil {
		return nil, fmt.Errorf("harness: %v", err)
	}
	defer conn.Close()
	col := srv.Collect(conn)
	_ = conn.SetWriteDeadline(time.Now().Add(5 * time.Second))
	parts := [][]byte{c.Frame}
	if c.Cut > 0 && c.Cut < len(c.Frame) {
		parts = [][]byte{c.Frame[:c.Cut], c.Frame[c.Cut:]}
	}
	for i, part := range parts {
		if i > 0 && c.PauseMs > 0 {
			time.Sleep(time.Duration(c.PauseMs) * time.Millisecond)
		}
		if _, err := conn.Write(part); err != nil {
			return nil, fmt.Errorf("server did not read the request: %v", err)
		}
	}
	out := col.WaitQuiet(80*time.Millisecond, 3*time.Second)
	if len(out) == 0 && (c.Class == "valid" || c.Class == "unsupported" || c.Class == "out-of-range") && c.Handler != "panic" {
		out = col.WaitLen(1, 12*time.Second)
		out = col.WaitQuiet(80*time.Millisecond, 3*time.Second)
	}
	closed, _ := col.Closed()
	labels, err := checkReply(c, out, closed && c.Handler == "panic")
	if err != nil {
		return labels, err
	}
	if !closed && c.Class != "not-modbus" {
		// a following valid request on the same connection must be answered normally (no leftovers)
		if err := exchange(conn, col, len(out), byReq, byWant); err != nil {
			return labels, fmt.Errorf("same connection, valid request following %x (reply %x): %v", []byte(c.Frame), out, err)
		}
	}
	// the process survived; the bystander (which had half a request pending all the while) still works; a new connection is still accepted
	if err := exchange(by, byCol, len(byWant), byReq[half:], byWant); err != nil {
		return labels, fmt.Errorf("bystander connection (half a request pending while %x was handled on another connection, handler %s): %v", []byte(c.Frame), c.Handler, err)
	}
	// two more connections, opened after all that (the first ones since then), live at the same time and used alternately: the first sends half a request, the
	// second a whole one, the first the rest. Each gets the reply to its own request.
	if closed {
		time.Sleep(3 * time.Millisecond) // (the server finishes its bookkeeping for the closed connection)
	}
	ca, err := l.Dial()
	if err != nil {
		return labels, fmt.Errorf("harness: %v", err)
	}
	defer ca.Close()
	cb, err := l.Dial()
	if err != nil {
		return labels, fmt.Errorf("harness: %v", err)
	}
	defer cb.Close()
	caCol, cbCol := srv.Collect(ca), srv.Collect(cb)
	reqA := spec.EncodeRequest(spec.TCP, spec.Req{FC: 3, Unit: byUnit, Tx: 0x0A0A, Addr: 7, Qty: 3})
	reqB := spec.EncodeRequest(spec.TCP, spec.Req{FC: 4, Unit: byUnit, Tx: 0x0C0C, Addr: 2, Qty: 1})
	wantA, wantB := device.New(c.DevSeed).Answer(spec.TCP, reqA), device.New(c.DevSeed).Answer(spec.TCP, reqB)
	_ = ca.SetWriteDeadline(time.Now().Add(5 * time.Second))
	if _, err := ca.Write(reqA[:9]); err != nil {
		return labels, fmt.Errorf("later connection A: write failed: %v", err)
	}
	if err := exchange(cb, cbCol, 0, reqB, wantB); err != nil {
		return labels, fmt.Errorf("two connections opened after request %x (handler %s) and used alternately; connection B, while A has 9 bytes of a request pending: %v", []byte(c.Frame), c.Handler, err)
	}
	if err := exchange(ca, caCol, 0, reqA[9:], wantA); err != nil {
		return labels, fmt.Errorf("two connections opened after request %x (handler %s) and used alternately; connection A, completing its request after B was served: %v", []byte(c.Frame), c.Handler, err)
	}
	nc, err := l.Dial()
	if err != nil {
		return labels, fmt.Errorf("new connection after request %x: %v", []byte(c.Frame), err)
	}
	defer nc.Close()
	ncCol := srv.Collect(nc)
	if err := exchange(nc, ncCol, 0, byReq, byWant); err != nil {
		return labels, fmt.Errorf("new connection after request %x (handler %s): %v", []byte(c.Frame), c.Handler, err)
	}
	return labels, nil
}

type routing struct {
	main, sane *srv.Handler
	saneUnit   uint8
}

// Handle routes the bystander's unit id (bystander / follow-up connections) to a well-behaved handler.
func (r *routing) Handle(ctx context.Context, req packet.Request) (packet.Response, error) {
	b := req.Bytes()
	if len(b) > 6 && b[6] == r.saneUnit {
		return r.sane.Handle(ctx, req)
	}
	return r.main.Handle(ctx, req)
}

var unsupported []uint8

func init() {
	for fc := 1; fc <= 127; fc++ {
		if !spec.IsSupported(uint8(fc)) {
			unsupported = append(unsupported, uint8(fc))
		}
	}
}

func illegalize(t *rapid.T, r spec.Req) spec.Req {
	regs := func(q int) ([]byte, uint8) {
		n := (2 * q) % 256 // byte count = low byte of 2*quantity, backed by that many bytes
		if n > 246 {
			n = 246
		}
		return harness.Bytes(uint64(q), n), uint8(n)
	}
	switch r.FC {
	case 1, 2:
		r.Qty = rapid.SampledFrom([]uint16{0, 2001, 4000, 65535}).Draw(t, "bad_qty")
	case 3, 4:
		r.Qty = rapid.SampledFrom([]uint16{0, 126, 127, 256, 65535}).Draw(t, "bad_qty")
	case 5:
		r.Value = rapid.SampledFrom([]uint16{1, 0x00FF, 0xFF01, 0xFFFF}).Draw(t, "bad_value")
	case 15:
		r.Qty = rapid.SampledFrom([]uint16{0, 1969, 2000, 65535}).Draw(t, "bad_qty")
	case 16:
		r.Qty = rapid.SampledFrom([]uint16{0, 124, 125, 65535}).Draw(t, "bad_qty")
		if rapid.Bool().Draw(t, "bad_qty_any") {
			r.Qty = uint16(rapid.IntRange(124, 65535).Draw(t, "bad_qty_r"))
		}
		r.Payload, r.ByteCount = regs(int(r.Qty))
	case 23:
		if rapid.Bool().Draw(t, "bad_read") {
			r.Qty = rapid.SampledFrom([]uint16{0, 126, 65535}).Draw(t, "bad_qty")
		} else {
			r.WQty = rapid.SampledFrom([]uint16{0, 122, 125, 65535}).Draw(t, "bad_wqty")
			if rapid.Bool().Draw(t, "bad_wqty_any") {
				r.WQty = uint16(rapid.IntRange(122, 65535).Draw(t, "bad_wqty_r"))
			}
			r.Payload, r.ByteCount = regs(int(r.WQty))
		}
	}
	return r
}

func fixLen(d []byte) {
	n := len(d) - 6
	d[4], d[5] = byte(n>>8), byte(n)
}

func genReq(t *rapid.T, level string) reqCase {
	c := reqCase{Level: level, DevSeed: rapid.Uint64().Draw(t, "dev_seed")}
	c.Class = rapid.SampledFrom([]string{"valid", "valid", "valid", "valid", "unsupported", "unsupported", "out-of-range", "out-of-range", "truncated", "truncated", "bad-bytecount", "bad-bytecount", "huge-length", "not-modbus"}).Draw(t, "class")
	c.Handler = "device"
	switch c.Class {
	case "valid":
		c.Handler = rapid.SampledFrom([]string{"device", "typed-error", "typed-error", "generic-error", "panic", "client-exception", "client-exception-wrapped", "mutate-error", "mutate-typed-error"}).Draw(t, "handler")
		c.Code = rapid.SampledFrom([]uint8{1, 2, 3, 4, 5, 6, 8, 10, 11}).Draw(t, "code")
		c.Frame = spec.EncodeRequest(spec.TCP, gen.LegalReq(t, gen.FC(t), rapid.Bool().Draw(t, "fits")))
	case "unsupported":
		fc := rapid.SampledFrom(unsupported).Draw(t, "ufc")
		body := gen.Payload(t, "body", rapid.IntRange(1, 250).Draw(t, "nbody"))
		c.Frame = spec.Frame(spec.TCP, rapid.Uint16().Draw(t, "tx"), rapid.Uint8().Draw(t, "unit"), append([]byte{fc}, body...))
	case "out-of-range":
		fc := rapid.SampledFrom([]uint8{1, 2, 3, 4, 5, 15, 16, 23}).Draw(t, "fc")
		c.Frame = spec.EncodeRequest(spec.TCP, illegalize(t, gen.LegalReq(t, fc, false)))
		if rapid.Bool().Draw(t, "blind_handler") {
			c.Handler = "accept-all" // the handler would answer anything: the refusal must come from the library
		}
	case "truncated":
		f := spec.EncodeRequest(spec.TCP, gen.LegalReq(t, rapid.SampledFrom([]uint8{1, 2, 3, 4, 5, 6, 15, 16, 23}).Draw(t, "fc"), false))
		k := rapid.IntRange(8, len(f)-1).Draw(t, "k")
		if rapid.Bool().Draw(t, "hotk") {
			k = rapid.SampledFrom([]int{8, 9, 10, 11, 12, 13, 16}).Draw(t, "k_hot")
			if k > len(f)-1 {
				k = len(f) - 1
			}
		}
		d := append([]byte(nil), f[:k]...)
		fixLen(d)
		c.Frame = d
	case "huge-length":
		fc := gen.FC(t)
		if rapid.IntRange(0, 3).Draw(t, "unsupported_fc") == 0 {
			fc = rapid.SampledFrom(unsupported).Draw(t, "ufc")
		}
		n := rapid.SampledFrom([]int{65535, 65534, 65533, 65532, 65531, 65530, 65529, 32768, 300, 255, 254}).Draw(t, "length")
		if rapid.IntRange(0, 3).Draw(t, "length_any") == 0 {
			n = rapid.IntRange(254, 65535).Draw(t, "length_r")
		}
		body := harness.Bytes(c.DevSeed, n-2)
		c.Frame = spec.Frame(spec.TCP, rapid.Uint16().Draw(t, "tx"), rapid.Uint8().Draw(t, "unit"), append([]byte{fc}, body...))
	case "not-modbus":
		f := spec.EncodeRequest(spec.TCP, gen.LegalReq(t, gen.FC(t), true))
		if rapid.Bool().Draw(t, "random_bytes") {
			f = gen.Payload(t, "junk", rapid.IntRange(8, 40).Draw(t, "njunk"))
		}
		f = append([]byte(nil), f...)
		f[2+rapid.IntRange(0, 1).Draw(t, "pidx")] = byte(rapid.IntRange(1, 255).Draw(t, "pid"))
		c.Frame = f
	case "bad-bytecount":
		fc := rapid.SampledFrom([]uint8{15, 16, 23}).Draw(t, "fc")
		r := gen.LegalReq(t, fc, false)
		if rapid.Bool().Draw(t, "field") {
			r.ByteCount = uint8(int(r.ByteCount) + rapid.SampledFrom([]int{-2, -1, 1, 2, 100}).Draw(t, "delta"))
		} else {
			n := len(r.Payload) + rapid.SampledFrom([]int{-2, -1, 1, 2}).Draw(t, "pdelta")
			if n < 0 {
				n = 0
			}
			r.Payload = harness.Bytes(7, n)
		}
		c.Frame = spec.EncodeRequest(spec.TCP, r)
	}
	if rapid.IntRange(0, 2).Draw(t, "split") == 0 && len(c.Frame) > 1 {
		c.Cut = rapid.IntRange(1, len(c.Frame)-1).Draw(t, "cut")
		if rapid.Bool().Draw(t, "cut_hot") {
			c.Cut = rapid.SampledFrom([]int{3, 4, 5, 6, 7, 8, 9, 10, 11, 12}).Draw(t, "cut_h")
			if c.Cut >= len(c.Frame) {
				c.Cut = len(c.Frame) - 1
			}
		}
	}
	if level == "B" {
		c.LateReads = rapid.SampledFrom([]int{0, 0, 1, 2, 3}).Draw(t, "late_reads")
	}
	return c
}

var chkA = harness.Define("assembler-replies", func(t *rapid.T) reqCase { return genReq(t, "A") }, runReq)
var chkB = harness.Define("server-replies", func(t *rapid.T) reqCase { return genReq(t, "B") }, runReq)

// ---------------------------------------------------------------------------
// several connections sending rejected frames at the same time

type crowdCase struct {
	Conns   int    `json:"conns"`
	PerConn int    `json:"per_conn"`
	Seed    uint64 `json:"seed"`
	Procs   int    `json:"procs"`
}

// rejectedFrame builds the k-th frame of connection ci: a frame the server answers with an exception that must carry the frame's own
// transaction id, unit id and function code: not Modbus (8 bytes, protocol id 1), unsupported function, out-of-range quantity, or a
// valid request that the handler refuses with an error after it has worked on it for a moment (units >= 200).
func rejectedFrame(seed uint64, ci, k int) (frame, want []byte) {
	s := seed + uint64(ci)*1000003 + uint64(k)*7919
	v := harness.SplitMix64(&s)
	tx, unit := uint16(v), uint8(v>>16)
	switch (ci + k) % 4 {
	case 3:
		unit = 200 + unit%56
		frame = spec.EncodeRequest(spec.TCP, spec.Req{FC: 3, Unit: unit, Tx: tx, Addr: uint16(v >> 24), Qty: 1 + uint16(v>>40)%100})
		return frame, exception(frame, srv.ErrorCodeFor(unit))
	case 0:
		fc := uint8(1 + (v>>24)%4)
		frame = []byte{byte(tx >> 8), byte(tx), 0, 1, 0, 6, unit, fc}
		return frame, nil // code checked loosely: addressed 9-byte exception
	case 1:
		fc := unsupported[int(v>>24)%len(unsupported)]
		frame = spec.Frame(spec.TCP, tx, unit, []byte{fc, 1, 2, 3})
		return frame, exception(frame, 1)
	}
	frame = spec.EncodeRequest(spec.TCP, spec.Req{FC: 3, Unit: unit, Tx: tx, Addr: 1, Qty: 126 + uint16(v>>24)%100})
	return frame, exception(frame, 3)
}

func runCrowd(c crowdCase) harness.Result {
	if c.Procs > 0 {
		old := runtime.GOMAXPROCS(c.Procs)
		defer runtime.GOMAXPROCS(old)
	}
	l := xport.NewPipeListener()
	s := &server.Server{ReadTimeout: 20 * time.Millisecond, WriteTimeout: 2 * time.Second, OnErrorFunc: func(error) {}}
	ctx, cancel := context.WithCancel(context.Background())
	var wg sync.WaitGroup
	wg.Add(1)
	go func() {
		defer wg.Done()
		_ = s.Serve(ctx, l, &srv.Handler{Dev: device.New(c.Seed), ErrorFromUnit: 200, Delay: 200 * time.Microsecond})
	}()
	defer func() {
		cancel()
		_ = l.Close()
		wg.Wait()
	}()
	errs := make([]error, c.Conns)
	var cw sync.WaitGroup
	start := make(chan struct{})
	for ci := 0; ci < c.Conns; ci++ {
		conn, err := l.Dial()
		if err != nil {
			return harness.Fail("harness: %v", err)
		}
		defer conn.Close()
		cw.Add(1)
		go func(ci int, conn net.Conn) {
			defer cw.Done()
			col := srv.Collect(conn)
			<-start
			got := 0
			for k := 0; k < c.PerConn; k++ {
				frame, want := rejectedFrame(c.Seed, ci, k)
				_ = conn.SetWriteDeadline(time.Now().Add(5 * time.Second))
				if _, err := conn.Write(frame); err != nil {
					errs[ci] = fmt.Errorf("connection %d: write of frame %d failed: %v", ci, k, err)
					return
				}
				all := col.WaitLen(got+9, 10*time.Second)
				if len(all) < got+9 {
					errs[ci] = fmt.Errorf("connection %d: no 9-byte exception for the rejected frame %x within 10 s (received %x)", ci, frame, all[got:])
					return
				}
				out := all[got : got+9]
				got += 9
				if want == nil {
					want = exception(frame, out[8])
				}
				if !bytes.Equal(out, want) {
					errs[ci] = fmt.Errorf("connection %d (one of %d sending rejected frames at the same time): frame %x was answered with %x, want %x", ci, c.Conns, frame, out, want)
					return
				}
			}
		}(ci, conn)
	}
	close(start)
	cw.Wait()
	for _, e := range errs {
		if e != nil {
			return harness.Result{Err: e, NonTrivial: true}
		}
	}
	return harness.Result{NonTrivial: c.Conns >= 2, Labels: []string{fmt.Sprintf("crowd:%d", c.Conns)}, Weight: int64(c.Conns * c.PerConn)}
}

var chkCrowd = harness.Define("concurrent-rejections",
	func(t *rapid.T) crowdCase {
		return crowdCase{Conns: rapid.IntRange(2, 8).Draw(t, "conns"), PerConn: rapid.IntRange(5, 40).Draw(t, "per_conn"), Seed: rapid.Uint64().Draw(t, "seed"), Procs: rapid.SampledFrom([]int{2, 4, 16}).Draw(t, "procs")}
	}, runCrowd)

// TestSlowFragments: a frame whose second part arrives after a real silence (60 ms, 650 ms, 1.2 s): a slow client is still one client.
func TestSlowFragments(t *testing.T) {
	idx := 0
	frames := []reqCase{
		{Class: "valid", Handler: "device", Frame: spec.EncodeRequest(spec.TCP, spec.Req{FC: 16, Unit: 1, Tx: 0x1234, Addr: 10, Qty: 2, ByteCount: 4, Payload: []byte{0xBB, 0xBB, 0x10, 0x03}}), Cut: 13},
		{Class: "out-of-range", Handler: "device", Frame: spec.EncodeRequest(spec.TCP, spec.Req{FC: 3, Unit: 9, Tx: 0x4321, Addr: 1, Qty: 126}), Cut: 9},
		{Class: "unsupported", Handler: "device", Frame: spec.Frame(spec.TCP, 0x0BAD, 7, []byte{43, 14, 1, 0}), Cut: 10},
	}
	for _, level := range []string{"A", "B"} {
		for _, pause := range []int{60, 650, 1200} {
			for _, fr := range frames {
				idx++
				if !harness.Mine(idx) {
					continue
				}
				c := fr
				c.Level, c.PauseMs, c.DevSeed = level, pause, uint64(idx)
				ck := chkA
				if level == "B" {
					ck = chkB
				}
				if !ck.Eval(t, c) {
					return
				}
			}
		}
	}
}

func TestCrowd(t *testing.T) {
	chkCrowd.Rapid(t, harness.Pick(12, 300))
}

func TestFindings(t *testing.T) {
	harness.Probe(t, kfParser125, func(fd harness.Finding) (bool, string) {
		f := spec.EncodeRequest(spec.TCP, spec.Req{FC: 2, Unit: 1, Tx: 9, Addr: 0, Qty: 2000})
		asm := &server.ModbusTCPAssembler{Handler: &srv.Handler{Dev: device.New(1)}}
		out, _ := asm.ReceiveRead(context.Background(), f, len(f))
		if bytes.Equal(out, exception(f, 3)) {
			return true, fmt.Sprintf("legal request %x answered with %x", f, out)
		}
		return false, ""
	})
}

func TestRandom(t *testing.T) {
	chkA.Rapid(t, harness.Pick(5000, 200000))
	chkB.Rapid(t, harness.Pick(60, 1500))
}

func TestSweeps(t *testing.T) {
	// all 117 unsupported codes, several bodies
	idx := 0
	for _, fc := range unsupported {
		for _, nb := range []int{1, 4, 250} {
			idx++
			if !harness.Mine(idx) {
				continue
			}
			f := spec.Frame(spec.TCP, uint16(fc)*257, fc^0x5A, append([]byte{fc}, harness.Bytes(uint64(fc), nb)...))
			if !chkA.Eval(t, reqCase{Class: "unsupported", Frame: f, Handler: "device", DevSeed: 3, Level: "A"}) {
				return
			}
		}
	}
	harness.Exhaustive("assembler-replies", "all 117 unsupported function codes 1..127 x 3 body sizes", int64(len(unsupported)*3))
	// quantity axis per function (out-of-range and legal), whole axis in thorough
	step := harness.Pick(97, 1)
	lo, hi := harness.Range(65536)
	for q := lo; q < hi; q += step {
		for _, fc := range []uint8{1, 3, 15, 16} {
			r := spec.Req{FC: fc, Unit: uint8(q), Tx: uint16(q * 3), Addr: 7, Qty: uint16(q)}
			switch fc {
			case 15:
				nb := (q + 7) / 8
				if nb > 246 {
					nb = 246
				}
				r.Payload, r.ByteCount = make([]byte, nb), uint8(nb)
			case 16:
				nb := 2 * q
				if nb > 246 {
					nb = 246
				}
				r.Payload, r.ByteCount = make([]byte, nb), uint8(nb)
			}
			class := "valid"
			if spec.LegalRequest(r) != nil {
				class = "out-of-range"
				lim := map[uint8]int{1: 2000, 3: 125, 15: 1968, 16: 123}[fc]
				if q >= 1 && q <= lim {
					class = "bad-bytecount"
				}
			}
			if !chkA.EvalFast(t, reqCase{Class: class, Frame: spec.EncodeRequest(spec.TCP, r), Handler: "device", DevSeed: 3, Level: "A"}) {
				return
			}
		}
	}
	if harness.Thorough() {
		harness.Exhaustive("assembler-replies", "every quantity 0..65535 for fc1, fc3, fc15, fc16 requests", 4*65536)
	}
}

// ---------------------------------------------------------------------------
// bursts: a client writes Per pipelined requests at once (Per x 12 bytes: 24, 25 and 26 requests are 288, 300 and 312 bytes - the
// server connection reads into a 300-byte array), collects the replies, waits for the line to go quiet and then sends single
// requests. Every request gets exactly its own reply, once, in order - some of the requests are refused by the handler.

type burstCase struct {
	Per    int    `json:"per"`
	Bursts int    `json:"bursts"`
	Seed   uint64 `json:"seed"`
	// IdleMs: silence between a burst and what follows (the server's read timeout is 20 ms)
	IdleMs int `json:"idle_ms"`
	// LateReads: see reqCase
	LateReads int `json:"late_reads,omitempty"`
}

func runBurst(c burstCase) harness.Result {
	l := xport.NewPipeListener()
	l.LateEvery = c.LateReads
	s := &server.Server{ReadTimeout: 20 * time.Millisecond, WriteTimeout: 2 * time.Second, OnErrorFunc: func(error) {}}
	ctx, cancel := context.WithCancel(context.Background())
	var wg sync.WaitGroup
	wg.Add(1)
	go func() {
		defer wg.Done()
		_ = s.Serve(ctx, l, &srv.Handler{Dev: device.New(c.Seed), ErrorFromUnit: 200})
	}()
	defer func() {
		cancel()
		_ = l.Close()
		wg.Wait()
	}()
	conn, err := l.Dial()
	if err != nil {
		return harness.Fail("harness: %v", err)
	}
	defer conn.Close()
	col := srv.Collect(conn)
	ref := device.New(c.Seed)
	sd := c.Seed
	tx := uint16(0)
	next := func() (frame, want []byte) {
		v := harness.SplitMix64(&sd)
		tx++
		r := spec.Req{FC: 3 + uint8(v&1), Unit: uint8(1 + (v>>8)%9), Tx: tx, Addr: uint16(v>>16) & 0x3FFF, Qty: 1 + uint16(v>>40)%6}
		if v%7 == 0 {
			r.Unit = 200 + uint8(v>>8)%50
		}
		frame = spec.EncodeRequest(spec.TCP, r)
		if r.Unit >= 200 {
			return frame, exception(frame, srv.ErrorCodeFor(r.Unit))
		}
		return frame, ref.Answer(spec.TCP, frame)
	}
	got := 0
	for b := 0; b < c.Bursts; b++ {
		var burst, wants []byte
		for i := 0; i < c.Per; i++ {
			f, w := next()
			burst, wants = append(burst, f...), append(wants, w...)
		}
		if err := exchange(conn, col, got, burst, wants); err != nil {
			return harness.Fail("burst %d of %d requests (%d bytes) written at once: %v", b+1, c.Per, len(burst), err)
		}
		got += len(wants)
		time.Sleep(time.Duration(c.IdleMs) * time.Millisecond)
		for k := 0; k < 2; k++ {
			f, w := next()
			if err := exchange(conn, col, got, f, w); err != nil {
				return harness.Fail("single request %d after burst %d (%d requests, %d bytes, written at once; then %d ms of silence): %v", k+1, b+1, c.Per, len(burst), c.IdleMs, err)
			}
			got += len(w)
		}
	}
	if all := col.WaitQuiet(40*time.Millisecond, time.Second); len(all) != got {
		return harness.Fail("after the last reply the server sent %d more bytes: %x", len(all)-got, all[got:])
	}
	return harness.Result{NonTrivial: true, Labels: []string{fmt.Sprintf("burst-bytes:%d", 12*c.Per)}, Weight: int64(c.Bursts * (c.Per + 2))}
}

var chkBurst = harness.Define("pipelined-bursts",
	func(t *rapid.T) burstCase {
		return burstCase{Per: rapid.SampledFrom([]int{1, 2, 12, 24, 25, 25, 25, 26, 50, 75}).Draw(t, "per"), Bursts: rapid.IntRange(1, 3).Draw(t, "bursts"),
			Seed: rapid.Uint64().Draw(t, "seed"), IdleMs: rapid.SampledFrom([]int{0, 30, 60}).Draw(t, "idle_ms"), LateReads: rapid.SampledFrom([]int{0, 0, 1, 2, 3}).Draw(t, "late_reads")}
	}, runBurst)

func TestBursts(t *testing.T) { chkBurst.Rapid(t, harness.Pick(20, 400)) }
