package c17

import (
	"bytes"
	"context"
	"errors"
	"fmt"
	"io"
	"net"
	"os"
	"sync"
	"sync/atomic"
	"testing"
	"time"

	"github.com/aldas/go-modbus-client/packet"
	"github.com/aldas/go-modbus-client/server"
	"pgregory.net/rapid"

	"verif/internal/device"
	"verif/internal/harness"
	"verif/internal/spec"
	"verif/internal/srv"
	"verif/internal/xport"
)

func TestMain(m *testing.M) {
	harness.EnableJournal()
	harness.Main(m)
}

func TestReplay(t *testing.T)  { harness.RunReplay(t) }
func TestRegress(t *testing.T) { harness.RunRegress(t) }

// step of a lifecycle scenario
type step struct {
	// Op: connect | request | inflight | idle | disconnect | addr | shutdown | cancel
	Op     string `json:"op"`
	Client int    `json:"client,omitempty"`
	// request: handler delay in ms, fragmented delivery
	DelayMs    int  `json:"delay_ms,omitempty"`
	Fragmented bool `json:"fragmented,omitempty"`
	// Tail (with Fragmented): the last fragment has this many bytes (0: the request is split after its 5th byte)
	Tail   int `json:"tail,omitempty"`
	IdleMs int `json:"idle_ms,omitempty"`
}

type lifeCase struct {
	// Callbacks bit mask: 1 OnServe, 2 OnError, 4 OnAccept, 8 OnClose
	Callbacks int `json:"callbacks"`
	// Reject: indexes (in connect order) of connections the accept callback rejects (only with OnAccept)
	Reject []int  `json:"reject"`
	Steps  []step `json:"steps"`
	Seed   uint64 `json:"seed"`
	// WriteDelayMs: every server-side Write on an accepted connection is delayed by this much (slow peer / congested link),
	// so a reply can still be on its way out when Shutdown polls the connections
	WriteDelayMs int `json:"write_delay_ms,omitempty"`
	// WriteTimeoutMs: Server.WriteTimeout (0: 30 s). A short value combined with slow handlers checks that the time a handler
	// takes does not eat into the time allowed for writing its reply.
	WriteTimeoutMs int `json:"write_timeout_ms,omitempty"`
	// AcceptDelayMs (only with OnAccept): the accept callback takes this long after it has been entered, so the following steps -
	// in particular shutdown and cancel - happen while a connection is still being accepted
	AcceptDelayMs int `json:"accept_delay_ms,omitempty"`
	// Reenter: every installed callback calls back into the server (Server.Addr(), which takes the server's lock for reading)
	Reenter bool `json:"reenter,omitempty"`
	// ReadTimeoutMs: Server.ReadTimeout (0: 10 ms). With a long value (a minute) an idle connection sits in one Read for that long; serve
	// must still return promptly when its context is cancelled, and Shutdown must still close idle connections.
	ReadTimeoutMs int `json:"read_timeout_ms,omitempty"`
	// BareListener: Serve is given a listener that offers nothing but Accept, Close and Addr (what tls.NewListener,
	// netutil.LimitListener or any decorator embedding net.Listener is) instead of the *net.TCPListener itself
	BareListener bool `json:"bare_listener,omitempty"`
}

// bareListener hides every method of the wrapped listener except the three of net.Listener.
type bareListener struct{ net.Listener }

// slowListener wraps accepted connections so that Write is delayed.
type slowListener struct {
	net.Listener
	delay time.Duration
}

func (l slowListener) Accept() (net.Conn, error) {
	c, err := l.Listener.Accept()
	if err != nil {
		return nil, err
	}
	return slowConn{c, l.delay}, nil
}

type slowConn struct {
	net.Conn
	delay time.Duration
}

func (c slowConn) Write(p []byte) (int, error) {
	time.Sleep(c.delay)
	return c.Conn.Write(p)
}

// shutdownWithin calls Shutdown with a context of the given duration and waits at most 20 s longer for it to return.
func shutdownWithin(s *server.Server, d time.Duration) (err error, returned bool) {
	sctx, sc := context.WithTimeout(context.Background(), d)
	defer sc()
	ch := make(chan error, 1)
	go func() { ch <- s.Shutdown(sctx) }()
	select {
	case err = <-ch:
		return err, true
	case <-time.After(d + patience):
		return nil, false
	}
}

// patience is how long the lifecycle scenario waits for something the server owes (a reply, a handler start, Shutdown's return after
// its context has ended) before it calls it missing: a starved machine (every core taken by other race-enabled test binaries) has
// been seen to take more than 5 s for a plain request.
const patience = 20 * time.Second

// panicUnit: a request for this unit id makes the handler panic
const panicUnit = 0xEE

const (
	cbServe  = 1
	cbError  = 2
	cbAccept = 4
	cbClose  = 8
)

type events struct {
	mu       sync.Mutex
	accepts  map[string][]uint64 // remote addr -> counts reported
	closes   map[string]int
	started  map[string]int
	served   chan string
	rejectIx map[int]bool
	nAccept  int
	cond     *sync.Cond
}

func (e *events) wait(ceiling time.Duration, pred func() bool) bool {
	deadline := time.Now().Add(ceiling)
	e.mu.Lock()
	defer e.mu.Unlock()
	for !pred() {
		if time.Now().After(deadline) {
			return false
		}
		e.mu.Unlock()
		time.Sleep(300 * time.Microsecond)
		e.mu.Lock()
	}
	return true
}

type handler struct {
	ev  *events
	dev *device.Device
	mu  sync.Mutex
	// serveCancelled is set by the scenario before it cancels the serve context. Until then the context a handler is given is live, and
	// the handler - like a gateway that passes its context on to an upstream call - fails when it finds it done.
	serveCancelled atomic.Bool
}

func (h *handler) Handle(ctx context.Context, req packet.Request) (packet.Response, error) {
	raw := req.Bytes()
	ra, _ := ctx.Value(server.ContextRemoteAddr{}).(net.Addr)
	h.ev.mu.Lock()
	if ra != nil {
		h.ev.started[ra.String()]++
	}
	h.ev.mu.Unlock()
	if raw[6] == panicUnit {
		var m map[string]int
		m["handler"] = 1 // a handler that blows up (nil map write)
	}
	if d := int(raw[6]); d > 0 { // unit id = handler duration in ms
		time.Sleep(time.Duration(d) * time.Millisecond)
	}
	if err := ctx.Err(); err != nil && !h.serveCancelled.Load() {
		return nil, fmt.Errorf("handler: the context it was given is done although nobody cancelled the serve context: %w", err)
	}
	h.mu.Lock()
	reply := h.dev.Answer(spec.TCP, raw)
	h.mu.Unlock()
	return rawResp{reply, req.FunctionCode()}, nil
}

type rawResp struct {
	b  []byte
	fc uint8
}

func (r rawResp) FunctionCode() uint8 { return r.fc }
func (r rawResp) Bytes() []byte       { return r.b }

type client struct {
	conn     net.Conn
	local    string
	accepted bool // passed the accept policy (as far as the model knows)
	// sure: the server has certainly accepted the connection (accept callback seen, or a reply was received on it);
	// a connection that merely completed the TCP handshake may still sit in the listen backlog when the listener is closed
	sure            bool
	rejected        bool
	closedByUs      bool
	confirmed       bool   // close callback seen after our disconnect
	inflight        []byte // expected reply of an in-flight request (handler started, reply not yet read)
	inflightStarted bool
}

func waitErr(ch <-chan error, first, second time.Duration) (error, bool) {
	select {
	case e := <-ch:
		return e, true
	case <-time.After(first):
	}
	select {
	case e := <-ch:
		return e, true
	case <-time.After(second):
		return nil, false
	}
}

func readFull(conn net.Conn, n int, ceiling time.Duration) ([]byte, error) {
	buf := make([]byte, n)
	_ = conn.SetReadDeadline(time.Now().Add(ceiling))
	k, err := io.ReadFull(conn, buf)
	return buf[:k], err
}

// observeClosed: the client end sees the connection closed by the server (EOF / reset) within the ceiling.
func observeClosed(conn net.Conn, ceiling time.Duration) (bool, []byte) {
	_ = conn.SetReadDeadline(time.Now().Add(ceiling))
	var got []byte
	b := make([]byte, 512)
	for {
		n, err := conn.Read(b)
		got = append(got, b[:n]...)
		if err != nil {
			var ne net.Error
			if errors.As(err, &ne) && ne.Timeout() {
				return false, got
			}
			return true, got
		}
	}
}

// runLife: scenarios with a short server write timeout are the only ones in which machine load could turn into a failure
// (a scheduling hiccup between SetWriteDeadline and Write): a failure there is reported only if it repeats three times.
func runLife(c lifeCase) harness.Result {
	r := runLifeOnce(c)
	if r.Err != nil && c.WriteTimeoutMs > 0 && c.WriteDelayMs == 0 {
		for i := 0; i < 2 && r.Err != nil; i++ {
			r = runLifeOnce(c)
		}
	}
	return r
}

func runLifeOnce(c lifeCase) harness.Result {
	ev := &events{accepts: map[string][]uint64{}, closes: map[string]int{}, started: map[string]int{}, served: make(chan string, 1), rejectIx: map[int]bool{}}
	for _, r := range c.Reject {
		ev.rejectIx[r] = true
	}
	if c.Callbacks&cbServe == 0 {
		ev.nAccept = -1 // the warm-up connection (see below) takes accept index -1
	}
	h := &handler{ev: ev, dev: device.New(c.Seed)}
	s := &server.Server{ReadTimeout: 10 * time.Millisecond, WriteTimeout: 30 * time.Second}
	if c.ReadTimeoutMs > 0 {
		s.ReadTimeout = time.Duration(c.ReadTimeoutMs) * time.Millisecond
	}
	if c.WriteTimeoutMs > 0 && c.WriteDelayMs == 0 {
		s.WriteTimeout = time.Duration(c.WriteTimeoutMs) * time.Millisecond
	}
	listener, err := net.Listen("tcp", "127.0.0.1:0")
	if err != nil {
		return harness.Fail("harness: listen: %v", err)
	}
	addr := listener.Addr().String()
	reenter := func() {
		if c.Reenter {
			_ = s.Addr()
		}
	}
	if c.Callbacks&cbServe != 0 {
		s.OnServeFunc = func(a net.Addr) { reenter(); ev.served <- a.String() }
	}
	if c.Callbacks&cbError != 0 {
		s.OnErrorFunc = func(error) { reenter() }
	}
	if c.Callbacks&cbAccept != 0 {
		s.OnAcceptConnFunc = func(ctx context.Context, ra net.Addr, n uint64) error {
			ev.mu.Lock()
			ix := ev.nAccept
			ev.nAccept++
			ev.accepts[ra.String()] = append(ev.accepts[ra.String()], n)
			reject := ev.rejectIx[ix]
			ev.mu.Unlock()
			reenter()
			if c.AcceptDelayMs > 0 {
				time.Sleep(time.Duration(c.AcceptDelayMs) * time.Millisecond)
			}
			if reject {
				return errors.New("rejected by policy")
			}
			return nil
		}
	}
	if c.Callbacks&cbClose != 0 {
		s.OnCloseConnFunc = func(ctx context.Context, ra net.Addr, isShutdown bool) {
			reenter()
			ev.mu.Lock()
			ev.closes[ra.String()]++
			ev.mu.Unlock()
		}
	}
	ctx, cancelServe := context.WithCancel(context.Background())
	cancel := func() { h.serveCancelled.Store(true); cancelServe() }
	defer cancel()
	serveErr := make(chan error, 1)
	var serveOn net.Listener = listener
	if c.WriteDelayMs > 0 {
		serveOn = slowListener{listener, time.Duration(c.WriteDelayMs) * time.Millisecond}
	}
	if c.BareListener {
		serveOn = bareListener{serveOn}
	}
	go func() { serveErr <- s.Serve(ctx, serveOn, h) }()
	if c.Callbacks&cbServe != 0 {
		select {
		case a := <-ev.served:
			if a != addr {
				return harness.Fail("OnServeFunc announced %s, listener is %s", a, addr)
			}
		case <-time.After(5 * time.Second):
			return harness.Fail("OnServeFunc was not called within 5 s")
		}
	}
	clients := map[int]*client{}
	connectIx := 0
	var allClients []*client
	serveReturned := false
	var serveResult error
	shutdownDone := false
	var pendingRejected []*client
	shortFailed := false // an earlier Shutdown ended with its context's error: a later one may report the listener as closed already
	cancelled := false
	labels := []string{fmt.Sprintf("callbacks:%d", c.Callbacks)}
	if c.AcceptDelayMs > 0 {
		labels = append(labels, "slow-accept-callback")
	}
	if c.ReadTimeoutMs >= 1000 {
		labels = append(labels, "read-timeout-one-minute")
	}
	if c.BareListener || c.WriteDelayMs > 0 {
		labels = append(labels, "listener-offers-only-Accept-Close-Addr")
	}
	hasAccept := c.Callbacks&cbAccept != 0
	hasClose := c.Callbacks&cbClose != 0

	liveBounds := func() (int, int) {
		lo, hi := 0, 0
		for _, cl := range allClients {
			if !cl.accepted {
				continue
			}
			switch {
			case !cl.closedByUs:
				lo++
				hi++
			case !cl.confirmed:
				hi++
			}
		}
		return lo, hi
	}
	fail := func(format string, args ...interface{}) harness.Result {
		// best effort cleanup so that later scenarios are not disturbed
		cancel()
		for _, cl := range allClients {
			if cl.conn != nil {
				_ = cl.conn.Close()
			}
		}
		_, _ = shutdownWithin(s, time.Second)
		return harness.Fail(format, args...)
	}

	steps := c.Steps
	if c.Callbacks&cbServe == 0 {
		// without OnServeFunc there is no signal that Serve has started: a warm-up exchange on a throw-away connection
		// (part of the model like any other connection) proves the accept loop is running before Addr()/Shutdown() are used
		connectIx = -1
		steps = append([]step{{Op: "connect", Client: 1000}, {Op: "request", Client: 1000}, {Op: "disconnect", Client: 1000}}, steps...)
	}
	for si, st := range steps {
		if (shutdownDone || cancelled) && st.Op != "idle" {
			continue
		}
		if shortFailed && st.Op != "idle" && st.Op != "shutdown" {
			continue // the listener is closed already
		}
		switch st.Op {
		case "connect":
			if clients[st.Client] != nil {
				continue
			}
			conn, err := net.DialTimeout("tcp", addr, 3*time.Second)
			if err != nil {
				return fail("step %d: dial failed while the server is serving: %v", si, err)
			}
			cl := &client{conn: conn, local: conn.LocalAddr().String()}
			ix := connectIx
			connectIx++
			clients[st.Client] = cl
			allClients = append(allClients, cl)
			if hasAccept {
				if !ev.wait(5*time.Second, func() bool { return len(ev.accepts[cl.local]) > 0 }) {
					return fail("step %d: accept callback not called within 5 s for %s", si, cl.local)
				}
				ev.mu.Lock()
				n := ev.accepts[cl.local][0]
				ev.mu.Unlock()
				lo, hi := liveBounds()
				if int(n) < lo+1 || int(n) > hi+1 {
					return fail("step %d: accept callback reported connectionCount=%d, the number of live connections (including the new one) is between %d and %d", si, n, lo+1, hi+1)
				}
				if ev.rejectIx[ix] && c.AcceptDelayMs > 0 {
					// the rejecting callback is still running: the steps that follow (in particular the ending) overlap the rejection,
					// and the closure of the connection is checked at the end of the run
					cl.rejected = true
					pendingRejected = append(pendingRejected, cl)
					labels = append(labels, "rejected-connection", "rejection-overlaps-later-steps")
					continue
				}
				if ev.rejectIx[ix] {
					cl.rejected = true
					closed, _ := observeClosed(conn, 3*time.Second)
					if !closed {
						closed, _ = observeClosed(conn, 12*time.Second)
					}
					if !closed {
						return fail("step %d: connection rejected by the accept callback was not closed", si)
					}
					_ = conn.Close()
					cl.closedByUs = true
					labels = append(labels, "rejected-connection")
					continue
				}
			}
			cl.accepted = true
			cl.sure = hasAccept
		case "request", "inflight":
			cl := clients[st.Client]
			if cl == nil || !cl.accepted || cl.closedByUs || cl.inflight != nil {
				continue
			}
			d := st.DelayMs
			if d > 80 {
				d = 80
			}
			req := spec.EncodeRequest(spec.TCP, spec.Req{FC: 3, Unit: uint8(d), Tx: uint16(si + 1), Addr: uint16(10 * si), Qty: 3})
			want := device.New(c.Seed).Answer(spec.TCP, req)
			ev.mu.Lock()
			before := ev.started[cl.local]
			ev.mu.Unlock()
			_ = cl.conn.SetWriteDeadline(time.Now().Add(3 * time.Second))
			if st.Fragmented {
				cut := 5
				if st.Tail > 0 && st.Tail < len(req) {
					cut = len(req) - st.Tail
				}
				if _, err := cl.conn.Write(req[:cut]); err != nil {
					return fail("step %d: write failed: %v", si, err)
				}
				time.Sleep(15 * time.Millisecond)
				_, err = cl.conn.Write(req[cut:])
			} else {
				_, err = cl.conn.Write(req)
			}
			if err != nil {
				return fail("step %d: write failed: %v", si, err)
			}
			if st.Op == "inflight" {
				// wait until the handler has signalled its start, then leave the reply unread
				if !ev.wait(patience, func() bool { return ev.started[cl.local] > before }) {
					return fail("step %d: handler did not start within %v", si, patience)
				}
				cl.inflight, cl.inflightStarted = want, true
				cl.sure = true
				labels = append(labels, "inflight-request")
				if st.Fragmented && st.Tail >= 1 && st.Tail <= 3 {
					labels = append(labels, "inflight-request-completed-by-1-3-byte-fragment")
				}
				continue
			}
			got, err := readFull(cl.conn, len(want), patience)
			if err != nil || !bytes.Equal(got, want) {
				return fail("step %d: request %x: received %x (%v), want %x", si, req, got, err, want)
			}
			cl.sure = true
		case "burst":
			// 25 pipelined requests written at once (300 bytes: what one read of the server's connection loop can take), all replies
			// collected, then silence for longer than the server's read timeout
			cl := clients[st.Client]
			if cl == nil || !cl.accepted || cl.closedByUs || cl.inflight != nil {
				continue
			}
			var burst, wants []byte
			for i := 0; i < 25; i++ {
				req := spec.EncodeRequest(spec.TCP, spec.Req{FC: 3, Unit: 0, Tx: uint16(1000*si + i), Addr: uint16(7 * i), Qty: 2})
				burst = append(burst, req...)
				wants = append(wants, device.New(c.Seed).Answer(spec.TCP, req)...)
			}
			_ = cl.conn.SetWriteDeadline(time.Now().Add(3 * time.Second))
			if _, err := cl.conn.Write(burst); err != nil {
				return fail("step %d: write failed: %v", si, err)
			}
			got, err := readFull(cl.conn, len(wants), patience)
			if err != nil || !bytes.Equal(got, wants) {
				return fail("step %d: 25 pipelined requests: received %x (%v), want %x", si, got, err, wants)
			}
			cl.sure = true
			time.Sleep(35 * time.Millisecond)
			labels = append(labels, "burst-of-300-bytes")
		case "panic-request":
			// the handler panics while serving this request. The process must survive (a crash is reported through the journal);
			// whether the server then closes the connection or answers is not prescribed - if it closes it, the usual accounting applies
			cl := clients[st.Client]
			if cl == nil || !cl.accepted || cl.closedByUs || cl.inflight != nil {
				continue
			}
			req := spec.EncodeRequest(spec.TCP, spec.Req{FC: 3, Unit: panicUnit, Tx: uint16(si + 1), Addr: 1, Qty: 1})
			_ = cl.conn.SetWriteDeadline(time.Now().Add(3 * time.Second))
			if _, err := cl.conn.Write(req); err != nil {
				return fail("step %d: write failed: %v", si, err)
			}
			labels = append(labels, "handler-panic")
			if closed, _ := observeClosed(cl.conn, 2*time.Second); closed {
				_ = cl.conn.Close()
				cl.closedByUs = true
				cl.sure = true
				if hasClose {
					if ev.wait(3*time.Second, func() bool { return ev.closes[cl.local] > 0 }) {
						cl.confirmed = true
					}
				}
				delete(clients, st.Client)
			}
		case "idle":
			time.Sleep(time.Duration(st.IdleMs) * time.Millisecond)
		case "disconnect":
			cl := clients[st.Client]
			if cl == nil || cl.closedByUs {
				continue
			}
			if cl.inflight != nil {
				continue
			}
			_ = cl.conn.Close()
			cl.closedByUs = true
			if hasClose && cl.accepted {
				if ev.wait(3*time.Second, func() bool { return ev.closes[cl.local] > 0 }) {
					cl.confirmed = true
				} else if hasAccept {
					// with both callbacks set the close callback must come (design: bounded wait, then extended)
					if !ev.wait(12*time.Second, func() bool { return ev.closes[cl.local] > 0 }) {
						return fail("step %d: close callback not called within 15 s after the client disconnected", si)
					}
					cl.confirmed = true
				}
			}
			delete(clients, st.Client)
		case "addr":
			ach := make(chan net.Addr, 1)
			go func() { ach <- s.Addr() }()
			select {
			case a := <-ach:
				if a == nil || a.String() != addr {
					return fail("step %d: Addr() = %v, want %s", si, a, addr)
				}
			case <-time.After(10 * time.Second):
				return fail("step %d: Addr() did not return within 10 s", si)
			}
		case "shutdown-short":
			// a Shutdown whose own context (5 ms) is likely to expire while handlers are still running. Whatever it returns, the
			// later Shutdown is judged as usual: success only once every started request has been answered and idle connections are closed
			err, returned := shutdownWithin(s, 5*time.Millisecond)
			if !returned {
				return fail("step %d: Shutdown did not return within 20 s after its own context (5 ms) had expired", si)
			}
			if err == nil {
				shutdownDone = true
				labels = append(labels, "shutdown")
			} else {
				shortFailed = true
				labels = append(labels, "shutdown-context-expired")
			}
		case "shutdown":
			err, returned := shutdownWithin(s, 10*time.Second)
			if !returned {
				return fail("step %d: Shutdown did not return within 20 s after its own context (10 s) had expired", si)
			}
			if err != nil && shortFailed {
				// e.g. the listener is reported as closed already: no success, so nothing is promised
				labels = append(labels, "later-shutdown-error")
				continue
			}
			if err != nil {
				return fail("step %d: Shutdown returned %v", si, err)
			}
			shutdownDone = true
			labels = append(labels, "shutdown")
		case "cancel":
			cancel()
			cancelled = true
			labels = append(labels, "cancel")
		}
	}
	open := 0
	for _, cl := range allClients {
		if cl.accepted && !cl.closedByUs {
			open++
		}
	}
	checkRejected := func() *harness.Result {
		for _, cl := range pendingRejected {
			closed, _ := observeClosed(cl.conn, 3*time.Second)
			if !closed {
				closed, _ = observeClosed(cl.conn, 12*time.Second)
			}
			if !closed {
				r := fail("connection %s rejected by the accept callback was not closed (the run ended while the callback was still running)", cl.local)
				return &r
			}
			_ = cl.conn.Close()
			cl.closedByUs = true
		}
		pendingRejected = nil
		return nil
	}
	if cancelled && !shutdownDone {
		// no further dial: it would wake Accept and mask the bug
		e, ok := waitErr(serveErr, 3*time.Second, 12*time.Second)
		if !ok {
			return fail("the serve call did not return within 15 s after its context was cancelled (%d connections open)", open)
		}
		serveReturned, serveResult = true, e
		_ = serveResult
	}
	if !shutdownDone {
		err, returned := shutdownWithin(s, 10*time.Second)
		if !returned {
			return fail("final Shutdown did not return within 20 s after its own context (10 s) had expired")
		}
		if err != nil && !cancelled && !shortFailed {
			return fail("final Shutdown returned %v", err)
		}
		shutdownDone = err == nil
	}
	if r := checkRejected(); r != nil {
		return *r
	}
	if shutdownDone && !cancelled {
		// serve returned ErrServerClosed
		e, ok := waitErr(serveErr, 3*time.Second, 12*time.Second)
		if !ok {
			return fail("the serve call did not return within 15 s after Shutdown returned nil")
		}
		if !errors.Is(e, server.ErrServerClosed) {
			return fail("after a graceful shutdown the serve call returned %v, want ErrServerClosed", e)
		}
		serveReturned = true
		// the port no longer accepts connections: the listening socket the server was given must be closed. This is probed on
		// the listener object itself (Accept must fail at once); a dial to the old address proves nothing either way because
		// other processes on the machine may already have been given the same ephemeral port.
		type acc struct {
			c   net.Conn
			err error
		}
		ach := make(chan acc, 1)
		go func() {
			c, err := listener.Accept()
			ach <- acc{c, err}
		}()
		select {
		case a := <-ach:
			if a.err == nil {
				_ = a.c.Close()
				return fail("after Shutdown returned nil the listening socket still accepts connections")
			}
		case <-time.After(2 * time.Second):
			_ = listener.Close()
			return fail("after Shutdown returned nil the listening socket is still open (Accept blocks instead of failing)")
		}
		for i, cl := range allClients {
			if !cl.accepted || cl.closedByUs {
				continue
			}
			if cl.inflight != nil {
				// handler had started before Shutdown was called: the complete reply must arrive
				got, err := readFull(cl.conn, len(cl.inflight), patience)
				if err != nil || !bytes.Equal(got, cl.inflight) {
					return fail("client %d had a request in flight whose handler had started before Shutdown: received %x (%v), want the complete reply %x", i, got, err, cl.inflight)
				}
			}
			closed, extra := observeClosed(cl.conn, 3*time.Second)
			if !closed {
				closed, extra = observeClosed(cl.conn, 12*time.Second)
			}
			if !closed {
				return fail("client %d: idle connection not closed within 15 s after Shutdown", i)
			}
			if len(extra) > 0 {
				return fail("client %d received unexpected bytes %x at shutdown", i, extra)
			}
		}
	}
	_ = serveReturned
	for _, cl := range allClients {
		_ = cl.conn.Close()
	}
	// close callback: exactly once per accepted connection, never for rejected ones
	if hasClose {
		want := map[string]int{}
		maybe := map[string]bool{}
		for _, cl := range allClients {
			if cl.accepted && cl.sure {
				want[cl.local] = 1
			} else if cl.accepted {
				maybe[cl.local] = true // handshake completed, but the server may never have accepted it before the listener closed
			}
		}
		pred := func() bool {
			for k, n := range want {
				if ev.closes[k] < n {
					return false
				}
			}
			return true
		}
		if !ev.wait(3*time.Second, pred) {
			ev.wait(12*time.Second, pred)
		}
		time.Sleep(5 * time.Millisecond)
		ev.mu.Lock()
		defer ev.mu.Unlock()
		for k, n := range want {
			if ev.closes[k] != n {
				return harness.Fail("close callback ran %d time(s) for accepted connection %s, want exactly once (callbacks mask %d)", ev.closes[k], k, c.Callbacks)
			}
		}
		for k, n := range ev.closes {
			if want[k] == 0 && n > 0 && !(maybe[k] && n == 1) {
				return harness.Fail("close callback ran %d time(s) for %s which was never accepted (rejected) or more than once", n, k)
			}
		}
	}
	nt := len(allClients) >= 2 && open >= 1
	return harness.Result{NonTrivial: nt, Labels: labels}
}

func genLife(t *rapid.T) lifeCase {
	c := lifeCase{Callbacks: rapid.IntRange(0, 15).Draw(t, "callbacks"), Seed: rapid.Uint64().Draw(t, "seed")}
	k := rapid.IntRange(1, 6).Draw(t, "clients")
	if c.Callbacks&cbAccept != 0 && rapid.Bool().Draw(t, "with_reject") {
		c.Reject = []int{rapid.IntRange(0, k-1).Draw(t, "reject_ix")}
	}
	n := rapid.IntRange(3, 18).Draw(t, "nsteps")
	connected := 0
	for i := 0; i < n; i++ {
		op := rapid.SampledFrom([]string{"connect", "connect", "request", "request", "idle", "disconnect", "addr", "connect", "request", "panic-request", "burst"}).Draw(t, "op")
		st := step{Op: op}
		switch op {
		case "connect":
			st.Client = connected % k
			connected++
		case "request":
			st.Client = rapid.IntRange(0, k-1).Draw(t, "client")
			st.DelayMs = rapid.SampledFrom([]int{0, 0, 1, 5, 20}).Draw(t, "delay")
			st.Fragmented = rapid.IntRange(0, 3).Draw(t, "frag") == 0
			if st.Fragmented {
				st.Tail = rapid.SampledFrom([]int{0, 0, 1, 2, 3, 6}).Draw(t, "tail")
			}
		case "idle":
			st.IdleMs = rapid.IntRange(0, 15).Draw(t, "idle")
		case "disconnect", "panic-request", "burst":
			st.Client = rapid.IntRange(0, k-1).Draw(t, "client")
		}
		c.Steps = append(c.Steps, st)
	}
	// ending: shutdown (possibly with in-flight requests) or cancel
	switch rapid.IntRange(0, 3).Draw(t, "ending") {
	case 0:
		c.Steps = append(c.Steps, step{Op: "cancel"})
	default:
		m := rapid.IntRange(0, 2).Draw(t, "ninflight")
		for i := 0; i < m; i++ {
			inf := step{Op: "inflight", Client: rapid.IntRange(0, k-1).Draw(t, "client"), DelayMs: rapid.SampledFrom([]int{20, 40, 80}).Draw(t, "delay")}
			if rapid.IntRange(0, 2).Draw(t, "inflight_frag") == 0 {
				// the in-flight request arrived in two reads, the second one only a byte or three long
				inf.Fragmented, inf.Tail = true, rapid.SampledFrom([]int{1, 2, 3, 0}).Draw(t, "inflight_tail")
			}
			c.Steps = append(c.Steps, inf)
		}
		if m > 0 && rapid.IntRange(0, 2).Draw(t, "short_shutdown_first") == 0 {
			c.Steps = append(c.Steps, step{Op: "shutdown-short"})
		}
		c.Steps = append(c.Steps, step{Op: "shutdown"})
		if m > 0 && rapid.Bool().Draw(t, "slow_write") {
			c.WriteDelayMs = rapid.SampledFrom([]int{60, 75, 120}).Draw(t, "write_delay")
		}
	}
	c.Reenter = c.Callbacks != 0 && rapid.IntRange(0, 2).Draw(t, "reenter") == 0
	c.BareListener = rapid.IntRange(0, 2).Draw(t, "bare_listener") == 0
	if rapid.IntRange(0, 3).Draw(t, "long_read_timeout") == 0 {
		c.ReadTimeoutMs = 60000
	}
	if c.Callbacks&cbAccept != 0 && rapid.IntRange(0, 2).Draw(t, "slow_accept") == 0 {
		c.AcceptDelayMs = rapid.SampledFrom([]int{2, 10, 25}).Draw(t, "accept_delay")
		if rapid.Bool().Draw(t, "connect_last") {
			// a connection is still being accepted when the run ends
			last := c.Steps[len(c.Steps)-1]
			c.Steps = append(c.Steps[:len(c.Steps)-1], step{Op: "connect", Client: connected % k}, last)
		}
	}
	if c.WriteDelayMs == 0 && rapid.IntRange(0, 3).Draw(t, "short_write_timeout") == 0 {
		// handlers of 60/80 ms against a 50 ms write timeout
		c.WriteTimeoutMs = 50
		for i := range c.Steps {
			if (c.Steps[i].Op == "request" || c.Steps[i].Op == "inflight") && i%2 == 0 {
				c.Steps[i].DelayMs = rapid.SampledFrom([]int{60, 80}).Draw(t, "slow_handler")
			}
		}
	}
	return c
}

var chkLife = harness.Define("server-lifecycle", genLife, runLife)

func TestRandom(t *testing.T) {
	chkLife.Rapid(t, harness.Pick(48, 1200))
}

// TestEndDuringAccept: shutdown / cancellation arrive while the accept callback is still running for the newest connection.
func TestEndDuringAccept(t *testing.T) {
	idx := 0
	for _, cb := range []int{cbAccept, cbAccept | cbClose, 15, cbAccept | cbError} {
		for _, delay := range []int{5, 25} {
			for _, end := range []string{"shutdown", "cancel"} {
				idx++
				if !harness.Mine(idx) {
					continue
				}
				c := lifeCase{Callbacks: cb, Seed: uint64(idx), AcceptDelayMs: delay}
				c.Steps = []step{{Op: "connect", Client: 0}, {Op: "request", Client: 0}, {Op: "connect", Client: 1}, {Op: end}}
				if !chkLife.Eval(t, c) {
					return
				}
				// the same with the newest connection rejected by the callback: it must be closed although the run is ending
				c.Reject = []int{1}
				if !chkLife.Eval(t, c) {
					return
				}
			}
		}
	}
}

// TestCallbackCombinations: every set/unset combination of the four callbacks, each with the same two scripts
// (shutdown with an in-flight request; context cancellation).
func TestCallbackCombinations(t *testing.T) {
	idx := 0
	for cb := 0; cb < 16; cb++ {
		for variant := 0; variant < 2; variant++ {
			idx++
			if !harness.Mine(idx) {
				continue
			}
			c := lifeCase{Callbacks: cb, Seed: uint64(cb)}
			c.Steps = []step{{Op: "connect", Client: 0}, {Op: "connect", Client: 1}, {Op: "addr"}, {Op: "request", Client: 0, DelayMs: 1},
				{Op: "request", Client: 1, Fragmented: true}, {Op: "connect", Client: 2}, {Op: "disconnect", Client: 1}, {Op: "idle", IdleMs: 10}, {Op: "connect", Client: 3},
				{Op: "panic-request", Client: 3}, {Op: "connect", Client: 3}}
			if cb&cbAccept != 0 {
				c.Reject = []int{2}
			}
			if variant == 0 {
				c.WriteDelayMs = 70
				c.Steps = append(c.Steps, step{Op: "inflight", Client: 0, DelayMs: 40, Fragmented: cb%2 == 1, Tail: 1 + cb%3}, step{Op: "shutdown"})
			} else {
				c.WriteTimeoutMs = 50
				c.Reenter = true
				c.Steps = append(c.Steps, step{Op: "request", Client: 0, DelayMs: 80}, step{Op: "cancel"})
			}
			if !chkLife.Eval(t, c) {
				return
			}
		}
	}
	harness.Exhaustive("server-lifecycle", "all 16 set/unset combinations of OnServe/OnError/OnAccept/OnClose x {shutdown with in-flight request, context cancellation}", 32)
}

// ---------------------------------------------------------------------------
// the same Server value served a second time after its first serve call ended by context cancellation

type twiceCase struct {
	Leftover int    `json:"leftover"` // connections of the first serve whose handler is still running when it is cancelled
	DelayMs  int    `json:"delay_ms"` // duration of those handlers
	Later    int    `json:"later"`    // connections made to the second serve
	Seed     uint64 `json:"seed"`
}

func runTwice(c twiceCase) harness.Result {
	ev := &events{accepts: map[string][]uint64{}, closes: map[string]int{}, started: map[string]int{}, served: make(chan string, 4), rejectIx: map[int]bool{}}
	h := &handler{ev: ev, dev: device.New(c.Seed)}
	h.serveCancelled.Store(true) // (this scenario cancels serve contexts while handlers run)
	s := &server.Server{ReadTimeout: 5 * time.Millisecond, OnErrorFunc: func(error) {}}
	s.OnServeFunc = func(a net.Addr) { ev.served <- a.String() }
	// The two serve calls listen on different ports, so the kernel may give a client of the second one the same local port as a
	// (still open) client of the first one: connections are therefore identified by the serve call they belong to (a value in the
	// serve context, which the callbacks receive) plus the remote address.
	type genKey struct{}
	key := func(ctx context.Context, ra string) string { return fmt.Sprintf("%v|%s", ctx.Value(genKey{}), ra) }
	tolds := map[string]uint64{} // guarded by ev.mu
	s.OnAcceptConnFunc = func(ctx context.Context, ra net.Addr, n uint64) error {
		ev.mu.Lock()
		tolds[key(ctx, ra.String())] = n
		ev.mu.Unlock()
		return nil
	}
	s.OnCloseConnFunc = func(ctx context.Context, ra net.Addr, isShutdown bool) {
		ev.mu.Lock()
		ev.closes[key(ctx, ra.String())]++
		ev.mu.Unlock()
	}
	gen := 0
	serveOnce := func() (string, context.CancelFunc, chan error, net.Listener, error) {
		l, err := net.Listen("tcp", "127.0.0.1:0")
		if err != nil {
			return "", nil, nil, nil, err
		}
		gen++
		ctx, cancel := context.WithCancel(context.WithValue(context.Background(), genKey{}, gen))
		ch := make(chan error, 1)
		go func() { ch <- s.Serve(ctx, l, h) }()
		select {
		case a := <-ev.served:
			return a, cancel, ch, l, nil
		case e := <-ch:
			cancel()
			return "", nil, nil, l, fmt.Errorf("serve returned at once: %v", e)
		case <-time.After(5 * time.Second):
			cancel()
			return "", nil, nil, l, errors.New("OnServeFunc not called within 5 s")
		}
	}
	addr1, cancel1, ch1, _, err := serveOnce()
	if err != nil {
		return harness.Fail("first serve: %v", err)
	}
	var conns []net.Conn
	defer func() {
		for _, cn := range conns {
			_ = cn.Close()
		}
	}()
	// check compares the count told to the accept callback with what the harness knows for certain: every connection counted in lo
	// is open and nothing can have ended it yet; hi additionally counts connections that may or may not have ended already
	check := func(who, local string, lo, hi uint64) error {
		if !ev.wait(5*time.Second, func() bool { _, ok := tolds[local]; return ok }) {
			return fmt.Errorf("%s: accept callback not called within 5 s", who)
		}
		ev.mu.Lock()
		n := tolds[local]
		ev.mu.Unlock()
		if n < lo || n > hi {
			ev.mu.Lock()
			state := fmt.Sprintf("told=%v closes=%v started=%v", tolds, ev.closes, ev.started)
			ev.mu.Unlock()
			return fmt.Errorf("%s: accept callback reported connectionCount=%d, the number of live connections including the new one is %d..%d [%s]", who, n, lo, hi, state)
		}
		return nil
	}
	var want [][]byte
	for i := 0; i < c.Leftover; i++ {
		cn, err := net.DialTimeout("tcp", addr1, 3*time.Second)
		if err != nil {
			return harness.Fail("dial: %v", err)
		}
		conns = append(conns, cn)
		// the earlier connections are open (their handlers run or have finished; nobody closes them while the serve call is active)
		if err := check(fmt.Sprintf("first serve, connection %d", i), "1|"+cn.LocalAddr().String(), uint64(i+1), uint64(i+1)); err != nil {
			cancel1()
			return harness.Fail("%v", err)
		}
		req := spec.EncodeRequest(spec.TCP, spec.Req{FC: 3, Unit: uint8(c.DelayMs), Tx: uint16(i + 1), Addr: uint16(10 * i), Qty: 2})
		want = append(want, device.New(c.Seed).Answer(spec.TCP, req))
		if _, err := cn.Write(req); err != nil {
			cancel1()
			return harness.Fail("write: %v", err)
		}
		local := cn.LocalAddr().String()
		if !ev.wait(5*time.Second, func() bool { return ev.started[local] > 0 }) {
			cancel1()
			return harness.Fail("handler did not start within 5 s")
		}
	}
	// the first serve ends while those handlers are running
	cancel1()
	if e, ok := waitErr(ch1, 3*time.Second, 12*time.Second); !ok {
		return harness.Fail("the first serve call did not return within 15 s after its context was cancelled")
	} else if !errors.Is(e, server.ErrServerClosed) {
		return harness.Fail("the cancelled serve call returned %v", e)
	}
	addr2, cancel2, ch2, _, err := serveOnce()
	if err != nil {
		// serving a second time is refused: nothing further to judge
		return harness.Result{Labels: []string{"second-serve-refused"}}
	}
	defer cancel2()
	fail := func(format string, args ...interface{}) harness.Result {
		cancel2()
		_, _ = shutdownWithin(s, time.Second)
		return harness.Fail(format, args...)
	}
	for i := 0; i < c.Later; i++ {
		cn, err := net.DialTimeout("tcp", addr2, 3*time.Second)
		if err != nil {
			return fail("dial to the second serve: %v", err)
		}
		conns = append(conns, cn)
		// connection 0: the connections left from the first serve may or may not have ended yet. Later ones: their close callbacks
		// have been seen, so exactly the connections of the second serve (which nobody closes) are live.
		lo, hi := uint64(i+1), uint64(i+1)
		if i == 0 {
			hi = uint64(c.Leftover + 1)
		}
		if err := check(fmt.Sprintf("second serve of the same Server value, connection %d (%d connections of the first serve had handlers running when it was cancelled)", i, c.Leftover), "2|"+cn.LocalAddr().String(), lo, hi); err != nil {
			return fail("%v", err)
		}
		if i == 0 {
			// the connections left over from the first serve finish now: replies arrive, the server closes them
			for k := 0; k < c.Leftover; k++ {
				got, err := readFull(conns[k], len(want[k]), 5*time.Second)
				if err != nil || !bytes.Equal(got, want[k]) {
					return fail("request in flight when the first serve was cancelled: received %x (%v), want %x", got, err, want[k])
				}
				local := "1|" + conns[k].LocalAddr().String()
				if !ev.wait(5*time.Second, func() bool { return ev.closes[local] > 0 }) {
					return fail("connection of the cancelled serve: close callback not called within 5 s after its handler finished")
				}
			}
		}
	}
	err, returned := shutdownWithin(s, 10*time.Second)
	if !returned || err != nil {
		return fail("Shutdown of the second serve: returned=%v err=%v", returned, err)
	}
	if e, ok := waitErr(ch2, 3*time.Second, 12*time.Second); !ok || !errors.Is(e, server.ErrServerClosed) {
		return harness.Fail("after Shutdown the second serve call returned %v (returned=%v), want ErrServerClosed", e, ok)
	}
	for i, cn := range conns {
		local := "2|" + cn.LocalAddr().String()
		if i < c.Leftover {
			local = "1|" + cn.LocalAddr().String()
		}
		if !ev.wait(5*time.Second, func() bool { return ev.closes[local] > 0 }) {
			return harness.Fail("close callback not called for %s within 5 s after Shutdown", local)
		}
	}
	ev.mu.Lock()
	defer ev.mu.Unlock()
	for k, n := range ev.closes {
		if n != 1 {
			return harness.Fail("close callback ran %d times for %s", n, k)
		}
	}
	return harness.Result{NonTrivial: c.Leftover > 0 && c.Later > 0, Labels: []string{"served-twice"}}
}

var chkTwice = harness.Define("serve-twice",
	func(t *rapid.T) twiceCase {
		return twiceCase{Leftover: rapid.IntRange(0, 3).Draw(t, "leftover"), DelayMs: rapid.SampledFrom([]int{40, 80, 150}).Draw(t, "delay"), Later: rapid.IntRange(2, 4).Draw(t, "later"), Seed: rapid.Uint64().Draw(t, "seed")}
	}, runTwice)

func TestServeTwice(t *testing.T) {
	chkTwice.Rapid(t, harness.Pick(4, 150))
}

// ---------------------------------------------------------------------------
// a server that lives long: one Server value accepts tens of thousands of short connections while a first client stays connected
// (in-memory listener). Accounting must be as exact for the 65537th connection as for the first one, and a graceful shutdown must
// still find and close the old idle connection.

type manyCase struct {
	Cycles int `json:"cycles"`
	// Callbacks bit mask (cbAccept / cbClose are always set: the accounting is observed through them)
	Reenter bool   `json:"reenter,omitempty"`
	Seed    uint64 `json:"seed"`
}

func runMany(c manyCase) harness.Result {
	l := xport.NewPipeListener()
	s := &server.Server{ReadTimeout: 20 * time.Millisecond, WriteTimeout: 2 * time.Second, OnErrorFunc: func(error) {}}
	acceptCh := make(chan uint64, 16)
	closeCh := make(chan struct{}, 16)
	s.OnAcceptConnFunc = func(ctx context.Context, ra net.Addr, n uint64) error {
		if c.Reenter {
			_ = s.Addr()
		}
		acceptCh <- n
		return nil
	}
	s.OnCloseConnFunc = func(ctx context.Context, ra net.Addr, isShutdown bool) { closeCh <- struct{}{} }
	nextAccept := func() (uint64, bool) {
		select {
		case n := <-acceptCh:
			return n, true
		case <-time.After(10 * time.Second):
			return 0, false
		}
	}
	nextClose := func() bool {
		select {
		case <-closeCh:
			return true
		case <-time.After(10 * time.Second):
			return false
		}
	}
	ctx, cancel := context.WithCancel(context.Background())
	defer cancel()
	serveErr := make(chan error, 1)
	h := &srv.Handler{Dev: device.New(c.Seed)}
	go func() { serveErr <- s.Serve(ctx, l, h) }()
	defer l.Close()
	exchange := func(conn net.Conn, tx uint16) error {
		req := spec.EncodeRequest(spec.TCP, spec.Req{FC: 3, Unit: 1, Tx: tx, Addr: 5, Qty: 2})
		want := device.New(c.Seed).Answer(spec.TCP, req)
		_ = conn.SetDeadline(time.Now().Add(10 * time.Second))
		if _, err := conn.Write(req); err != nil {
			return fmt.Errorf("write: %v", err)
		}
		got, err := readFull(conn, len(want), 10*time.Second)
		if err != nil || !bytes.Equal(got, want) {
			return fmt.Errorf("received %x (%v), want %x", got, err, want)
		}
		return nil
	}
	old, err := l.Dial()
	if err != nil {
		return harness.Fail("harness: %v", err)
	}
	defer old.Close()
	if n, ok := nextAccept(); !ok || n != 1 {
		return harness.Fail("first connection: accept callback called=%v connectionCount=%d", ok, n)
	}
	if err := exchange(old, 1); err != nil {
		return harness.Fail("first connection: %v", err)
	}
	for i := 0; i < c.Cycles; i++ {
		conn, err := l.Dial()
		if err != nil {
			return harness.Fail("harness: %v", err)
		}
		n, ok := nextAccept()
		if !ok {
			_ = conn.Close()
			return harness.Fail("connection %d: accept callback not called within 10 s", i+2)
		}
		if n != 2 {
			_ = conn.Close()
			return harness.Fail("connection %d of one Server value (the first one is still open and in use, all others have been closed and their close callbacks seen): accept callback reported connectionCount=%d, 2 connections are live", i+2, n)
		}
		if i%997 == 0 {
			if err := exchange(conn, uint16(i)); err != nil {
				_ = conn.Close()
				return harness.Fail("connection %d: %v", i+2, err)
			}
			// (the first connection stays in use: the server closes connections that have been silent for 25 s)
			if err := exchange(old, uint16(i)); err != nil {
				_ = conn.Close()
				return harness.Fail("the first connection, while connection %d is open: %v", i+2, err)
			}
		}
		_ = conn.Close()
		if !nextClose() {
			return harness.Fail("connection %d: close callback not called within 10 s after the client disconnected", i+2)
		}
	}
	if err := exchange(old, 2); err != nil {
		return harness.Fail("the first connection, open while %d others came and went: %v", c.Cycles, err)
	}
	last, err := l.Dial()
	if err != nil {
		return harness.Fail("harness: %v", err)
	}
	defer last.Close()
	if n, ok := nextAccept(); !ok || n != 2 {
		return harness.Fail("last connection (number %d): accept callback called=%v connectionCount=%d, 2 connections are live", c.Cycles+2, ok, n)
	}
	serr, returned := shutdownWithin(s, 10*time.Second)
	if !returned || serr != nil {
		return harness.Fail("Shutdown after %d connections: returned=%v err=%v", c.Cycles+2, returned, serr)
	}
	if e, ok := waitErr(serveErr, 3*time.Second, 12*time.Second); !ok || !errors.Is(e, server.ErrServerClosed) {
		return harness.Fail("after Shutdown the serve call returned %v (returned=%v), want ErrServerClosed", e, ok)
	}
	// idle connections are closed: both remaining clients see the end of their streams
	for name, conn := range map[string]net.Conn{fmt.Sprintf("the first connection (open since before the other %d)", c.Cycles): old, "the last connection": last} {
		_ = conn.SetReadDeadline(time.Now().Add(5 * time.Second))
		if n, err := conn.Read(make([]byte, 1)); err == nil || n != 0 || errors.Is(err, os.ErrDeadlineExceeded) {
			return harness.Fail("after a successful Shutdown %s is still open (read returned n=%d err=%v)", name, n, err)
		}
	}
	if !nextClose() || !nextClose() {
		return harness.Fail("%d connections were accepted; after Shutdown the close callbacks of the two that were still open did not both run", c.Cycles+2)
	}
	select {
	case <-closeCh:
		return harness.Fail("the close callback ran more often than connections were accepted (%d)", c.Cycles+2)
	case <-time.After(2 * time.Millisecond):
	}
	return harness.Result{NonTrivial: c.Cycles >= 100, Labels: []string{fmt.Sprintf("connections-on-one-server:%d", c.Cycles+2)}, Weight: int64(c.Cycles)}
}

var chkMany = harness.Define("long-lived-server",
	func(t *rapid.T) manyCase {
		return manyCase{Cycles: rapid.SampledFrom([]int{100, 300, 1000}).Draw(t, "cycles"), Reenter: rapid.Bool().Draw(t, "reenter"), Seed: rapid.Uint64().Draw(t, "seed")}
	}, runMany)

func TestLongLivedServer(t *testing.T) {
	chkMany.Rapid(t, harness.Pick(3, 30))
	sizes := []int{65540}
	if harness.Thorough() {
		sizes = []int{65540, 131080}
	}
	for i, n := range sizes {
		if harness.Mine(i + 1) {
			chkMany.Eval(t, manyCase{Cycles: n, Seed: harness.Seed()})
		}
	}
}

// ---------------------------------------------------------------------------
// the accept callback's count when NO close callback is installed: the harness then has no signal for "the server has finished with
// that connection", so the scenario is built on "eventually": clients connect and disconnect one at a time; a while after the last one
// has gone, a probe connection must be told 1 (it is the only live connection). A probe that is told more is closed and the probe
// repeated for up to 5 s (the server needs microseconds to notice a closed peer; the ceiling is the one used for every other wait
// in this check). A count that never comes back to 1 is wrong.

type countCase struct {
	// Callbacks: cbAccept is always set, cbClose never; cbServe and cbError as drawn
	Callbacks int    `json:"callbacks"`
	Visitors  int    `json:"visitors"`
	Requests  bool   `json:"requests"`
	Seed      uint64 `json:"seed"`
}

func runCount(c countCase) harness.Result {
	l := xport.NewPipeListener()
	s := &server.Server{ReadTimeout: 10 * time.Millisecond, WriteTimeout: 2 * time.Second}
	if c.Callbacks&cbError != 0 {
		s.OnErrorFunc = func(error) {}
	}
	if c.Callbacks&cbServe != 0 {
		s.OnServeFunc = func(net.Addr) {}
	}
	told := make(chan uint64, 64)
	s.OnAcceptConnFunc = func(ctx context.Context, ra net.Addr, n uint64) error { told <- n; return nil }
	ctx, cancel := context.WithCancel(context.Background())
	defer cancel()
	done := make(chan struct{})
	go func() { defer close(done); _ = s.Serve(ctx, l, &srv.Handler{Dev: device.New(c.Seed)}) }()
	defer func() { cancel(); _ = l.Close(); <-done }()
	next := func() (uint64, bool) {
		select {
		case n := <-told:
			return n, true
		case <-time.After(10 * time.Second):
			return 0, false
		}
	}
	for v := 0; v < c.Visitors; v++ {
		conn, err := l.Dial()
		if err != nil {
			return harness.Fail("harness: %v", err)
		}
		n, ok := next()
		if !ok {
			_ = conn.Close()
			return harness.Fail("visitor %d: accept callback not called within 10 s", v+1)
		}
		if n < 1 || n > uint64(v+1) {
			_ = conn.Close()
			return harness.Fail("visitor %d (earlier visitors have disconnected): accept callback reported connectionCount=%d; at most %d connections have ever been open at once", v+1, n, v+1)
		}
		if c.Requests {
			req := spec.EncodeRequest(spec.TCP, spec.Req{FC: 3, Unit: 1, Tx: uint16(v), Addr: 5, Qty: 2})
			want := device.New(c.Seed).Answer(spec.TCP, req)
			_ = conn.SetDeadline(time.Now().Add(10 * time.Second))
			if _, err := conn.Write(req); err == nil {
				_, _ = readFull(conn, len(want), 10*time.Second)
			}
		}
		_ = conn.Close()
	}
	// every visitor has gone: eventually a newcomer is the only one
	deadline := time.Now().Add(5 * time.Second)
	last := uint64(0)
	for probes := 1; ; probes++ {
		time.Sleep(20 * time.Millisecond)
		conn, err := l.Dial()
		if err != nil {
			return harness.Fail("harness: %v", err)
		}
		n, ok := next()
		_ = conn.Close()
		if !ok {
			return harness.Fail("probe connection: accept callback not called within 10 s")
		}
		if n == 1 {
			return harness.Result{NonTrivial: c.Visitors >= 1, Labels: []string{fmt.Sprintf("callbacks:%d", c.Callbacks), "accept-count-without-close-callback"}, Weight: int64(c.Visitors + probes)}
		}
		last = n
		if time.Now().After(deadline) {
			return harness.Fail("no close callback installed; %d visitors connected and disconnected one after the other, then %d probe connections over 5 s, each alone: the accept callback never reported connectionCount=1 again (last: %d)", c.Visitors, probes, last)
		}
	}
}

var chkCount = harness.Define("accept-count-without-close-callback",
	func(t *rapid.T) countCase {
		return countCase{Callbacks: cbAccept | rapid.SampledFrom([]int{0, cbServe, cbError, cbServe | cbError}).Draw(t, "callbacks"), Visitors: rapid.IntRange(1, 6).Draw(t, "visitors"),
			Requests: rapid.Bool().Draw(t, "requests"), Seed: rapid.Uint64().Draw(t, "seed")}
	}, runCount)

func TestAcceptCountWithoutCloseCallback(t *testing.T) { chkCount.Rapid(t, harness.Pick(8, 150)) }

// ---------------------------------------------------------------------------
// shutdown while the serve call is still starting up: the serve callback has announced the listener (from then on Shutdown may be
// called) but is slow to return, so the serve call has not reached its accept loop when the graceful shutdown runs and returns nil.
// The serve call then returns the server-closed error as after any other successful shutdown, and the port is closed.

type startCase struct {
	// ServeDelayUs: the serve callback returns this long after it was called
	ServeDelayUs int `json:"serve_delay_us"`
	// ShutdownAfterUs: Shutdown is called this long after the serve callback was entered (before or after it returns)
	ShutdownAfterUs int `json:"shutdown_after_us"`
	// Callbacks: cbServe is always set; the others as drawn
	Callbacks int  `json:"callbacks"`
	RealTCP   bool `json:"real_tcp"`
}

func runStart(c startCase) harness.Result {
	var l net.Listener
	if c.RealTCP {
		tl, err := net.Listen("tcp", "127.0.0.1:0")
		if err != nil {
			return harness.Result{Labels: []string{"harness:no-loopback"}}
		}
		l = tl
	} else {
		l = xport.NewPipeListener()
	}
	defer l.Close()
	s := &server.Server{ReadTimeout: 10 * time.Millisecond, WriteTimeout: 2 * time.Second}
	if c.Callbacks&cbError != 0 {
		s.OnErrorFunc = func(error) {}
	}
	if c.Callbacks&cbAccept != 0 {
		s.OnAcceptConnFunc = func(context.Context, net.Addr, uint64) error { return nil }
	}
	if c.Callbacks&cbClose != 0 {
		s.OnCloseConnFunc = func(context.Context, net.Addr, bool) {}
	}
	entered := make(chan struct{})
	s.OnServeFunc = func(net.Addr) {
		close(entered)
		time.Sleep(time.Duration(c.ServeDelayUs) * time.Microsecond)
	}
	res := make(chan error, 1)
	go func() { res <- s.Serve(context.Background(), l, &srv.Handler{Dev: device.New(1)}) }()
	select {
	case <-entered:
	case <-time.After(10 * time.Second):
		return harness.Fail("serve callback not called within 10 s")
	}
	time.Sleep(time.Duration(c.ShutdownAfterUs) * time.Microsecond)
	sctx, scancel := context.WithTimeout(context.Background(), 10*time.Second)
	defer scancel()
	labels := []string{fmt.Sprintf("callbacks:%d", c.Callbacks), "shutdown-during-startup"}
	if c.ShutdownAfterUs < c.ServeDelayUs {
		labels = append(labels, "shutdown-before-accept-loop")
	}
	if err := s.Shutdown(sctx); err != nil {
		// nothing is promised after a shutdown that did not succeed
		select {
		case <-res:
		case <-time.After(10 * time.Second):
		}
		return harness.Result{Labels: append(labels, "shutdown-failed")}
	}
	select {
	case err := <-res:
		if !errors.Is(err, server.ErrServerClosed) {
			return harness.Fail("graceful shutdown %d us after the serve callback was entered (the callback takes %d us) returned nil, but the serve call returned %v instead of the server-closed error", c.ShutdownAfterUs, c.ServeDelayUs, err)
		}
	case <-time.After(10 * time.Second):
		return harness.Fail("graceful shutdown %d us after the serve callback was entered (the callback takes %d us) returned nil, but the serve call did not return within 10 s", c.ShutdownAfterUs, c.ServeDelayUs)
	}
	// the port no longer accepts connections: probed on the listener object itself (Accept must fail at once) - a dial to the old
	// address proves nothing, another process may have been given the same ephemeral port meanwhile
	type acc struct {
		c   net.Conn
		err error
	}
	ach := make(chan acc, 1)
	go func() {
		ac, err := l.Accept()
		ach <- acc{ac, err}
	}()
	select {
	case a := <-ach:
		if a.err == nil {
			_ = a.c.Close()
			return harness.Fail("the listening socket still accepts connections after the graceful shutdown and the serve call have returned")
		}
	case <-time.After(2 * time.Second):
		_ = l.Close()
		return harness.Fail("the listening socket is still open after the graceful shutdown and the serve call have returned (Accept blocks instead of failing)")
	}
	return harness.Result{NonTrivial: c.ShutdownAfterUs < c.ServeDelayUs, Labels: labels}
}

var chkStart = harness.Define("shutdown-during-startup",
	func(t *rapid.T) startCase {
		return startCase{ServeDelayUs: rapid.SampledFrom([]int{0, 200, 2000, 10000}).Draw(t, "serve_delay_us"),
			ShutdownAfterUs: rapid.SampledFrom([]int{0, 50, 500, 3000, 12000}).Draw(t, "shutdown_after_us"),
			Callbacks:       cbServe | rapid.SampledFrom([]int{0, cbAccept, cbClose, cbError, cbAccept | cbClose | cbError}).Draw(t, "callbacks"),
			RealTCP:         rapid.Bool().Draw(t, "real_tcp")}
	}, runStart)

func TestShutdownDuringStartup(t *testing.T) { chkStart.Rapid(t, harness.Pick(40, 1500)) }
