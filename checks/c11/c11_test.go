package c11

import (
	"bytes"
	"fmt"
	"testing"

	modbus "github.com/aldas/go-modbus-client"
	"github.com/aldas/go-modbus-client/packet"
	"pgregory.net/rapid"

	"verif/internal/cat"
	"verif/internal/device"
	"verif/internal/gen"
	"verif/internal/harness"
	"verif/internal/spec"
)

func TestMain(m *testing.M) { harness.Main(m) }

func TestReplay(t *testing.T)  { harness.RunReplay(t) }
func TestRegress(t *testing.T) { harness.RunRegress(t) }

const kfReversed = "coil-bytes-reversed"

// specBit: bit (i mod 8) of payload byte (i div 8).
func specBit(p []byte, i int) bool { return p[i/8]&(1<<uint(i%8)) != 0 }

// revBit: the layout of the open finding: payload bytes consumed last-to-first.
func revBit(p []byte, i int) bool { return p[len(p)-1-i/8]&(1<<uint(i%8)) != 0 }

// verdict decides a case from the per-coil observations: all match the specification -> pass;
// otherwise, if the known finding is open and all match the reversed-bytes model -> excluded; otherwise violation.
type obs struct {
	i    int
	got  bool
	spec bool
	rev  bool
}

func verdict(what string, o []obs, labels []string) harness.Result {
	okSpec, okRev := true, true
	var firstBad obs
	for _, x := range o {
		if x.got != x.spec {
			if okSpec {
				firstBad = x
			}
			okSpec = false
		}
		if x.got != x.rev {
			okRev = false
		}
	}
	if okSpec {
		return harness.Result{NonTrivial: true, Labels: labels}
	}
	if okRev && harness.OpenFinding(kfReversed) {
		return harness.Result{Excluded: kfReversed, Labels: append(labels, "known:"+kfReversed)}
	}
	return harness.Fail("%s: coil %d reads %v, the specification's layout (bit i mod 8 of byte i div 8) gives %v%s", what, firstBad.i, firstBad.got, firstBad.spec,
		map[bool]string{true: " (the answers are consistent with payload bytes consumed last-to-first)", false: " (and the answers are not consistent with the known reversed-bytes layout either)"}[okRev])
}

// ---------------------------------------------------------------------------

type lookupCase struct {
	Framing spec.Framing `json:"framing"`
	FC      uint8        `json:"fc"`
	Start   int          `json:"start"`
	Payload spec.Hex     `json:"payload"`
	// Method: 0 IsCoilSet, 1 IsInputSet (fc2 only)
	Method int `json:"method"`
	// Outside: extra addresses queried that must all be errors if not inside
	Outside []int `json:"outside"`
	// Literal: the response value is not parsed from a frame but built from the payload only (Data set, the redundant byte-count
	// field left unset - Bytes() derives the byte count from len(Data), so this is a complete description of the response)
	Literal bool `json:"literal,omitempty"`
}

func literalResp(f spec.Framing, fc uint8, payload []byte) packet.Response {
	data := append([]byte(nil), payload...)
	switch {
	case fc == 1 && f == spec.TCP:
		return &packet.ReadCoilsResponseTCP{MBAPHeader: packet.MBAPHeader{TransactionID: 9}, ReadCoilsResponse: packet.ReadCoilsResponse{UnitID: 3, Data: data}}
	case fc == 1:
		return &packet.ReadCoilsResponseRTU{ReadCoilsResponse: packet.ReadCoilsResponse{UnitID: 3, Data: data}}
	case f == spec.TCP:
		return &packet.ReadDiscreteInputsResponseTCP{MBAPHeader: packet.MBAPHeader{TransactionID: 9}, ReadDiscreteInputsResponse: packet.ReadDiscreteInputsResponse{UnitID: 3, Data: data}}
	}
	return &packet.ReadDiscreteInputsResponseRTU{ReadDiscreteInputsResponse: packet.ReadDiscreteInputsResponse{UnitID: 3, Data: data}}
}

func isSet(resp packet.Response, method int, start, addr uint16) (bool, error) {
	switch r := resp.(type) {
	case *packet.ReadCoilsResponseTCP:
		return r.IsCoilSet(start, addr)
	case *packet.ReadCoilsResponseRTU:
		return r.IsCoilSet(start, addr)
	case *packet.ReadDiscreteInputsResponseTCP:
		if method == 1 {
			return r.IsInputSet(start, addr)
		}
		return r.IsCoilSet(start, addr)
	case *packet.ReadDiscreteInputsResponseRTU:
		if method == 1 {
			return r.IsInputSet(start, addr)
		}
		return r.IsCoilSet(start, addr)
	}
	panic("not a coil response")
}

func parseResp(f spec.Framing, frame []byte) (packet.Response, error) {
	if f == spec.TCP {
		return packet.ParseTCPResponse(frame)
	}
	return packet.ParseRTUResponseWithCRC(frame)
}

func runLookup(c lookupCase) harness.Result {
	frame := spec.EncodeResponse(c.Framing, spec.Resp{FC: c.FC, Unit: 3, Tx: 9, Data: c.Payload})
	resp, err := parseResp(c.Framing, frame)
	if err != nil {
		return harness.Fail("cannot parse the well-formed fc%d response: %v", c.FC, err)
	}
	if c.Literal {
		resp = literalResp(c.Framing, c.FC, c.Payload)
		if !bytes.Equal(resp.Bytes(), frame) {
			return harness.Fail("harness: the response built from the payload encodes to %x, the frame is %x", resp.Bytes(), frame)
		}
	}
	// two more responses are alive and queried alternately with the one under test (other devices polled in the same loop): one with
	// the complemented payload, one a byte shorter. What is looked up in one response never comes from another.
	inv := make([]byte, len(c.Payload))
	for i, b := range c.Payload {
		inv[i] = ^b
	}
	others := []packet.Response{}
	for _, pl := range [][]byte{inv, inv[:len(inv)-len(inv)/2]} {
		if len(pl) == 0 {
			continue
		}
		if r2, err := parseResp(c.Framing, spec.EncodeResponse(c.Framing, spec.Resp{FC: c.FC, Unit: 4, Tx: 10, Data: pl})); err == nil {
			others = append(others, r2)
		}
	}
	nbits := 8 * len(c.Payload)
	var o []obs
	for i := 0; i < nbits && c.Start+i <= 65535; i++ {
		if len(others) > 0 {
			_, _ = isSet(others[i%len(others)], c.Method, uint16(c.Start), uint16(c.Start+i))
		}
		got, err := isSet(resp, c.Method, uint16(c.Start), uint16(c.Start+i))
		if err != nil {
			return harness.Fail("coil %d (address %d) lies inside the %d-byte payload starting at %d but the lookup failed: %v", i, c.Start+i, len(c.Payload), c.Start, err)
		}
		o = append(o, obs{i, got, specBit(c.Payload, i), revBit(c.Payload, i)})
	}
	for _, a := range c.Outside {
		if a < 0 || a > 65535 || (a >= c.Start && a < c.Start+nbits) {
			continue
		}
		if len(others) > 0 {
			_, _ = isSet(others[0], c.Method, uint16(c.Start), uint16(a))
		}
		got, err := isSet(resp, c.Method, uint16(c.Start), uint16(a))
		if err == nil {
			return harness.Fail("address %d is outside [%d,%d) but the lookup returned %v without error", a, c.Start, c.Start+nbits, got)
		}
		if got {
			return harness.Fail("address %d is outside the payload: error %v together with value true", a, err)
		}
	}
	labels := []string{fmt.Sprintf("fc%d", c.FC), fmt.Sprintf("bytes:%s", sizeClass(len(c.Payload)))}
	if c.Literal {
		labels = append(labels, "response-built-from-payload")
	}
	res := verdict(fmt.Sprintf("fc%d payload %x start %d", c.FC, []byte(c.Payload), c.Start), o, labels)
	res.Weight = int64(len(o) + len(c.Outside))
	if len(c.Payload) < 2 {
		res.NonTrivial = false // a single byte cannot distinguish byte orders
	}
	return res
}

func sizeClass(n int) string {
	switch {
	case n == 1:
		return "1"
	case n <= 3:
		return "2-3"
	case n < 250:
		return "4-249"
	}
	return "250"
}

func genLookup(t *rapid.T) lookupCase {
	n := rapid.SampledFrom([]int{1, 2, 3, 250, -1, -1, -1}).Draw(t, "nbytes")
	if n < 0 {
		n = rapid.IntRange(1, 250).Draw(t, "nbytes_any")
	}
	c := lookupCase{Framing: gen.Framing(t), FC: rapid.SampledFrom([]uint8{1, 2}).Draw(t, "fc"), Payload: gen.Payload(t, "payload", n)}
	c.Start = int(gen.U16(t, "start", []int{0, 1, 7, 8, 100, 65535 - 8*n + 1, 65535 - 8*n, 65535}))
	if c.FC == 2 {
		c.Method = rapid.IntRange(0, 1).Draw(t, "method")
	}
	for _, d := range []int{-1, -2, -8, -9} {
		c.Outside = append(c.Outside, c.Start+d)
	}
	for _, d := range []int{0, 1, 7, 8, 1000} {
		c.Outside = append(c.Outside, c.Start+8*n+d)
	}
	c.Outside = append(c.Outside, 0, 65535, rapid.IntRange(0, 65535).Draw(t, "far"))
	c.Literal = rapid.IntRange(0, 3).Draw(t, "literal") == 0
	return c
}

var chkLookup = harness.Define("coil-lookup", genLookup, runLookup).Repeated(2)

// ---------------------------------------------------------------------------
// write / read-back through a conforming device

type rbCase struct {
	Framing spec.Framing `json:"framing"`
	Start   int          `json:"start"`
	N       int          `json:"n"`
	Pattern spec.Hex     `json:"pattern"` // packed, bit i = coil i
	Seed    uint64       `json:"seed"`
}

func runReadback(c rbCase) harness.Result {
	coils := cat.CoilsOf(c.Pattern, c.N)
	wq, err := cat.NewRequest(c.Framing, spec.Req{FC: 15, Unit: 5, Tx: 100, Addr: uint16(c.Start), Qty: uint16(c.N), Payload: c.Pattern})
	if err != nil {
		return harness.Fail("write-multiple-coils constructor refused %d coils: %v", c.N, err)
	}
	dev := device.New(c.Seed)
	wreply := dev.Answer(c.Framing, wq.Bytes())
	wresp, err := parseResp(c.Framing, wreply)
	if err != nil {
		return harness.Fail("device reply to the write request %x was %x: %v", wq.Bytes(), wreply, err)
	}
	_ = wresp
	// the device must now hold the pattern (this checks the write side against the specification's layout)
	for i, want := range coils {
		if dev.Coil(device.Coils, c.Start+i) != want {
			return harness.Fail("write side: after writing the pattern, the conforming device holds %v at coil %d, pattern says %v (request %x)", !want, i, want, wq.Bytes())
		}
	}
	rq, err := cat.NewRequest(c.Framing, spec.Req{FC: 1, Unit: 5, Tx: 101, Addr: uint16(c.Start), Qty: uint16(c.N)})
	if err != nil {
		return harness.Fail("read-coils constructor refused quantity %d: %v", c.N, err)
	}
	rreply := dev.Answer(c.Framing, rq.Bytes())
	rresp, err := parseResp(c.Framing, rreply)
	if err != nil {
		return harness.Fail("device reply to the read request was %x: %v", rreply, err)
	}
	payload := spec.PackCoils(coils)
	var o []obs
	for i := 0; i < c.N; i++ {
		got, err := isSet(rresp, 0, uint16(c.Start), uint16(c.Start+i))
		if err != nil {
			return harness.Fail("read back: coil %d of %d: %v", i, c.N, err)
		}
		o = append(o, obs{i, got, coils[i], revBit(payload, i)})
	}
	labels := []string{"readback", c.Framing.String()}
	res := verdict(fmt.Sprintf("write %d coils at %d then read back", c.N, c.Start), o, labels)
	res.Weight = int64(c.N)
	if c.N <= 8 {
		res.NonTrivial = false
	}
	return res
}

func genReadback(t *rapid.T) rbCase {
	n := rapid.SampledFrom([]int{1, 7, 8, 9, 15, 16, 17, 1967, 1968, -1, -1, -1}).Draw(t, "n")
	if n < 0 {
		n = rapid.IntRange(1, 1968).Draw(t, "n_any")
	}
	p := gen.Payload(t, "pattern", (n+7)/8)
	if rem := n % 8; rem != 0 {
		p[len(p)-1] &= byte(1<<uint(rem)) - 1
	}
	start := rapid.SampledFrom([]int{0, 1, 1000, 65536 - n}).Draw(t, "start")
	return rbCase{Framing: gen.Framing(t), Start: start, N: n, Pattern: p, Seed: rapid.Uint64().Draw(t, "seed")}
}

var chkReadback = harness.Define("coil-write-readback", genReadback, runReadback).Repeated(2)

// ---------------------------------------------------------------------------
// the same with a long pattern written in chunks: every write request gets a sub-slice of the caller's ONE pattern (all but the last
// have spare capacity - the following chunk), then the whole range is read back and compared with the pattern as the caller made it

type chunkCase struct {
	Framing spec.Framing `json:"framing"`
	Start   int          `json:"start"`
	Chunks  []int        `json:"chunks"`
	Pattern spec.Hex     `json:"pattern"` // packed, bit i = coil i
	Seed    uint64       `json:"seed"`
}

func runChunks(c chunkCase) harness.Result {
	total := 0
	for _, n := range c.Chunks {
		total += n
	}
	pattern := cat.CoilsOf(c.Pattern, total)
	want := append([]bool(nil), pattern...)
	dev := device.New(c.Seed)
	off := 0
	for i, n := range c.Chunks {
		wq, err := cat.NewWriteCoilsRequest(c.Framing, 5, uint16(100+i), uint16(c.Start+off), pattern[off:off+n])
		if err != nil {
			return harness.Fail("write-multiple-coils constructor refused chunk %d (%d coils): %v", i+1, n, err)
		}
		wreply := dev.Answer(c.Framing, wq.Bytes())
		if _, err := parseResp(c.Framing, wreply); err != nil {
			return harness.Fail("device reply to the write request %x was %x: %v", wq.Bytes(), wreply, err)
		}
		off += n
	}
	for i := range want {
		if pattern[i] != want[i] {
			return harness.Fail("a pattern of %d coils was written in chunks of %v coils (each request built from a sub-slice of the pattern): coil %d of the CALLER'S pattern has changed to %v", total, c.Chunks, i, pattern[i])
		}
		if dev.Coil(device.Coils, c.Start+i) != want[i] {
			return harness.Fail("a pattern of %d coils was written in chunks of %v coils (each request built from a sub-slice of the pattern): the conforming device holds %v at coil %d, the pattern says %v", total, c.Chunks, !want[i], i, want[i])
		}
	}
	var o []obs
	for roff := 0; roff < total; roff += 2000 {
		n := min(2000, total-roff)
		part := spec.PackCoils(want[roff : roff+n]) // (the listed reversed-bytes layout is relative to each response's own payload)
		rq, err := cat.NewRequest(c.Framing, spec.Req{FC: 1, Unit: 5, Tx: 99, Addr: uint16(c.Start + roff), Qty: uint16(n)})
		if err != nil {
			return harness.Fail("read-coils constructor refused quantity %d: %v", n, err)
		}
		rreply := dev.Answer(c.Framing, rq.Bytes())
		rresp, err := parseResp(c.Framing, rreply)
		if err != nil {
			return harness.Fail("device reply to the read request was %x: %v", rreply, err)
		}
		for i := 0; i < n; i++ {
			got, err := isSet(rresp, 0, uint16(c.Start+roff), uint16(c.Start+roff+i))
			if err != nil {
				return harness.Fail("read back: coil %d of %d: %v", roff+i, total, err)
			}
			o = append(o, obs{roff + i, got, want[roff+i], revBit(part, i)})
		}
	}
	labels := []string{"readback-in-chunks", c.Framing.String(), fmt.Sprintf("chunks:%d", len(c.Chunks))}
	if c.Chunks[0]%8 != 0 {
		labels = append(labels, "first-chunk-ends-inside-a-byte")
	}
	res := verdict(fmt.Sprintf("write %d coils at %d in chunks of %v then read back", total, c.Start, c.Chunks), o, labels)
	res.Weight = int64(total)
	res.NonTrivial = len(c.Chunks) >= 2 && total > 8
	return res
}

func genChunks(t *rapid.T) chunkCase {
	c := chunkCase{Framing: gen.Framing(t), Seed: rapid.Uint64().Draw(t, "seed")}
	k := rapid.IntRange(2, 4).Draw(t, "chunks")
	total := 0
	for i := 0; i < k; i++ {
		n := rapid.SampledFrom([]int{1, 7, 8, 9, 100, 1000, 1967, 1968, -1, -1, -1}).Draw(t, "n")
		if n < 0 {
			n = rapid.IntRange(1, 400).Draw(t, "n_any")
		}
		c.Chunks = append(c.Chunks, n)
		total += n
	}
	c.Pattern = gen.Payload(t, "pattern", (total+7)/8)
	c.Start = rapid.SampledFrom([]int{0, 1, 1000, 65536 - total}).Draw(t, "start")
	return c
}

var chkChunks = harness.Define("coil-write-in-chunks-readback", genChunks, runChunks).Repeated(2)

func TestChunkedWrite(t *testing.T) { chkChunks.Rapid(t, harness.Pick(1500, 60000)) }

// ---------------------------------------------------------------------------
// builder: coil fields -> requests -> device -> ExtractFields

type bCase struct {
	Framing spec.Framing `json:"framing"`
	FC      uint8        `json:"fc"`
	Addrs   []int        `json:"addrs"`
	Seed    uint64       `json:"seed"`
	Lenient bool         `json:"lenient"`
	// Unnamed: the fields are added without a name (Field.Name is optional; its zero value is the empty string)
	Unnamed bool `json:"unnamed,omitempty"`
	// Rows: the fields are given as Field values through AddAll (rows of a configuration file) and carry the attributes that are
	// documented as relevant to register fields only (Bit 1..15, FromHighByte, Length): a coil field is its address
	Rows bool `json:"rows,omitempty"`
}

func runBuilder(c bCase) harness.Result {
	b := modbus.NewRequestBuilder("dev:502", 4)
	if c.Rows {
		var rows modbus.Fields
		for i, a := range c.Addrs {
			f := modbus.Field{ServerAddress: "dev:502", UnitID: 4, Type: modbus.FieldTypeCoil, Address: uint16(a), Bit: uint8(1 + (i*7)%15), FromHighByte: i%2 == 1, Length: uint8(i % 5)}
			if !c.Unnamed {
				f.Name = fmt.Sprintf("c%d", i)
			}
			rows = append(rows, f)
		}
		b.AddAll(rows)
	}
	for i, a := range c.Addrs {
		if c.Rows {
			break
		}
		if c.Unnamed {
			b.Add(b.Coil(uint16(a)))
		} else {
			b.Add(b.Coil(uint16(a)).Name(fmt.Sprintf("c%d", i)))
		}
	}
	var reqs []modbus.BuilderRequest
	var err error
	switch {
	case c.FC == 1 && c.Framing == spec.TCP:
		reqs, err = b.ReadCoilsTCP()
	case c.FC == 1:
		reqs, err = b.ReadCoilsRTU()
	case c.Framing == spec.TCP:
		reqs, err = b.ReadDiscreteInputsTCP()
	default:
		reqs, err = b.ReadDiscreteInputsRTU()
	}
	if err != nil {
		return harness.Fail("builder refused %d valid coil fields: %v", len(c.Addrs), err)
	}
	dev := device.New(c.Seed)
	seen := map[string]int{}
	var o []obs
	multi := false
	for _, r := range reqs {
		reply := dev.Answer(c.Framing, r.Bytes())
		resp, err := parseResp(c.Framing, reply)
		if err != nil {
			return harness.Fail("device answered %x to %x: %v", reply, r.Bytes(), err)
		}
		fv, err := r.ExtractFields(resp, c.Lenient)
		if err != nil {
			return harness.Fail("ExtractFields failed on a complete reply: %v", err)
		}
		// the same response held as a struct value (what a handler or a test double builds) instead of the pointer the parsers return
		if val := derefResp(resp); val != nil {
			if _, ok := val.(modbus.CoilsResponse); !ok {
				return harness.Fail("the response value %T does not offer the coil lookup (modbus.CoilsResponse) that its pointer offers", val)
			}
			fv2, err := r.ExtractFields(val, c.Lenient)
			if err != nil {
				return harness.Fail("ExtractFields failed on the response passed by value (%T): %v", val, err)
			}
			if len(fv2) != len(fv) {
				return harness.Fail("ExtractFields returned %d fields for the response value, %d for its pointer", len(fv2), len(fv))
			}
			for i := range fv {
				if fv[i].Value != fv2[i].Value || (fv[i].Error == nil) != (fv2[i].Error == nil) {
					return harness.Fail("field %s reads %v from the response pointer and %v from the same response passed by value", fv[i].Field.Name, fv[i].Value, fv2[i].Value)
				}
			}
		}
		payload := dataOf(resp)
		if len(payload) > 1 {
			multi = true
		}
		for _, v := range fv {
			seen[fmt.Sprintf("%s@%d", v.Field.Name, v.Field.Address)]++
			got, ok := v.Value.(bool)
			if !ok || v.Error != nil {
				return harness.Fail("field %s: value %v (%T) error %v", v.Field.Name, v.Value, v.Value, v.Error)
			}
			i := int(v.Field.Address) - int(r.StartAddress)
			if i < 0 || i >= 8*len(payload) {
				return harness.Fail("field %s at %d is not inside its request window starting at %d", v.Field.Name, v.Field.Address, r.StartAddress)
			}
			o = append(o, obs{int(v.Field.Address), got, dev.Coil(int(c.FC)-1, int(v.Field.Address)), revBit(payload, i)})
		}
	}
	// the request descriptor is a plain struct with exported fields: a caller may filter or reorder its Fields (or build one
	// by hand). The value of a coil field must depend only on the start address and the field's address.
	for _, r := range reqs {
		if len(r.Fields) < 2 {
			continue
		}
		reply := device.New(c.Seed).Answer(c.Framing, r.Bytes())
		resp, err := parseResp(c.Framing, reply)
		if err != nil {
			continue
		}
		payload := dataOf(resp)
		r2 := r
		r2.Fields = nil
		for i := len(r.Fields) - 1; i >= 1; i-- { // reversed, without the field at the start address
			r2.Fields = append(r2.Fields, r.Fields[i])
		}
		fv, err := r2.ExtractFields(resp, c.Lenient)
		if err != nil {
			return harness.Fail("ExtractFields with the same request but its fields reordered failed: %v", err)
		}
		for _, v := range fv {
			got, ok := v.Value.(bool)
			if !ok || v.Error != nil {
				return harness.Fail("reordered fields: field %s: value %v error %v", v.Field.Name, v.Value, v.Error)
			}
			i := int(v.Field.Address) - int(r.StartAddress)
			o = append(o, obs{int(v.Field.Address), got, dev.Coil(int(c.FC)-1, int(v.Field.Address)), revBit(payload, i)})
		}
	}
	// lenient extraction with a field outside the response window listed FIRST (a hand-built or extended field list): that field
	// fails, every other coil is still looked up on its own
	for _, r := range reqs {
		reply := device.New(c.Seed).Answer(c.Framing, r.Bytes())
		resp, err := parseResp(c.Framing, reply)
		if err != nil {
			continue
		}
		payload := dataOf(resp)
		outside := int(r.StartAddress) + 8*len(payload) + 3
		if r.StartAddress > 0 && len(r.Fields)%2 == 0 {
			outside = int(r.StartAddress) - 1
		}
		if outside > 65535 || len(r.Fields) == 0 {
			continue
		}
		r3 := r
		of := r.Fields[0]
		of.Name, of.Address = "outside", uint16(outside)
		r3.Fields = append([]modbus.Field{of}, r.Fields...)
		// strict extraction must fail as a whole, wherever the out-of-window field stands in the list
		r4 := r
		r4.Fields = append(append([]modbus.Field(nil), r.Fields...), of)
		for _, rs := range []modbus.BuilderRequest{r3, r4} {
			if fvS, errS := rs.ExtractFields(resp, false); errS == nil {
				return harness.Fail("strict extraction with a coil field at %d, outside the response window starting at %d (%d bytes), returned %d values and no error", outside, r.StartAddress, len(payload), len(fvS))
			}
		}
		// an out-of-window field listed LAST, near and far beyond the window: what lenient extraction reports for it (error and the
		// value next to it) is what it reports when that field is extracted alone - the fields before it do not show through
		for _, far := range []int{outside, int(r.StartAddress) + 2000, int(r.StartAddress) + 2000 + 7 + len(r.Fields)} {
			if far > 65535 || far < int(r.StartAddress)+8*len(payload) && far >= int(r.StartAddress) {
				continue
			}
			ff := of
			ff.Address = uint16(far)
			last := r
			last.Fields = append(append([]modbus.Field(nil), r.Fields...), ff)
			alone := r
			alone.Fields = []modbus.Field{ff}
			fvL, _ := last.ExtractFields(resp, true)
			fvA, _ := alone.ExtractFields(resp, true)
			if len(fvL) != len(last.Fields) || len(fvA) != 1 {
				return harness.Fail("lenient extraction returned %d values for %d fields and %d values for 1 field", len(fvL), len(last.Fields), len(fvA))
			}
			gl, ga := fvL[len(fvL)-1], fvA[0]
			if gl.Error == nil || ga.Error == nil {
				return harness.Fail("coil field at %d lies outside the response window starting at %d (%d bytes) but was extracted as %v / %v", far, r.StartAddress, len(payload), gl.Value, ga.Value)
			}
			if fmt.Sprintf("%T %v", gl.Value, gl.Value) != fmt.Sprintf("%T %v", ga.Value, ga.Value) || gl.Error.Error() != ga.Error.Error() {
				return harness.Fail("lenient extraction: the coil field at %d (outside the response window starting at %d, %d bytes) is reported as (%v, %v) when it stands last behind %d other fields, but as (%v, %v) when it is extracted alone", far, r.StartAddress, len(payload), gl.Value, gl.Error, len(r.Fields), ga.Value, ga.Error)
			}
		}
		fv, _ := r3.ExtractFields(resp, true)
		if len(fv) != len(r3.Fields) {
			return harness.Fail("lenient extraction with an out-of-window field first returned %d values for %d fields", len(fv), len(r3.Fields))
		}
		for k, v := range fv {
			if k == 0 {
				if v.Error == nil {
					return harness.Fail("coil field at %d lies outside the response window starting at %d (%d bytes) but was extracted as %v", outside, r.StartAddress, len(payload), v.Value)
				}
				continue
			}
			got, ok := v.Value.(bool)
			if !ok || v.Error != nil {
				return harness.Fail("lenient extraction: field %s at %d is inside the response window but is reported as %v with error %v after an earlier field (at %d, outside the window) failed", v.Field.Name, v.Field.Address, v.Value, v.Error, outside)
			}
			i := int(v.Field.Address) - int(r.StartAddress)
			o = append(o, obs{int(v.Field.Address), got, dev.Coil(int(c.FC)-1, int(v.Field.Address)), revBit(payload, i)})
		}
	}
	wantSeen := map[string]int{}
	for i, a := range c.Addrs {
		name := fmt.Sprintf("c%d", i)
		if c.Unnamed {
			name = ""
		}
		wantSeen[fmt.Sprintf("%s@%d", name, uint16(a))]++
	}
	for k, n := range wantSeen {
		if seen[k] != n {
			return harness.Fail("field %s defined %d time(s), reported %d time(s)", k, n, seen[k])
		}
	}
	res := verdict(fmt.Sprintf("builder fc%d %s fields at %v", c.FC, c.Framing, c.Addrs), o, []string{"builder", fmt.Sprintf("requests:%d", len(reqs))})
	res.NonTrivial = res.NonTrivial && multi
	return res
}

func derefResp(resp packet.Response) packet.Response {
	switch r := resp.(type) {
	case *packet.ReadCoilsResponseTCP:
		return *r
	case *packet.ReadCoilsResponseRTU:
		return *r
	case *packet.ReadDiscreteInputsResponseTCP:
		return *r
	case *packet.ReadDiscreteInputsResponseRTU:
		return *r
	}
	return nil
}

func dataOf(resp packet.Response) []byte {
	switch r := resp.(type) {
	case *packet.ReadCoilsResponseTCP:
		return r.Data
	case *packet.ReadCoilsResponseRTU:
		return r.Data
	case *packet.ReadDiscreteInputsResponseTCP:
		return r.Data
	case *packet.ReadDiscreteInputsResponseRTU:
		return r.Data
	}
	return nil
}

func genBuilder(t *rapid.T) bCase {
	c := bCase{Framing: gen.Framing(t), FC: rapid.SampledFrom([]uint8{1, 2}).Draw(t, "fc"), Seed: rapid.Uint64().Draw(t, "seed"), Lenient: rapid.Bool().Draw(t, "lenient"), Rows: rapid.IntRange(0, 2).Draw(t, "rows") == 0}
	base := rapid.SampledFrom([]int{0, 5, 1000, 60000, 65535 - 2100}).Draw(t, "base")
	n := rapid.IntRange(1, 12).Draw(t, "nfields")
	for i := 0; i < n; i++ {
		c.Addrs = append(c.Addrs, base+rapid.SampledFrom([]int{0, 1, 7, 8, 9, 15, 16, 17, 100, 1999, 2000, 2001, 2100, -1, -1}).Draw(t, "off"))
		if c.Addrs[i] == base-1 {
			c.Addrs[i] = base + rapid.IntRange(0, 2100).Draw(t, "off_any")
		}
	}
	c.Unnamed = rapid.IntRange(0, 2).Draw(t, "unnamed") == 0
	return c
}

var chkBuilder = harness.Define("coil-builder-extract", genBuilder, runBuilder).Repeated(2)

// ---------------------------------------------------------------------------

func TestFindings(t *testing.T) {
	harness.Probe(t, kfReversed, func(f harness.Finding) (bool, string) {
		r := packet.ReadCoilsResponse{CoilsByteLength: 2, Data: []byte{0x01, 0x00}}
		v, err := r.IsCoilSet(0, 0)
		if err == nil && !v {
			v8, _ := r.IsCoilSet(0, 8)
			return true, fmt.Sprintf("payload 0100: IsCoilSet(0,0)=%v IsCoilSet(0,8)=%v", v, v8)
		}
		return false, ""
	})
}

func TestRandom(t *testing.T) {
	chkLookup.Rapid(t, harness.Pick(4000, 300000))
	chkReadback.Rapid(t, harness.Pick(500, 50000))
	chkBuilder.Rapid(t, harness.Pick(1500, 100000))
}

func TestBitSweep(t *testing.T) {
	// every (length 1..250) x every bit with walking-one, walking-zero and random payloads
	idx := 0
	n := int64(0)
	step := harness.Pick(7, 1)
	for l := 1; l <= 250; l += step {
		for pat := 0; pat < 4; pat++ {
			idx++
			if !harness.Mine(idx) {
				continue
			}
			for bit := 0; bit < 8*l; bit++ {
				var p []byte
				switch pat {
				case 0: // walking one
					p = make([]byte, l)
					p[bit/8] = 1 << uint(bit%8)
				case 1: // walking zero
					p = bytes.Repeat([]byte{0xFF}, l)
					p[bit/8] &^= 1 << uint(bit%8)
				default:
					if bit > 0 {
						continue // random payload: one case covers every bit
					}
					p = harness.Bytes(uint64(l*8+pat)+harness.Seed(), l)
				}
				c := lookupCase{Framing: spec.Framing(idx % 2), FC: uint8(1 + (idx/2)%2), Start: (l * 257) % (65536 - 8*l), Payload: p, Outside: []int{(l*257)%(65536-8*l) - 1, (l*257)%(65536-8*l) + 8*l}}
				n++
				if !chkLookup.EvalFast(t, c) {
					return
				}
			}
		}
	}
	if harness.Thorough() {
		harness.Exhaustive("coil-lookup", "every payload length 1..250 x every single set bit and every single cleared bit (all bits queried each time)", n)
	}
	// every pattern length for the read-back relation
	n = 0
	for cnt := 1; cnt <= 1968; cnt += harness.Pick(13, 1) {
		for pat := 0; pat < 3; pat++ {
			idx++
			if !harness.Mine(idx) {
				continue
			}
			p := make([]byte, (cnt+7)/8)
			switch pat {
			case 0:
				for i := range p {
					p[i] = 0x0F
				}
			case 1:
				p[0] = 1
				p[len(p)-1] |= 1 << uint((cnt-1)%8)
			default:
				p = harness.Bytes(uint64(cnt)+harness.Seed(), len(p))
			}
			if rem := cnt % 8; rem != 0 {
				p[len(p)-1] &= byte(1<<uint(rem)) - 1
			}
			n++
			if !chkReadback.EvalFast(t, rbCase{Framing: spec.Framing(idx % 2), Start: cnt * 3, N: cnt, Pattern: p, Seed: uint64(idx)}) {
				return
			}
		}
	}
	if harness.Thorough() {
		harness.Exhaustive("coil-write-readback", "every coil count 1..1968 x 3 patterns", 1968*3)
	}
}
