// The library's go.mod says go 1.22: in a program whose main module says the same, timer channels are still buffered and Reset/Stop do
// not discard a tick that has fired (GODEBUG asynctimerchan=1). This module says go 1.23, so the check asks for the library's own setting.
//
//go:debug asynctimerchan=1
package c19

import (
	"bytes"
	"fmt"
	"github.com/aldas/go-modbus-client/packet"
	"testing"

	"pgregory.net/rapid"

	"verif/internal/cat"
	"verif/internal/cli"
	"verif/internal/device"
	"verif/internal/gen"
	"verif/internal/harness"
	"verif/internal/spec"
	"verif/internal/xport"
)

// (every case is written to disk before it runs: if the library kills the process - unbounded recursion, a fatal runtime error in a
// goroutine it started - the case that did it is the replay)
func TestMain(m *testing.M) {
	harness.EnableJournal()
	harness.Main(m)
}

func TestReplay(t *testing.T)  { harness.RunReplay(t) }
func TestRegress(t *testing.T) { harness.RunRegress(t) }

type hookCase struct {
	Kind    string   `json:"kind"`
	Req     spec.Req `json:"req"`
	DevSeed uint64   `json:"dev_seed"`
	ExcCode uint8    `json:"exc_code"`
	// Deliver: how many reply bytes are delivered at all (== len(reply) unless the reply is cut short by the terminal event)
	Deliver int    `json:"deliver"`
	Cuts    []int  `json:"cuts"`
	Gaps    []int  `json:"gaps"`
	GapKind string `json:"gap_kind"`
	// Terminal: what follows the delivered bytes: "ioerr" | "eof" | "eof-with-bytes" | "ioerr-with-bytes"
	// (a terminal ioerr is always appended as a backstop so that no call depends on the read timeout)
	Terminal string `json:"terminal"`
	// CustomParse: observe parser entry directly (network clients via NewClient)
	CustomParse bool `json:"custom_parse"`
	// Extra: this many further bytes follow the reply on the transport (an oversized reply: the call ends with the too-long error, the
	// hooks must still see every read exactly). Deliver/Cuts then count over reply+extra.
	Extra int `json:"extra,omitempty"`
	// EchoFirst: the line echoes the request (2-wire RS485, some gateways): the bytes of the request arrive in front of the reply. Whatever
	// the client makes of that, the hooks still see every read and, if the parser is entered, all bytes read.
	EchoFirst bool `json:"echo_first,omitempty"`
	// Prior: an earlier call on the same client and the same hooks (success | ioerr); only the judged call's hook calls are compared
	Prior string `json:"prior,omitempty"`
	// PriorShape: the earlier call's request: "" same as Req | "short" (FC17, the shortest frame) | "long" (FC16 with 100 registers)
	PriorShape string `json:"prior_shape,omitempty"`
	// ExplicitParser: the client's configuration names the standard response parser explicitly (see cli.Scenario)
	ExplicitParser bool `json:"explicit_parser,omitempty"`
	// Address: the form of the address given to Connect (network kinds; see cli.Scenario)
	Address string `json:"address,omitempty"`
	// PacketConn (network kinds): the connection also implements net.PacketConn (see cli.Scenario)
	PacketConn bool `json:"packet_conn,omitempty"`
	// CancelChunk k > 0: the caller's context is cancelled while the read that delivers the k-th chunk is in flight; that read
	// then takes CancelBlockMs more milliseconds and returns its bytes. However the client reacts to the cancellation, the read did
	// happen and the after-read hook must be told about it.
	CancelChunk   int `json:"cancel_chunk,omitempty"`
	CancelBlockMs int `json:"cancel_block_ms,omitempty"`
	// LateChunks: the reads that deliver these chunks (1-based) also report that their deadline has passed - the
	// deadline ended the read after the bytes had arrived; an io.Reader may return both. The bytes were read all the same.
	LateChunks []int `json:"late_chunks,omitempty"`
}

func scenario(c hookCase) (cli.Scenario, []byte, error) {
	f := cli.FramingOf(c.Kind)
	q, err := cat.NewRequest(f, c.Req)
	if err != nil {
		return cli.Scenario{}, nil, err
	}
	d := device.New(c.DevSeed)
	d.ForceException = c.ExcCode
	reply := d.Answer(f, q.Bytes())
	if c.EchoFirst {
		reply = append(append([]byte(nil), q.Bytes()...), reply...)
	}
	if c.Extra > 0 {
		reply = append(reply, harness.Bytes(c.DevSeed^0xE, c.Extra)...)
	}
	n := c.Deliver
	if n > len(reply) || n < 0 {
		n = len(reply)
	}
	var ev []xport.Event
	gk := c.GapKind
	if gk == "" {
		gk = "timeout"
	}
	chunks := []int{}
	if n > 0 {
		chunks = gen.ChunksFromCuts(n, c.Cuts)
	}
	withBytes := c.Terminal == "eof-with-bytes" || c.Terminal == "ioerr-with-bytes"
	late := map[int]bool{}
	for _, i := range c.LateChunks {
		late[i] = true
	}
	for i, k := range chunks {
		g := 0
		if i < len(c.Gaps) {
			g = c.Gaps[i]
		}
		for j := 0; j < g; j++ {
			ev = append(ev, xport.Event{Kind: gk})
		}
		if withBytes && i == len(chunks)-1 {
			kind := "eof"
			if c.Terminal == "ioerr-with-bytes" {
				kind = "ioerr"
			}
			ev = append(ev, xport.Event{Kind: kind, N: k})
		} else if c.CancelChunk == i+1 && c.CancelBlockMs > 0 {
			ev = append(ev, xport.Event{Kind: "cancel", N: k, Ms: c.CancelBlockMs})
		} else if late[i+1] {
			ev = append(ev, xport.Event{Kind: "timeout", N: k})
		} else {
			ev = append(ev, xport.Event{Kind: "data", N: k})
		}
	}
	if len(c.Gaps) > len(chunks) {
		for j := 0; j < c.Gaps[len(chunks)]; j++ {
			ev = append(ev, xport.Event{Kind: gk})
		}
	}
	if c.Terminal == "eof" && !cli.IsSerial(c.Kind) {
		ev = append(ev, xport.Event{Kind: "eof", N: 0})
	}
	ev = append(ev, xport.Event{Kind: "ioerr", N: 0}) // backstop
	return cli.Scenario{Kind: c.Kind, Req: c.Req, Stream: reply[:n], Events: ev, ReadTimeoutMs: 5000, CustomParse: c.CustomParse, Prior: c.Prior, PriorReq: priorReq(c), ExplicitParser: c.ExplicitParser && !c.CustomParse, Address: c.Address, PacketConn: c.PacketConn}, reply, nil
}

func priorReq(c hookCase) *spec.Req { return cli.PriorShapeReq(c.PriorShape) }

func outcomeText(o cli.Outcome) string {
	s := ""
	if !cat.IsNilValue(o.Resp) {
		s += fmt.Sprintf("resp %T %x", o.Resp, o.Resp.Bytes())
	} else {
		s += "resp nil"
	}
	if o.Err != nil {
		s += fmt.Sprintf(" err %T %q", o.Err, o.Err.Error())
	}
	return s
}

// hooksAgainstTransport compares the recorded hook calls of one request call with what the transport saw.
func hooksAgainstTransport(c hookCase, o cli.Outcome) (parserEntered bool, res harness.Result) {
	var hw, hr, hp []cli.HookCall
	for _, h := range o.Hooks {
		switch h.Kind {
		case "write":
			hw = append(hw, h)
		case "read":
			hr = append(hr, h)
		case "parse":
			hp = append(hp, h)
		}
	}
	// before-write
	if len(hw) != 1 {
		return false, harness.Fail("BeforeWrite called %d times", len(hw))
	}
	if len(o.Writes) != 1 || !bytes.Equal(hw[0].Data, o.ReqBytes) || !bytes.Equal(o.Writes[0], o.ReqBytes) {
		return false, harness.Fail("BeforeWrite got %x, request encodes to %x, transport received %x", hw[0].Data, o.ReqBytes, o.Writes)
	}
	if hw[0].Seq > o.WriteSeqs[0] {
		return false, harness.Fail("BeforeWrite was called after the transport write")
	}
	// after-each-read
	if len(hr) != len(o.Reads) {
		return false, harness.Fail("AfterEachRead called %d times for %d transport reads", len(hr), len(o.Reads))
	}
	var all []byte
	for i, r := range o.Reads {
		h := hr[i]
		if !bytes.Equal(h.Data, r.Data) || h.N != r.N || h.Err != r.Err {
			return false, harness.Fail("read #%d returned (%x, n=%d, err=%v) but AfterEachRead got (%x, n=%d, err=%v); bytes read before it: %x", i, r.Data, r.N, r.Err, h.Data, h.N, h.Err, all)
		}
		if h.Seq < r.Seq || (i+1 < len(o.Reads) && h.Seq > o.Reads[i+1].Seq) {
			return false, harness.Fail("AfterEachRead #%d not invoked between transport read #%d and the next one", i, i)
		}
		all = append(all, r.Data...)
	}
	// before-parse
	parserEntered = false
	if c.CustomParse {
		parserEntered = len(o.ParserCalls) > 0
		if len(o.ParserCalls) > 1 {
			return false, harness.Fail("parser called %d times", len(o.ParserCalls))
		}
	} else {
		// outcome based: a response means the parser ran
		parserEntered = !cat.IsNilValue(o.Resp)
	}
	if len(hp) > 1 {
		return false, harness.Fail("BeforeParse called %d times", len(hp))
	}
	if parserEntered {
		if len(hp) != 1 {
			return false, harness.Fail("the reply was handed to the parser but BeforeParse was called %d times", len(hp))
		}
		if c.CustomParse {
			pc := o.ParserCalls[0]
			if hp[0].Seq != pc.Seq-1 {
				return false, harness.Fail("BeforeParse (event %d) was not invoked immediately before the parser (event %d)", hp[0].Seq, pc.Seq)
			}
			if !bytes.Equal(pc.Data, all) {
				return false, harness.Fail("parser received %x, bytes read were %x", pc.Data, all)
			}
		}
	}
	if len(hp) == 1 && !bytes.Equal(hp[0].Data, all) {
		return false, harness.Fail("BeforeParse got %x, the concatenation of the bytes read is %x", hp[0].Data, all)
	}
	return parserEntered, harness.Result{}
}

func runHook(c hookCase) harness.Result {
	sc, reply, err := scenario(c)
	if err != nil {
		return harness.Fail("harness: %v", err)
	}
	plain := cli.Run(sc)
	sc.Hooks = true
	o := cli.Run(sc)
	if o.Panic != nil || plain.Panic != nil {
		return harness.Fail("panic: %v / %v", o.Panic, plain.Panic)
	}
	if o.Hung || plain.Hung {
		return harness.Fail("call did not return")
	}
	if msg := o.PriorIntact(); msg != "" {
		return harness.Fail("%s", msg)
	}
	labels := []string{"kind:" + c.Kind, fmt.Sprintf("fc%d", c.Req.FC), "terminal:" + c.Terminal}
	if c.Prior != "" {
		labels = append(labels, "after-earlier-call")
	}
	if c.EchoFirst {
		labels = append(labels, "echoed-request-first")
	}
	if c.PacketConn {
		labels = append(labels, "connection-is-a-net.PacketConn")
	}
	if c.CancelChunk > 0 && c.CancelBlockMs > 0 {
		labels = append(labels, "cancelled-while-a-read-is-in-flight")
	}
	if o.ReadLeftInFlight || plain.ReadLeftInFlight {
		return harness.Fail("a transport read was still in flight 2 s after the call had returned")
	}
	if c.Extra > 0 {
		labels = append(labels, "oversized-reply")
		tot := 0
		for _, r := range o.Reads {
			if tot <= spec.MaxADU(cli.FramingOf(c.Kind)) && tot+r.N > spec.MaxADU(cli.FramingOf(c.Kind)) && tot > 0 {
				labels = append(labels, "read-crossing-the-frame-limit")
			}
			tot += r.N
		}
	}
	// outcome equivalence
	if a, b := outcomeText(plain), outcomeText(o); a != b {
		return harness.Fail("installing hooks changed the outcome:\n  without hooks: %s\n  with hooks:    %s", a, b)
	}
	if len(plain.Reads) != len(o.Reads) || len(plain.Writes) != len(o.Writes) {
		return harness.Fail("installing hooks changed the transport traffic: %d/%d reads, %d/%d writes", len(plain.Reads), len(o.Reads), len(plain.Writes), len(o.Writes))
	}
	parserEntered, hres := hooksAgainstTransport(c, o)
	if hres.Err != nil {
		return hres
	}
	if parserEntered {
		labels = append(labels, "parser-entered")
	}
	if c.CustomParse {
		labels = append(labels, "custom-parse")
	}
	dataReads, emptyReads := 0, 0
	for _, r := range o.Reads {
		if r.N > 0 {
			dataReads++
		} else {
			emptyReads++
		}
	}
	_ = reply
	return harness.Result{NonTrivial: dataReads >= 2 && emptyReads >= 1, Labels: labels}
}

func genHook(t *rapid.T, kinds []string) hookCase {
	c := hookCase{Kind: rapid.SampledFrom(kinds).Draw(t, "kind"), DevSeed: rapid.Uint64().Draw(t, "dev_seed")}
	fc := gen.FC(t)
	c.Req = gen.LegalReq(t, fc, true)
	if fc == 23 && c.Req.Qty > 124 {
		c.Req.Qty = 124
	}
	if rapid.IntRange(0, 5).Draw(t, "exception") == 0 {
		c.ExcCode = rapid.SampledFrom([]uint8{1, 2, 3, 4, 11}).Draw(t, "exc_code")
	}
	c.EchoFirst = rapid.IntRange(0, 7).Draw(t, "echo_first") == 0
	_, reply, err := scenario(c)
	if err != nil {
		panic(err)
	}
	L := len(reply)
	c.Deliver = L
	oversized := rapid.IntRange(0, 5).Draw(t, "oversized") == 0
	if oversized {
		// the bytes before the cut stay below every expected length, so the read after it crosses the frame limit
		c.Extra = spec.MaxADU(cli.FramingOf(c.Kind)) + rapid.IntRange(1, 14).Draw(t, "over_by") - L
		c.Deliver = L + c.Extra
		if k := rapid.IntRange(0, 4).Draw(t, "first_chunk"); k > 0 && k < L {
			c.Cuts = []int{k}
			c.Gaps = []int{rapid.IntRange(0, 1).Draw(t, "gap0"), rapid.IntRange(0, 2).Draw(t, "gap1"), 0}
		}
	} else if rapid.IntRange(0, 3).Draw(t, "short") == 0 {
		c.Deliver = rapid.IntRange(0, L).Draw(t, "deliver")
	}
	if c.Deliver > 1 && !oversized {
		chunks := gen.CutSet(t, "cuts", c.Deliver)
		pos := 0
		for _, k := range chunks[:len(chunks)-1] {
			pos += k
			c.Cuts = append(c.Cuts, pos)
		}
		for range chunks {
			g := 0
			if rapid.IntRange(0, 2).Draw(t, "gap") == 0 {
				g = rapid.IntRange(1, 3).Draw(t, "gap_n")
			}
			c.Gaps = append(c.Gaps, g)
		}
		c.Gaps = append(c.Gaps, rapid.IntRange(0, 2).Draw(t, "tail_gap"))
	}
	if cli.IsSerial(c.Kind) {
		c.GapKind = rapid.SampledFrom([]string{"empty", "timeout", "eof"}).Draw(t, "gap_kind")
		c.Terminal = rapid.SampledFrom([]string{"ioerr", "ioerr-with-bytes"}).Draw(t, "terminal")
	} else {
		c.GapKind = "timeout"
		c.Terminal = rapid.SampledFrom([]string{"ioerr", "eof", "eof-with-bytes", "ioerr-with-bytes"}).Draw(t, "terminal")
		c.CustomParse = rapid.Bool().Draw(t, "custom_parse")
	}
	c.ExplicitParser = !cli.IsSerial(c.Kind) && !c.CustomParse && rapid.IntRange(0, 2).Draw(t, "explicit_parser") == 0
	if !cli.IsSerial(c.Kind) {
		c.Address = rapid.SampledFrom(cli.Addresses).Draw(t, "address")
		if c.PacketConn = rapid.IntRange(0, 3).Draw(t, "packet_conn") == 0; c.PacketConn {
			c.Address = "udp://localhost:5020"
		}
	}
	if nch := len(c.Cuts) + 1; c.Deliver > 0 && rapid.IntRange(0, 3).Draw(t, "late_reads") == 0 {
		for i := 1; i <= nch; i++ {
			if rapid.IntRange(0, 2).Draw(t, "late") == 0 {
				c.LateChunks = append(c.LateChunks, i)
			}
		}
	}
	if nch := len(c.Cuts) + 1; c.Deliver > 0 && rapid.IntRange(0, 19).Draw(t, "cancel_in_flight") == 0 {
		c.CancelChunk = rapid.IntRange(1, nch).Draw(t, "cancel_chunk")
		c.CancelBlockMs = rapid.SampledFrom([]int{3, 10, 25}).Draw(t, "cancel_block_ms")
	}
	if rapid.IntRange(0, 3).Draw(t, "with_prior") == 0 {
		c.Prior = rapid.SampledFrom([]string{"success", "ioerr"}).Draw(t, "prior")
		c.PriorShape = rapid.SampledFrom(cli.PriorShapes).Draw(t, "prior_shape")
	}
	return c
}

var chkHook = harness.Define("client-hooks", func(t *rapid.T) hookCase { return genHook(t, []string{cli.TCP, cli.RTUNet}) }, runHook)

type batchCase struct {
	Cases []hookCase `json:"cases"`
}

var chkSerial = harness.Define("client-hooks-serial-batch",
	func(t *rapid.T) batchCase {
		var b batchCase
		for i := 0; i < harness.Pick(32, 64); i++ {
			b.Cases = append(b.Cases, genHook(t, []string{cli.Serial, cli.SerialFlush}))
		}
		return b
	},
	func(b batchCase) harness.Result {
		res := make([]harness.Result, len(b.Cases))
		done := make(chan int, len(b.Cases))
		for i := range b.Cases {
			go func(i int) {
				res[i] = runHook(b.Cases[i])
				done <- i
			}(i)
		}
		for range b.Cases {
			<-done
		}
		out := harness.Result{NonTrivial: true, Weight: int64(len(b.Cases))}
		seen := map[string]bool{}
		for i, r := range res {
			if r.Err != nil {
				return harness.Fail("serial scenario %d (%+v): %v", i, b.Cases[i], r.Err)
			}
			for _, l := range r.Labels {
				if !seen[l] {
					seen[l] = true
					out.Labels = append(out.Labels, l)
				}
			}
		}
		return out
	})

// chkNetBatch: several network clients, each with hooks of its own, used at the same time from different goroutines (a program
// polling several devices): what one client's hooks see must not depend on the others.
var chkNetBatch = harness.Define("client-hooks-concurrent-clients",
	func(t *rapid.T) batchCase {
		var b batchCase
		n := rapid.SampledFrom([]int{3, 8, 16}).Draw(t, "clients")
		for i := 0; i < n; i++ {
			c := genHook(t, []string{cli.TCP, cli.RTUNet})
			c.CancelChunk, c.CancelBlockMs = 0, 0
			b.Cases = append(b.Cases, c)
		}
		return b
	},
	func(b batchCase) harness.Result {
		res := make([]harness.Result, len(b.Cases))
		done := make(chan int, len(b.Cases))
		start := make(chan struct{})
		for i := range b.Cases {
			go func(i int) {
				<-start
				res[i] = runHook(b.Cases[i])
				done <- i
			}(i)
		}
		close(start)
		for range b.Cases {
			<-done
		}
		out := harness.Result{NonTrivial: len(b.Cases) >= 3, Weight: int64(len(b.Cases)), Labels: []string{fmt.Sprintf("concurrent-clients:%d", len(b.Cases))}}
		for i, r := range res {
			if r.Err != nil {
				return harness.Fail("%d clients used at the same time, client %d (%+v): %v", len(b.Cases), i, b.Cases[i], r.Err)
			}
		}
		return out
	})

// agedHookCase: the same on one hooked network client that has been in use for a long time: N calls on one Client value, call i uses
// Cases[i % len(Cases)]; what the hooks see is compared with the transport in every call - the 1st like the 5958th.
type agedHookCase struct {
	Kind  string     `json:"kind"`
	N     int        `json:"n"`
	Cases []hookCase `json:"cases"`
}

func runAgedHook(c agedHookCase) harness.Result {
	if len(c.Cases) == 0 {
		return harness.Result{}
	}
	sess, err := cli.NewSession(c.Kind, 5000, true)
	if err != nil {
		return harness.Fail("harness: %v", err)
	}
	defer sess.Close()
	preps := make([]cli.Scenario, len(c.Cases))
	for i := range c.Cases {
		c.Cases[i].Kind = c.Kind
		sc, _, err := scenario(c.Cases[i])
		if err != nil {
			return harness.Fail("harness: %v", err)
		}
		preps[i] = sc
	}
	total := 0
	// every case keeps ONE request value for the whole run and re-addresses it before each reuse (next transaction id, neighbouring
	// unit), as a polling program does: the hooks and the wire must get the bytes of the request as it is when the call is made
	kept := make([]packet.Request, len(c.Cases))
	f := cli.FramingOf(c.Kind)
	for i := 0; i < c.N; i++ {
		// (two calls in a row use the same request value: 0 0 1 1 2 2 ...)
		k := (i / 2) % len(c.Cases)
		var o cli.Outcome
		if kept[k] == nil {
			q, err := cat.NewRequest(f, c.Cases[k].Req)
			if err != nil {
				return harness.Fail("harness: %v", err)
			}
			kept[k] = q
		} else if i%2 == 1 || i%3 == 0 {
			hc := c.Cases[k]
			hc.Req.Tx, hc.Req.Unit = hc.Req.Tx+uint16(i), hc.Req.Unit^uint8(1+i%7)
			if cli.Readdress(kept[k], hc.Req.Tx, hc.Req.Unit) {
				if sc, _, err := scenario(hc); err == nil {
					c.Cases[k], preps[k] = hc, sc
				}
			}
		}
		o = sess.CallWith(kept[k], preps[k].Stream, preps[k].Events)
		where := fmt.Sprintf("call #%d on one long-lived hooked %s client (%d reply bytes read so far)", i+1, c.Kind, total)
		if o.Panic != nil || o.Hung {
			return harness.Fail("%s: panic=%v hung=%v", where, o.Panic, o.Hung)
		}
		if _, r := hooksAgainstTransport(c.Cases[k], o); r.Err != nil {
			return harness.Fail("%s: %v; this call: %+v", where, r.Err, c.Cases[k])
		}
		for _, r := range o.Reads {
			total += r.N
		}
	}
	return harness.Result{NonTrivial: c.N >= 300 || cli.IsSerial(c.Kind) && c.N >= 12, Labels: []string{"kind:" + c.Kind, fmt.Sprintf("calls-on-one-client:%d", c.N)}, Weight: int64(c.N)}
}

// TestAgedSerialClient: one hooked serial client making the same long write request (209 to 255 bytes, lengths that divide no power of
// two) over and over: a few kilobytes of requests and replies through one client value.
func TestAgedSerialClient(t *testing.T) {
	idx := 0
	for _, kind := range []string{cli.Serial, cli.SerialFlush} {
		for _, regs := range []int{100, 123} {
			idx++
			if !harness.Mine(idx) {
				continue
			}
			r := spec.Req{FC: 16, Unit: 9, Addr: 50, Qty: uint16(regs), Payload: harness.Bytes(uint64(regs), 2*regs), ByteCount: uint8(2 * regs)}
			hc := hookCase{Kind: kind, Req: r, DevSeed: harness.Seed(), Deliver: 8, Cuts: []int{3}, Gaps: []int{0, 1, 0}, GapKind: "empty", Terminal: "ioerr"}
			if !chkAgedHook.Eval(t, agedHookCase{Kind: kind, N: harness.Pick(14, 80), Cases: []hookCase{hc}}) {
				return
			}
		}
	}
}

var chkAgedHook = harness.Define("client-hooks-long-lived-client",
	func(t *rapid.T) agedHookCase {
		c := agedHookCase{Kind: rapid.SampledFrom([]string{cli.TCP, cli.RTUNet, cli.TCP, cli.RTUNet, cli.Serial, cli.SerialFlush}).Draw(t, "kind"), N: rapid.SampledFrom([]int{300, 2600, 7000, 12000}).Draw(t, "n")}
		if cli.IsSerial(c.Kind) {
			// (the serial client pauses 30 ms in every call)
			c.N = rapid.SampledFrom([]int{24, 48}).Draw(t, "n_serial")
		}
		k := rapid.IntRange(2, 16).Draw(t, "ncases")
		for len(c.Cases) < k {
			hc := genHook(t, []string{c.Kind})
			hc.CustomParse, hc.Prior, hc.PriorShape, hc.Address, hc.CancelChunk, hc.CancelBlockMs, hc.ExplicitParser = false, "", "", "", 0, 0, false
			c.Cases = append(c.Cases, hc)
		}
		return c
	}, runAgedHook)

func TestRandom(t *testing.T) {
	chkHook.Rapid(t, harness.Pick(4000, 200000))
	chkSerial.Rapid(t, harness.Pick(3, 60))
	chkNetBatch.Rapid(t, harness.Pick(150, 4000))
	chkAgedHook.Rapid(t, harness.Pick(6, 60))
}

// TestSingleCuts: every single cut of one reply per function x network client kind, with an empty read in between.
func TestSingleCuts(t *testing.T) {
	idx := 0
	n := int64(0)
	for _, kind := range []string{cli.TCP, cli.RTUNet} {
		for _, fc := range spec.Functions {
			for _, custom := range []bool{false, true} {
				r := spec.Req{FC: fc, Unit: 9, Tx: 77, Addr: 50, Qty: 5, Value: 0xFF00, WAddr: 1, WQty: 1, Payload: []byte{0, 7}, ByteCount: 2}
				switch fc {
				case 15:
					r.Qty, r.Payload, r.ByteCount = 3, []byte{5}, 1
				case 16:
					r.Qty, r.Payload, r.ByteCount = 1, []byte{0, 7}, 2
				}
				base := hookCase{Kind: kind, Req: r, DevSeed: uint64(fc) + harness.Seed(), GapKind: "timeout", Terminal: "ioerr", CustomParse: custom}
				_, reply, err := scenario(base)
				if err != nil {
					t.Fatal(err)
				}
				for cut := 1; cut < len(reply); cut++ {
					idx++
					if !harness.Mine(idx) {
						continue
					}
					c := base
					c.Deliver = len(reply)
					c.Cuts = []int{cut}
					c.Gaps = []int{idx % 2, 1, 0}
					n++
					if !chkHook.EvalFast(t, c) {
						return
					}
				}
			}
		}
	}
	harness.Exhaustive("client-hooks", "network clients: every single cut position of one reply per function x {tcp,rtu} x {standard constructor, NewClient with observable parser}", n)
}
