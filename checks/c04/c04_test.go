package c04

import (
	"bytes"
	"fmt"
	"testing"

	modbus "github.com/aldas/go-modbus-client"
	"github.com/aldas/go-modbus-client/packet"
	"pgregory.net/rapid"

	"verif/internal/cat"
	"verif/internal/fgen"
	"verif/internal/gen"
	"verif/internal/harness"
	"verif/internal/hostile"
	"verif/internal/spec"
)

func TestMain(m *testing.M) { harness.Main(m) }

func TestReplay(t *testing.T)  { harness.RunReplay(t) }
func TestRegress(t *testing.T) { harness.RunRegress(t) }

type accCase struct {
	Start   int         `json:"start"`
	Payload spec.Hex    `json:"payload"` // 2*count bytes
	Default uint8       `json:"default_order"`
	Access  spec.Access `json:"access"`
	// Before: accesses made on the same view first (their results are not judged): the value of Access is determined by the
	// wire bytes alone, so it must not depend on what was read earlier
	Before []spec.Access `json:"before,omitempty"`
	// BeforeFields: fields extracted from the same view first through Field.ExtractFrom (results not judged either)
	BeforeFields []modbus.Field `json:"before_fields,omitempty"`
}

func view(c accCase) (*packet.Registers, []byte, error) {
	buf := append([]byte(nil), c.Payload...)
	regs, err := packet.NewRegisters(buf, uint16(c.Start))
	if err != nil {
		return nil, nil, err
	}
	if c.Default != 0 {
		regs = regs.WithByteOrder(packet.ByteOrder(c.Default))
	}
	return regs, buf, nil
}

func runAcc(c accCase) harness.Result {
	count := len(c.Payload) / 2
	if count < 1 || len(c.Payload)%2 != 0 || c.Start < 0 || c.Start+count > 65536 {
		return harness.Fail("harness: invalid window start=%d count=%d", c.Start, count)
	}
	regs, _, err := view(c)
	if err != nil {
		return harness.Fail("NewRegisters refused a payload of %d registers at %d: %v", count, c.Start, err)
	}
	// a second view over the same address window with other contents (another device with the same register map, or the previous
	// poll), created after the first and read alternately with it: what is read from one view never comes from the other
	other := c
	other.Payload = make([]byte, len(c.Payload))
	for i, b := range c.Payload {
		other.Payload[i] = ^b
	}
	regsB, _, _ := view(other)
	def := c.Default
	if def == 0 {
		def = spec.LibraryDefault
	}
	want, inside := spec.RefAccess(c.Payload, c.Start, def, c.Access)
	var got interface{}
	var gerr error
	var panicked interface{}
	func() {
		defer func() {
			if p := recover(); p != nil {
				panicked = p
			}
		}()
		for _, b := range c.Before {
			_, _ = cat.CallAccess(regs, b)
		}
		for i := range c.BeforeFields {
			_, _ = c.BeforeFields[i].ExtractFrom(regs)
		}
		if regsB != nil {
			_, _ = cat.CallAccess(regsB, c.Access)
		}
		got, gerr = cat.CallAccess(regs, c.Access)
	}()
	a := c.Access
	desc := fmt.Sprintf("%s(addr=%d bit=%d high=%v len=%d order=%d) on window [%d,%d) default order %d", a.Kind, a.Addr, a.Bit, a.High, a.Length, a.Order, c.Start, c.Start+count, c.Default)
	if panicked != nil {
		return harness.Fail("%s panicked: %v", desc, panicked)
	}
	size := a.Size()
	pos := "inside"
	if !inside {
		switch {
		case a.Kind == "Bit" && a.Bit > 15:
			pos = "bad-bit"
		case a.Addr+size <= c.Start || a.Addr >= c.Start+count:
			pos = "outside"
		default:
			pos = "straddling"
		}
	}
	labels := []string{"pos:" + pos, "kind:" + a.Kind}
	if len(c.BeforeFields) > 0 {
		labels = append(labels, "after-field-extraction")
		desc += fmt.Sprintf(" after Field.ExtractFrom of %d fields on the same view (first: type %d addr %d order %d)", len(c.BeforeFields), c.BeforeFields[0].Type, c.BeforeFields[0].Address, c.BeforeFields[0].ByteOrder)
	}
	if len(c.Before) > 0 {
		labels = append(labels, "after-earlier-reads")
		desc += fmt.Sprintf(" after %d earlier reads on the same view (first: %s addr=%d len=%d order=%d)", len(c.Before), c.Before[0].Kind, c.Before[0].Addr, c.Before[0].Length, c.Before[0].Order)
	}
	if c.Start+count == 65536 {
		labels = append(labels, "window-ends-at-65535")
	}
	if count <= 3 {
		labels = append(labels, "window<=3")
	}
	if (a.Kind == "String" || a.Kind == "StringWithByteOrder") && a.Addr >= c.Start && 2*(a.Addr-c.Start) < len(c.Payload) && hostile.StartsWithTextToken(c.Payload[2*(a.Addr-c.Start):]) {
		labels = append(labels, "string-starts-with-text-token")
	}
	if !inside {
		if gerr == nil {
			return harness.Fail("%s: registers not all inside the window but a value was returned: %v", desc, got)
		}
		if !cat.IsZeroValue(got) {
			return harness.Fail("%s: error %v together with non-zero value %v", desc, gerr, got)
		}
		return harness.Result{NonTrivial: pos == "straddling", Labels: labels}
	}
	if gerr != nil {
		return harness.Fail("%s: registers [%d,%d) are inside the window but got error: %v", desc, a.Addr, a.Addr+size, gerr)
	}
	if !spec.SameValue(got, want) {
		return harness.Fail("%s = %v (%T), wire bytes decode to %v (%T)", desc, got, got, want, want)
	}
	return harness.Result{NonTrivial: true, Labels: labels}
}

func genAccess(t *rapid.T, start, count int) spec.Access {
	a := spec.Access{Kind: rapid.SampledFrom(spec.Kinds).Draw(t, "kind")}
	a.Order = rapid.SampledFrom(spec.DocumentedOrders).Draw(t, "order")
	a.High = rapid.Bool().Draw(t, "high")
	a.Bit = rapid.IntRange(0, 15).Draw(t, "bit")
	if rapid.IntRange(0, 19).Draw(t, "badbit") == 0 {
		a.Bit = rapid.IntRange(16, 255).Draw(t, "bit_hi")
	}
	a.Length = rapid.IntRange(1, 255).Draw(t, "len")
	if rapid.Bool().Draw(t, "len_small") {
		a.Length = rapid.IntRange(1, 2*count+3).Draw(t, "len_s")
		if a.Length > 255 {
			a.Length = 255
		}
	}
	size := a.Size()
	var cands []int
	for d := -2; d <= 2; d++ {
		cands = append(cands, start+d, start+count+d, start+count-size+d, start+32768+d, start+count+32768+d)
	}
	cands = append(cands, 0, 1, 65535, 65534, 65532)
	mode := rapid.IntRange(0, 3).Draw(t, "addr_mode")
	addr := 0
	switch mode {
	case 0:
		addr = rapid.SampledFrom(cands).Draw(t, "addr_hot")
	case 1:
		addr = rapid.IntRange(start, start+count-1).Draw(t, "addr_in")
	case 2:
		addr = rapid.IntRange(start-4, start+count+4).Draw(t, "addr_near")
	default:
		addr = rapid.IntRange(0, 65535).Draw(t, "addr_any")
	}
	addr = ((addr % 65536) + 65536) % 65536
	a.Addr = addr
	return a
}

func genAcc(t *rapid.T) accCase {
	count := rapid.SampledFrom([]int{1, 2, 3, 4, 5, 124, 125, -1, -1}).Draw(t, "count")
	if count < 0 {
		count = rapid.IntRange(1, 125).Draw(t, "count_any")
	}
	var start int
	switch rapid.IntRange(0, 3).Draw(t, "start_mode") {
	case 0:
		start = rapid.SampledFrom([]int{0, 1, 2, 3}).Draw(t, "start_lo")
	case 1:
		start = 65536 - count - rapid.IntRange(0, 1).Draw(t, "start_hi")
	case 2:
		start = rapid.SampledFrom([]int{32767, 32768, 32768 - count, 255, 256}).Draw(t, "start_mid")
	default:
		start = rapid.IntRange(0, 65536-count).Draw(t, "start_any")
	}
	def := uint8(0)
	if rapid.Bool().Draw(t, "with_default") {
		def = rapid.SampledFrom(spec.DocumentedOrders[1:]).Draw(t, "default_order")
	}
	c := accCase{Start: start, Payload: gen.Payload(t, "payload", 2*count), Default: def}
	if rapid.IntRange(0, 3).Draw(t, "earlier_reads") == 0 {
		for i, n := 0, rapid.IntRange(1, 2).Draw(t, "n_before"); i < n; i++ {
			b := genAccess(t, start, count)
			if rapid.Bool().Draw(t, "before_string") {
				b.Kind = rapid.SampledFrom([]string{"String", "StringWithByteOrder"}).Draw(t, "before_kind")
				b.Addr = rapid.IntRange(start, start+count-1).Draw(t, "before_addr")
				b.Length = rapid.IntRange(1, 2*(start+count-b.Addr)).Draw(t, "before_len")
			}
			c.Before = append(c.Before, b)
		}
	}
	if rapid.IntRange(0, 5).Draw(t, "earlier_fields") == 0 {
		for i, n := 0, rapid.IntRange(1, 3).Draw(t, "n_fields"); i < n; i++ {
			c.BeforeFields = append(c.BeforeFields, fgen.RegisterField(t, "bf", start, start+count))
		}
	}
	c.Access = genAccess(t, start, count)
	if (c.Access.Kind == "String" || c.Access.Kind == "StringWithByteOrder") && c.Access.Addr >= start && c.Access.Addr < start+count && rapid.IntRange(0, 3).Draw(t, "text_token") == 0 {
		// the addressed text begins with bytes that text decoders treat specially (byte order marks, multi-byte UTF-8 sequences, ...)
		tok := rapid.SampledFrom(hostile.TextTokens).Draw(t, "token")
		hostile.PlantText(c.Payload, 2*(c.Access.Addr-start), tok, rapid.Bool().Draw(t, "token_swapped"))
	}
	return c
}

var chkAcc = harness.Define("typed-access", genAcc, runAcc).Repeated(2)

func TestRandom(t *testing.T) {
	chkAcc.Rapid(t, harness.Pick(60000, 2000000))
}

// TestAddressSweep: window shapes x accessor x order x every address 0..65535.
func TestAddressSweep(t *testing.T) {
	counts := []int{1, 2, 3, 4, 5, 125}
	startsFor := func(count int) []int {
		return []int{0, 1, 2, 3, 32768 - count/2, 65536 - count - 1, 65536 - count, 40000}
	}
	orders := spec.DocumentedOrders
	addrStep := 1
	if !harness.Thorough() {
		// quick: addresses within +-40 of the window edges, the +32768 images and a stride over the rest
		counts = []int{1, 2, 4, 125}
	}
	idx := 0
	n := int64(0)
	for _, count := range counts {
		for _, start := range startsFor(count) {
			payload := harness.Bytes(uint64(count)*1000003+uint64(start)+harness.Seed(), 2*count)
			for _, kind := range spec.Kinds {
				for _, ord := range orders {
					usesOrder := kind == "DoubleRegister" || kind == "QuadRegister" || len(kind) > 13 && kind[len(kind)-13:] == "WithByteOrder"
					if !usesOrder && ord != 0 {
						continue
					}
					idx++
					if !harness.Mine(idx) {
						continue
					}
					a := spec.Access{Kind: kind, Order: ord, Bit: (start + count) % 16, High: idx%2 == 0, Length: 1 + (idx*7)%10}
					def := uint8(0)
					if idx%3 == 0 {
						def = orders[1+idx%6]
					}
					c := accCase{Start: start, Payload: payload, Default: def, Access: a}
					if harness.Thorough() {
						for addr := 0; addr < 65536; addr += addrStep {
							c.Access.Addr = addr
							if !chkAcc.EvalFast(t, c) {
								return
							}
						}
						n += 65536
					} else {
						seen := map[int]bool{}
						try := func(addr int) bool {
							addr = ((addr % 65536) + 65536) % 65536
							if seen[addr] {
								return true
							}
							seen[addr] = true
							c.Access.Addr = addr
							n++
							return chkAcc.EvalFast(t, c)
						}
						for d := -8; d <= 8; d++ {
							for _, base := range []int{start, start + count, start + 32768, start + count + 32768, 0, 65535} {
								if !try(base + d) {
									return
								}
							}
						}
						for addr := 0; addr < 65536; addr += 1021 {
							if !try(addr) {
								return
							}
						}
					}
				}
			}
		}
	}
	if harness.Thorough() {
		harness.Exhaustive("typed-access", "every address 0..65535 x every accessor x every documented byte order x 6 window sizes x 8 window positions (incl. windows ending at 65535)", n)
	}
}

// TestStringLengths: every string length 1..255 on windows at the edges.
func TestStringLengths(t *testing.T) {
	for _, count := range []int{1, 2, 64, 125} {
		for _, start := range []int{0, 65536 - count, 1000} {
			payload := harness.Bytes(uint64(count+start), 2*count)
			// plant NULs
			if len(payload) > 6 {
				payload[5] = 0
			}
			for l := 1; l <= 255; l++ {
				for _, off := range []int{0, 1, count - 1, count - (l+1)/2, count - (l+1)/2 + 1} {
					if off < 0 {
						continue
					}
					for _, ord := range []uint8{0, spec.BigEndian, spec.LittleEndian} {
						c := accCase{Start: start, Payload: payload, Access: spec.Access{Kind: "StringWithByteOrder", Addr: (start + off) % 65536, Length: l, Order: ord}}
						if !chkAcc.EvalFast(t, c) {
							return
						}
					}
				}
			}
		}
	}
	harness.Exhaustive("typed-access", "every string length 1..255 x 4 window sizes x 3 window positions x 5 offsets x 3 orders", 255*4*3*5*3)
}

var _ = bytes.Equal
