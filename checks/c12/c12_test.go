// The library's go.mod says go 1.22: in a program whose main module says the same, timer channels are still buffered and Reset/Stop do
// not discard a tick that has fired (GODEBUG asynctimerchan=1). This module says go 1.23, so the check asks for the library's own setting.
//
//go:debug asynctimerchan=1
package c12

import (
	"bytes"
	"errors"
	"fmt"
	"testing"

	"github.com/aldas/go-modbus-client/packet"
	"pgregory.net/rapid"

	"verif/internal/cat"
	"verif/internal/cli"
	"verif/internal/device"
	"verif/internal/gen"
	"verif/internal/harness"
	"verif/internal/spec"
	"verif/internal/xport"
)

// (every case is written to disk before it runs: if the library kills the process - unbounded recursion, a fatal runtime error in a
// goroutine it started - the case that did it is the replay)
func TestMain(m *testing.M) {
	harness.EnableJournal()
	harness.Main(m)
}

func TestReplay(t *testing.T)  { harness.RunReplay(t) }
func TestRegress(t *testing.T) { harness.RunRegress(t) }

// corruption of a valid RTU reply
type corruption struct {
	Kind string   `json:"kind"` // flip | subst | trunc | extend | multi | swap
	Pos  int      `json:"pos,omitempty"`
	Bit  int      `json:"bit,omitempty"`
	Val  uint8    `json:"val,omitempty"`
	Len  int      `json:"len,omitempty"`
	Data spec.Hex `json:"data,omitempty"`
	Seed uint64   `json:"seed,omitempty"`
}

type crcCase struct {
	Kind    string     `json:"kind"` // rtu-net | serial | serial-flush
	Req     spec.Req   `json:"req"`
	DevSeed uint64     `json:"dev_seed"`
	ExcCode uint8      `json:"exc_code"`
	Corr    corruption `json:"corruption"`
	// Cuts inside the corrupted stream (positions); delivered as successive reads
	Cuts []int `json:"cuts"`
	EOF  int   `json:"eof"`
	// Prior: an earlier call on the same client (its reply is valid): success | eof | ioerr | partial-stall
	Prior      string `json:"prior,omitempty"`
	PriorShape string `json:"prior_shape,omitempty"` // request of the earlier call: "" same | short | long
	// PauseMs > 0: the read that delivers the second chunk blocks this long first (silence on the line between the parts of the
	// corrupted reply); the client's total read timeout is 1 s in these cases
	PauseMs int `json:"pause_ms,omitempty"`
	// ExplicitParser: the client's configuration names the standard response parser explicitly (see cli.Scenario)
	ExplicitParser bool `json:"explicit_parser,omitempty"`
	// Address: the form of the address given to Connect (network kinds; see cli.Scenario)
	Address string `json:"address,omitempty"`
	// Hooks: logging hooks are installed on the client (they observe; they change nothing)
	Hooks bool `json:"hooks,omitempty"`
	// IDLen > 0 (Read Server ID requests): the device's server id has this many bytes and no additional data (250 gives the largest
	// RTU frame there is: 256 bytes)
	IDLen int `json:"id_len,omitempty"`
}

func validReply(c crcCase) ([]byte, error) {
	q, err := cat.NewRequest(spec.RTU, c.Req)
	if err != nil {
		return nil, err
	}
	d := device.New(c.DevSeed)
	d.ForceException = c.ExcCode
	if c.IDLen > 0 {
		d.ServerID, d.Status, d.Additional = harness.Bytes(c.DevSeed, c.IDLen), 0xFF, []byte{}
	}
	return d.Answer(spec.RTU, q.Bytes()), nil
}

func corrupt(reply []byte, k corruption) []byte {
	out := append([]byte(nil), reply...)
	switch k.Kind {
	case "flip":
		if k.Pos < len(out) {
			out[k.Pos] ^= 1 << uint(k.Bit%8)
		}
	case "subst":
		if k.Pos < len(out) {
			out[k.Pos] = k.Val
		}
	case "trunc":
		if k.Len < len(out) {
			out = out[:k.Len]
		}
	case "extend":
		out = append(out, k.Data...)
	case "prepend":
		// extension at the front: noise bytes received before the frame (bus turn-around)
		out = append(append([]byte(nil), k.Data...), out...)
	case "trailer":
		// both trailer bytes replaced: Val, then Bit (as a byte)
		if n := len(out); n >= 2 {
			out[n-2], out[n-1] = k.Val, byte(k.Bit)
		}
	case "swap":
		// exchange two adjacent bytes (Pos, Pos+1); Pos = len-2 exchanges the two CRC bytes
		if k.Pos+1 < len(out) {
			out[k.Pos], out[k.Pos+1] = out[k.Pos+1], out[k.Pos]
		}
	case "multi":
		s := k.Seed
		n := 2 + int(harness.SplitMix64(&s)%4)
		for i := 0; i < n; i++ {
			p := int(harness.SplitMix64(&s) % uint64(len(out)))
			out[p] ^= byte(1 + harness.SplitMix64(&s)%255)
		}
	}
	return out
}

func crcOK(b []byte) bool {
	if len(b) < 4 {
		return false
	}
	c := spec.RefCRC16(b[:len(b)-2])
	return b[len(b)-2] == byte(c) && b[len(b)-1] == byte(c>>8)
}

func runCRC(c crcCase) harness.Result {
	reply, err := validReply(c)
	if err != nil {
		return harness.Fail("harness: %v", err)
	}
	stream := corrupt(reply, c.Corr)
	if len(stream) == 0 || crcOK(stream) || bytes.Equal(stream, reply) {
		return harness.Result{Labels: []string{"corruption-left-crc-consistent"}}
	}
	chunks := gen.ChunksFromCuts(len(stream), c.Cuts)
	var ev []xport.Event
	for i, n := range chunks {
		if i == len(chunks)-1 && c.EOF == 1 {
			ev = append(ev, xport.Event{Kind: "eof", N: n})
		} else {
			ev = append(ev, xport.Event{Kind: "data", N: n})
		}
	}
	if c.EOF == 2 {
		ev = append(ev, xport.Event{Kind: "eof", N: 0})
	}
	rtMs := 25
	if c.PauseMs > 0 && len(ev) >= 2 && ev[1].Kind == "data" {
		ev[1].Ms = c.PauseMs
		rtMs = 1000
	}
	sc := cli.Scenario{Kind: c.Kind, Req: c.Req, Stream: stream, Events: ev, ReadTimeoutMs: rtMs, Prior: c.Prior, PriorReq: cli.PriorShapeReq(c.PriorShape), ExplicitParser: c.ExplicitParser, Address: c.Address, Hooks: c.Hooks}
	return judge(c, stream, reply, cli.Run(sc))
}

func judge(c crcCase, stream, reply []byte, o cli.Outcome) harness.Result {
	labels := []string{"kind:" + c.Kind, "corr:" + c.Corr.Kind, fmt.Sprintf("fc%d", c.Req.FC)}
	if c.Prior != "" {
		labels = append(labels, "after-earlier-call:"+c.Prior)
	}
	if c.PauseMs > 0 {
		labels = append(labels, fmt.Sprintf("pause-inside-reply:%dms", c.PauseMs))
	}
	if o.PriorHung {
		return harness.Fail("an earlier call (%s) on the same client did not return", c.Prior)
	}
	if msg := o.PriorIntact(); msg != "" {
		return harness.Fail("%s (the later reply had an inconsistent CRC: %x)", msg, stream)
	}
	if c.ExcCode != 0 {
		labels = append(labels, "exception-reply")
	}
	if len(stream) == 5 && stream[1]&0x80 != 0 && c.ExcCode == 0 {
		labels = append(labels, "normal-reply-turned-exception-shaped")
	}
	if len(stream) >= 5 && stream[1]&0x80 != 0 {
		labels = append(labels, "exception-looking-prefix")
	}
	if c.Corr.Kind == "flip" || c.Corr.Kind == "subst" {
		switch {
		case c.Corr.Pos >= len(reply)-2:
			labels = append(labels, "damage-in-crc")
		case c.Corr.Pos < 2:
			labels = append(labels, "damage-in-header")
		}
	}
	if o.Panic != nil {
		return harness.Fail("client panicked: %v", o.Panic)
	}
	if o.Hung {
		return harness.Fail("Do did not return within %v", cli.HangCeiling)
	}
	consumed := stream[:o.Consumed]
	var excT *packet.ErrorResponseTCP
	var excR *packet.ErrorResponseRTU
	isExc := errors.As(o.Err, &excT) || errors.As(o.Err, &excR)
	desc := fmt.Sprintf("valid reply %x corrupted (%s) to %x, delivered with cuts %v; client consumed %x", reply, c.Corr.Kind, stream, c.Cuts, consumed)
	// a client that has a complete, CRC-consistent frame when a transport read ends may return it: it cannot know that more will come.
	// That holds only at the end of a delivery; a client that takes part of what one read could have given it and ignores the rest
	// has not looked at the reply it was sent.
	atBoundary := o.Consumed == len(stream)
	sum := 0
	for _, n := range gen.ChunksFromCuts(len(stream), c.Cuts) {
		sum += n
		if sum == o.Consumed {
			atBoundary = true
		}
	}
	if (isExc || o.Err == nil) && !atBoundary {
		return harness.Fail("the corrupted reply arrived in deliveries ending at %v of %d bytes; the client took %d bytes, stopped in the middle of a delivery and reported the part as a reply: %s", c.Cuts, len(stream), o.Consumed, desc)
	}
	if isExc {
		if !(len(consumed) == 5 && consumed[1]&0x80 != 0 && crcOK(consumed)) {
			return harness.Fail("a reply with inconsistent CRC was surfaced as a device exception (%v): %s", o.Err, desc)
		}
		return harness.Result{Labels: append(labels, "legit-exception-prefix")}
	}
	if o.Err == nil {
		if cat.IsNilValue(o.Resp) {
			return harness.Fail("Do returned (nil, nil): %s", desc)
		}
		if !crcOK(consumed) || !bytes.Equal(o.Resp.Bytes(), consumed) {
			return harness.Fail("a reply with inconsistent CRC was returned as data %x: %s", o.Resp.Bytes(), desc)
		}
		return harness.Result{Labels: append(labels, "legit-valid-prefix")}
	}
	if !cat.IsNilValue(o.Resp) {
		return harness.Fail("error %v together with a response: %s", o.Err, desc)
	}
	return harness.Result{NonTrivial: len(stream) >= 4, Labels: labels}
}

func genCRC(t *rapid.T, kinds []string) crcCase {
	c := crcCase{Kind: rapid.SampledFrom(kinds).Draw(t, "kind"), DevSeed: rapid.Uint64().Draw(t, "dev_seed")}
	fc := gen.FC(t)
	c.Req = gen.LegalReq(t, fc, true)
	if fc == 23 && c.Req.Qty > 124 {
		c.Req.Qty = 124
	}
	if rapid.IntRange(0, 2).Draw(t, "exception") == 0 {
		c.ExcCode = rapid.SampledFrom([]uint8{1, 2, 3, 4, 6, 11, 0x80, 0xFF}).Draw(t, "exc_code")
	}
	reply, err := validReply(c)
	if err != nil {
		panic(err)
	}
	L := len(reply)
	switch rapid.IntRange(0, 7).Draw(t, "corr") {
	case 7:
		c.Corr = corruption{Kind: "prepend", Data: gen.Payload(t, "pre", rapid.IntRange(1, 3).Draw(t, "pren"))}
		if rapid.Bool().Draw(t, "pre_hot") {
			c.Corr.Data = rapid.SampledFrom([][]byte{{0}, {0xFF}, {0xFF, 0x7E}, {0, 0}}).Draw(t, "pre_h")
		}
	case 6:
		c.Corr = corruption{Kind: "swap", Pos: L - 2}
		if rapid.Bool().Draw(t, "swap_any") {
			c.Corr.Pos = rapid.IntRange(0, L-2).Draw(t, "swap_pos")
		}
	case 0, 1:
		c.Corr = corruption{Kind: "flip", Pos: rapid.IntRange(0, L-1).Draw(t, "pos"), Bit: rapid.IntRange(0, 7).Draw(t, "bit")}
		if rapid.Bool().Draw(t, "hotpos") {
			c.Corr.Pos = rapid.SampledFrom([]int{0, 1, 2, L - 2, L - 1}).Draw(t, "pos_hot")
		}
	case 2:
		c.Corr = corruption{Kind: "subst", Pos: rapid.IntRange(0, L-1).Draw(t, "pos"), Val: rapid.Uint8().Draw(t, "val")}
		if rapid.Bool().Draw(t, "fcbyte") {
			c.Corr.Pos, c.Corr.Val = 1, reply[1]|0x80
			if c.ExcCode != 0 {
				c.Corr.Pos, c.Corr.Val = 2, rapid.Uint8().Draw(t, "newcode")
			}
		}
	case 3:
		c.Corr = corruption{Kind: "trunc", Len: rapid.IntRange(1, L-1).Draw(t, "len")}
		if rapid.Bool().Draw(t, "len5") && L > 5 {
			c.Corr.Len = 5
		}
	case 4:
		c.Corr = corruption{Kind: "extend", Data: gen.Payload(t, "ext", rapid.IntRange(1, 4).Draw(t, "extn"))}
	default:
		c.Corr = corruption{Kind: "multi", Seed: rapid.Uint64().Draw(t, "mseed")}
	}
	stream := corrupt(reply, c.Corr)
	n := len(stream)
	if n > 1 {
		switch rapid.IntRange(0, 3).Draw(t, "cutmode") {
		case 0:
		case 1:
			c.Cuts = []int{rapid.SampledFrom([]int{1, 2, 3, 4, 5, 6, n - 1, n - 2, L, L - 1}).Draw(t, "cut_hot")}
		default:
			k := rapid.IntRange(1, 4).Draw(t, "ncuts")
			for i := 0; i < k; i++ {
				c.Cuts = append(c.Cuts, rapid.IntRange(1, n-1).Draw(t, "cut"))
			}
		}
	}
	if !cli.IsSerial(c.Kind) {
		c.EOF = rapid.SampledFrom([]int{0, 0, 1, 2}).Draw(t, "eof")
	}
	c.ExplicitParser = !cli.IsSerial(c.Kind) && rapid.IntRange(0, 2).Draw(t, "explicit_parser") == 0
	c.Hooks = rapid.IntRange(0, 2).Draw(t, "hooks") == 0
	if !cli.IsSerial(c.Kind) {
		c.Address = rapid.SampledFrom(cli.Addresses).Draw(t, "address")
	}
	if c.Corr.Kind == "prepend" && rapid.IntRange(0, 7).Draw(t, "pause_after_noise") == 0 {
		// the noise in front arrives on its own, the line then stays silent for a while before the (valid) rest follows
		c.Cuts = []int{len(c.Corr.Data)}
		c.PauseMs = rapid.SampledFrom([]int{60, 120}).Draw(t, "pause_ms")
		c.EOF = 0
	}
	if rapid.IntRange(0, 3).Draw(t, "with_prior") == 0 {
		c.Prior = rapid.SampledFrom([]string{"success", "success", "ioerr", "partial-stall"}).Draw(t, "prior")
		c.PriorShape = rapid.SampledFrom(cli.PriorShapes).Draw(t, "prior_shape")
		if c.Prior == "partial-stall" && rapid.Bool().Draw(t, "noise_as_long_as_the_missing_part") {
			// the earlier call got half of its reply and gave up; the bad reply of this call is a valid frame with exactly as many noise
			// bytes in front as the earlier call was still waiting for (by the client's own count, and by the true length)
			preq := c.Req
			if r := cli.PriorShapeReq(c.PriorShape); r != nil {
				preq = *r
			}
			if q, err := cat.NewRequest(spec.RTU, preq); err == nil {
				full := device.New(77).Answer(spec.RTU, q.Bytes())
				missing := len(full) - len(full)/2
				if rapid.Bool().Draw(t, "by_client_count") {
					missing = q.ExpectedResponseLength() - len(full)/2
				}
				if missing >= 1 && missing <= 64 {
					c.Corr = corruption{Kind: "prepend", Data: gen.Payload(t, "pre_owed", missing)}
					c.Cuts, c.PauseMs = nil, 0
				}
			}
		}
	}
	return c
}

var chkCRC = harness.Define("bad-crc-reply", func(t *rapid.T) crcCase { return genCRC(t, []string{cli.RTUNet}) }, runCRC)

type batchCase struct {
	Cases []crcCase `json:"cases"`
}

var chkSerial = harness.Define("bad-crc-reply-serial-batch",
	func(t *rapid.T) batchCase {
		var b batchCase
		for i := 0; i < harness.Pick(32, 64); i++ {
			b.Cases = append(b.Cases, genCRC(t, []string{cli.Serial, cli.SerialFlush}))
		}
		return b
	},
	func(b batchCase) harness.Result {
		res := make([]harness.Result, len(b.Cases))
		done := make(chan int, len(b.Cases))
		for i := range b.Cases {
			go func(i int) {
				res[i] = runCRC(b.Cases[i])
				done <- i
			}(i)
		}
		for range b.Cases {
			<-done
		}
		out := harness.Result{NonTrivial: true, Weight: int64(len(b.Cases))}
		seen := map[string]bool{}
		for i, r := range res {
			if r.Err != nil {
				return harness.Fail("serial scenario %d: %v", i, r.Err)
			}
			for _, l := range r.Labels {
				if !seen[l] {
					seen[l] = true
					out.Labels = append(out.Labels, l)
				}
			}
		}
		return out
	})

// agedCRCCase: the same on an RTU network client that has been in use for a long time: one Client value makes N exchanges; most are
// answered with valid replies (and must succeed), the others with one of the bad-CRC replies below, judged like any other case. The
// bad replies come every Every-th exchange and, additionally, in the two exchanges before and after every multiple of 256 (where
// 8- and 16-bit exchange counters wrap).
type agedCRCCase struct {
	N     int       `json:"n"`
	Every int       `json:"every"`
	Seed  uint64    `json:"seed"`
	Bad   []crcCase `json:"bad"`
	// DeviceExceptions: a ninth of the ordinary exchanges end with a genuine (CRC-valid) device exception
	DeviceExceptions bool `json:"device_exceptions,omitempty"`
}

func runAgedCRC(c agedCRCCase) harness.Result {
	if len(c.Bad) == 0 || c.Every < 2 {
		return harness.Result{}
	}
	sess, err := cli.NewSession(cli.RTUNet, 300, false)
	if err != nil {
		return harness.Fail("harness: %v", err)
	}
	defer sess.Close()
	dev := device.New(c.Seed)
	s := c.Seed
	probes := 0
	for i := 0; i < c.N; i++ {
		where := fmt.Sprintf("exchange #%d on one long-lived RTU network client", i+1)
		m := (i + 1) % 256
		if i%c.Every == c.Every-1 || m <= 2 || m >= 254 {
			bc := c.Bad[probes%len(c.Bad)]
			probes++
			bc.Kind = cli.RTUNet
			reply, err := validReply(bc)
			if err != nil {
				return harness.Fail("harness: %v", err)
			}
			stream := corrupt(reply, bc.Corr)
			if len(stream) == 0 || crcOK(stream) || bytes.Equal(stream, reply) {
				continue
			}
			var ev []xport.Event
			for _, n := range gen.ChunksFromCuts(len(stream), bc.Cuts) {
				ev = append(ev, xport.Event{Kind: "data", N: n})
			}
			ev = append(ev, xport.Event{Kind: "eof", N: 0}) // the peer closes after the bad reply: no exchange waits for a timeout
			if r := judge(bc, stream, reply, sess.Call(bc.Req, stream, ev)); r.Err != nil {
				return harness.Fail("%s: %v; this exchange: %+v", where, r.Err, bc)
			}
			continue
		}
		v := harness.SplitMix64(&s)
		r := spec.Req{FC: 3, Unit: uint8(v >> 8), Addr: uint16(v>>32) & 0x7FFF, Qty: 1 + uint16((v>>48)%7)}
		exc := c.DeviceExceptions && v%9 == 0
		d := dev
		if exc {
			d = device.New(c.Seed)
			d.ForceException = 1 + uint8(v>>4)%4
		}
		frame := d.Answer(spec.RTU, spec.EncodeRequest(spec.RTU, r))
		o := sess.Call(r, frame, []xport.Event{{Kind: "data", N: len(frame)}, {Kind: "ioerr"}})
		if o.Panic != nil || o.Hung {
			return harness.Fail("%s: ordinary exchange: panic=%v hung=%v", where, o.Panic, o.Hung)
		}
		if exc {
			var er *packet.ErrorResponseRTU
			if !errors.As(o.Err, &er) {
				return harness.Fail("%s: device exception %x: got response %v, error %v", where, frame, o.Resp, o.Err)
			}
		} else if o.Err != nil || cat.IsNilValue(o.Resp) || !bytes.Equal(o.Resp.Bytes(), frame) {
			return harness.Fail("%s: valid reply %x in one read: err=%v", where, frame, o.Err)
		}
	}
	return harness.Result{NonTrivial: probes >= 10, Labels: []string{fmt.Sprintf("exchanges-on-one-client:%d", c.N)}, Weight: int64(probes)}
}

var chkAgedCRC = harness.Define("bad-crc-reply-long-lived-client",
	func(t *rapid.T) agedCRCCase {
		c := agedCRCCase{N: rapid.SampledFrom([]int{600, 2600, 9000}).Draw(t, "n"), Every: rapid.SampledFrom([]int{3, 5, 7, 11}).Draw(t, "every"), Seed: rapid.Uint64().Draw(t, "seed")}
		k := rapid.IntRange(2, 12).Draw(t, "nbad")
		for len(c.Bad) < k {
			bc := genCRC(t, []string{cli.RTUNet})
			bc.Prior, bc.PriorShape, bc.PauseMs, bc.Address, bc.EOF = "", "", 0, "", 0
			if len(c.Bad) == 0 {
				// always among them: a five-byte exception reply with one bit of its code or CRC flipped
				bc.ExcCode = rapid.SampledFrom([]uint8{1, 2, 3, 4, 6}).Draw(t, "exc_code0")
				bc.Corr = corruption{Kind: "flip", Pos: rapid.IntRange(2, 4).Draw(t, "flip_pos0"), Bit: rapid.IntRange(0, 7).Draw(t, "flip_bit0")}
				bc.Cuts = nil
			}
			c.Bad = append(c.Bad, bc)
		}
		c.DeviceExceptions = rapid.Bool().Draw(t, "device_exceptions")
		return c
	}, runAgedCRC)

func TestRandom(t *testing.T) {
	chkCRC.Rapid(t, harness.Pick(1500, 30000))
	chkSerial.Rapid(t, harness.Pick(4, 60))
	chkAgedCRC.Rapid(t, harness.Pick(6, 60))
}

// TestBitFlipSweep: every single-bit flip x {whole, every single cut} for one reply shape per function + exception replies (network RTU client).
func TestBitFlipSweep(t *testing.T) {
	idx := 0
	n := int64(0)
	for _, fc := range spec.Functions {
		for _, exc := range []uint8{0, 2} {
			r := spec.Req{FC: fc, Unit: 9, Addr: 50, Qty: 3, Value: 0xFF00, WAddr: 1, WQty: 1, Payload: []byte{0, 7}, ByteCount: 2}
			switch fc {
			case 15:
				r.Qty, r.Payload, r.ByteCount = 3, []byte{5}, 1
			case 16:
				r.Qty, r.Payload, r.ByteCount = 1, []byte{0, 7}, 2
			}
			c := crcCase{Kind: cli.RTUNet, Req: r, DevSeed: uint64(fc) + harness.Seed(), ExcCode: exc}
			reply, err := validReply(c)
			if err != nil {
				t.Fatal(err)
			}
			L := len(reply)
			for pos := 0; pos < L; pos++ {
				for bit := 0; bit < 8; bit++ {
					idx++
					if !harness.Mine(idx) {
						continue
					}
					cuts := [][]int{nil}
					if harness.Thorough() {
						for a := 1; a < L; a++ {
							cuts = append(cuts, []int{a})
						}
					} else {
						cuts = append(cuts, []int{5 % L}, []int{L - 1})
					}
					for _, cs := range cuts {
						cc := c
						cc.Corr = corruption{Kind: "flip", Pos: pos, Bit: bit}
						cc.Cuts = cs
						n++
						if !chkCRC.EvalFast(t, cc) {
							return
						}
					}
				}
			}
		}
	}
	// every adjacent byte swap (incl. the two CRC bytes) of the same replies
	for _, fc := range spec.Functions {
		for _, exc := range []uint8{0, 2} {
			r := spec.Req{FC: fc, Unit: 9, Addr: 50, Qty: 3, Value: 0xFF00, WAddr: 1, WQty: 1, Payload: []byte{0, 7}, ByteCount: 2}
			switch fc {
			case 15:
				r.Qty, r.Payload, r.ByteCount = 3, []byte{5}, 1
			case 16:
				r.Qty, r.Payload, r.ByteCount = 1, []byte{0, 7}, 2
			}
			c := crcCase{Kind: cli.RTUNet, Req: r, DevSeed: uint64(fc) + harness.Seed(), ExcCode: exc}
			reply, err := validReply(c)
			if err != nil {
				t.Fatal(err)
			}
			for pos := 0; pos+1 < len(reply); pos++ {
				idx++
				if !harness.Mine(idx) {
					continue
				}
				cc := c
				cc.Corr = corruption{Kind: "swap", Pos: pos}
				n++
				if !chkCRC.EvalFast(t, cc) {
					return
				}
			}
		}
	}
	harness.Exhaustive("bad-crc-reply", "every single-bit flip of one reply per function (+ its exception reply), delivered whole and with single cuts (thorough: every single cut)", n)
}

// TestReplySizes: replies of every length 5..256 bytes (FC1 with 8*(L-5) coils and FC3 where the length is odd) with surplus bytes
// behind them (an extension of 1..3 bytes that leaves the whole inconsistent), delivered in one read and cut at the end of the valid
// part: the sizes at which implementations switch buffers are not special to the protocol.
func TestReplySizes(t *testing.T) {
	idx := 0
	for L := 6; L <= 256; L++ {
		idx++
		if !harness.Mine(idx) {
			continue
		}
		var r spec.Req
		switch {
		case L >= 7 && L%2 == 1 && (L-5)/2 <= 125:
			r = spec.Req{FC: 3, Unit: 3, Addr: 10, Qty: uint16((L - 5) / 2)}
		case 8*(L-5) <= 2000:
			r = spec.Req{FC: 1, Unit: 3, Addr: 10, Qty: uint16(8 * (L - 5))}
		default:
			continue
		}
		for _, extra := range [][]byte{{0x00}, {0x5A, 0xA5}, {1, 2, 3}} {
			for _, cuts := range [][]int{nil, {L}} {
				if !chkCRC.Eval(t, crcCase{Kind: cli.RTUNet, Req: r, DevSeed: uint64(L) + harness.Seed(), Corr: corruption{Kind: "extend", Data: extra}, Cuts: cuts, EOF: 2}) {
					return
				}
			}
		}
	}
}

// TestLargestFrames: Read Server ID replies of 250..256 bytes (only this function reaches the 256-byte maximum of an RTU frame) with
// every single byte of the last eight substituted or flipped, and with the trailer replaced by the CRC of a shorter prefix.
func TestLargestFrames(t *testing.T) {
	idx := 0
	for _, idLen := range []int{244, 247, 248, 249, 250} {
		idx++
		if !harness.Mine(idx) {
			continue
		}
		base := crcCase{Kind: cli.RTUNet, Req: spec.Req{FC: 17, Unit: 9}, DevSeed: uint64(idLen) + harness.Seed(), IDLen: idLen, EOF: 2}
		reply, err := validReply(base)
		if err != nil {
			t.Fatal(err)
		}
		L := len(reply)
		for pos := L - 8; pos < L; pos++ {
			for _, bit := range []int{0, 3, 7} {
				c := base
				c.Corr = corruption{Kind: "flip", Pos: pos, Bit: bit}
				if !chkCRC.Eval(t, c) {
					return
				}
			}
			c := base
			c.Corr = corruption{Kind: "subst", Pos: pos, Val: reply[pos] ^ 0x5A}
			if !chkCRC.Eval(t, c) {
				return
			}
		}
		// the trailer is the CRC of a prefix that is 1..3 bytes short of the body
		for short := 1; short <= 3; short++ {
			body := reply[:L-2]
			crc := spec.RefCRC16(body[:len(body)-short])
			if byte(crc) == reply[L-2] && byte(crc>>8) == reply[L-1] {
				continue
			}
			c := base
			c.Corr = corruption{Kind: "subst", Pos: L - 2, Val: byte(crc)}
			c2 := base
			c2.Corr = corruption{Kind: "trailer", Val: byte(crc), Bit: int(byte(crc >> 8))}
			if !chkCRC.Eval(t, c) || !chkCRC.Eval(t, c2) {
				return
			}
		}
	}
}
