package c15

import (
	"bytes"
	"context"
	"errors"
	"fmt"
	"net"
	"sync"
	"testing"
	"time"

	"github.com/aldas/go-modbus-client/server"
	"pgregory.net/rapid"

	"verif/internal/device"
	"verif/internal/gen"
	"verif/internal/harness"
	"verif/internal/hostile"
	"verif/internal/spec"
	"verif/internal/srv"
	"verif/internal/xport"
)

func TestMain(m *testing.M) {
	harness.EnableJournal()
	harness.Main(m)
}

func TestReplay(t *testing.T)  { harness.RunReplay(t) }
func TestRegress(t *testing.T) { harness.RunRegress(t) }

type segCase struct {
	Requests []spec.Req `json:"requests"`
	// Cuts: cut positions inside the concatenated request stream
	Cuts    []int  `json:"cuts"`
	DevSeed uint64 `json:"dev_seed"`
	// Level: "A" assembler driven directly; "B" real server over an in-memory listener
	Level string `json:"level"`
	// Lockstep (level B): request i+1 is only sent after reply i has arrived completely; frame boundaries are always cut
	Lockstep bool `json:"lockstep"`
	// Prelude > 0 (level B): before the connection under test, another client connects, sends only the first Prelude
	// bytes of the first request and disconnects; nothing of it may leak into the connection under test
	Prelude int `json:"prelude,omitempty"`
	// Interloper > 0 (level B): while the connection under test works, a second connection holds the first Interloper bytes of
	// a valid request (incomplete frame); afterwards it sends the rest and must get exactly its own reply
	Interloper int `json:"interloper,omitempty"`
	// Garbage: sent before the first request, in one write: a frame that is not Modbus TCP (protocol id != 0). Once the server has
	// answered it (the case is excluded if it does not), the requests that follow are handled as on a fresh connection: nothing of
	// the rejected input - bytes or state - may affect them, however they are fragmented.
	Garbage spec.Hex `json:"garbage,omitempty"`
	// Runt: a frame of 6..8 bytes with a valid protocol id whose length field (0..2) says where it ends, but which is too short to be a
	// request, directly in front of the first request IN THE SAME STREAM (an early-sending client does not wait for its rejection). The
	// server answers it with one exception frame (9 bytes, contents not judged here) - as soon as it has the 8 bytes it classifies by -
	// and serves the requests after it as if it had not been there, however the joined stream is fragmented.
	Runt spec.Hex `json:"runt,omitempty"`
	// LateReads k > 0 (level B): every k-th non-empty read of the server's connections also reports an expired read deadline
	// (xport.PipeListener.LateEvery); the bytes are part of the stream all the same
	LateReads int `json:"late_reads,omitempty"`
}

// errorUnit: requests with a unit id at or above this are answered by the handler with a typed error
const errorUnit = 240

const kfParser125 = "fc1-fc2-request-parser-limit-125"

type plan struct {
	known    bool // some request falls under the open fc1/fc2 parser-limit finding (reference adjusted to the listed behaviour)
	stream   []byte
	ends     []int    // end offset of request i in the stream
	replies  [][]byte // reference replies
	refTotal []int    // cumulative reply length after request i
	segments [][]byte
	wild     int // the first wild reply bytes (the answer to the runt) are not compared
}

func (p plan) same(got, want []byte) bool {
	if len(got) != len(want) {
		return false
	}
	w := min(p.wild, len(got))
	return bytes.Equal(got[w:], want[w:])
}

func mkPlan(c segCase) plan {
	var p plan
	dev := device.New(c.DevSeed)
	total := 0
	if len(c.Runt) > 0 {
		// classified (and answered) once 8 bytes are there, consumed up to its own end
		p.stream = append(p.stream, c.Runt...)
		p.ends = append(p.ends, 8)
		p.replies = append(p.replies, make([]byte, 9))
		p.wild, total = 9, 9
		p.refTotal = append(p.refTotal, total)
	}
	for _, r := range c.Requests {
		f := spec.EncodeRequest(spec.TCP, r)
		p.stream = append(p.stream, f...)
		p.ends = append(p.ends, len(p.stream))
		var rep []byte
		if !(r.Unit >= errorUnit && spec.IsSupported(r.FC) && spec.LegalRequest(r) == nil && !((r.FC == 1 || r.FC == 2) && r.Qty > 125)) {
			rep = dev.Answer(spec.TCP, f)
		}
		if r.Unit >= errorUnit && spec.IsSupported(r.FC) && spec.LegalRequest(r) == nil && !((r.FC == 1 || r.FC == 2) && r.Qty > 125) {
			// the handler answers this unit with a typed error: the reply is the addressed exception
			rep = spec.EncodeResponse(spec.TCP, spec.Resp{FC: r.FC, Unit: r.Unit, Tx: r.Tx, IsException: true, Code: srv.ErrorCodeFor(r.Unit)})
		}
		if (r.FC == 1 || r.FC == 2) && r.Qty > 125 && harness.OpenFinding(kfParser125) {
			// listed behaviour of the open finding: the request parser refuses quantities 126..2000 with exception 03
			rep = spec.EncodeResponse(spec.TCP, spec.Resp{FC: r.FC, Unit: r.Unit, Tx: r.Tx, IsException: true, Code: 3})
			p.known = true
		}
		p.replies = append(p.replies, rep)
		total += len(rep)
		p.refTotal = append(p.refTotal, total)
	}
	cuts := append([]int(nil), c.Cuts...)
	if c.Lockstep {
		cuts = append(cuts, p.ends...)
	}
	for _, n := range gen.ChunksFromCuts(len(p.stream), cuts) {
		off := 0
		for _, s := range p.segments {
			off += len(s)
		}
		p.segments = append(p.segments, p.stream[off:off+n])
	}
	return p
}

func (p plan) reference() []byte {
	var out []byte
	for _, r := range p.replies {
		out = append(out, r...)
	}
	return out
}

// allowed returns how many reply bytes may have been sent once `fed` stream bytes were delivered.
func (p plan) allowed(fed int) int {
	a := 0
	for i, e := range p.ends {
		if e <= fed {
			a = p.refTotal[i]
		}
	}
	return a
}

func runSeg(c segCase) harness.Result {
	p := mkPlan(c)
	ref := p.reference()
	labels := []string{"level:" + c.Level, fmt.Sprintf("requests:%d", len(c.Requests))}
	cutInside, spans := false, false
	off := 0
	for _, s := range p.segments {
		start, end := off, off+len(s)
		prevEnd := 0
		for _, e := range p.ends {
			if end > prevEnd && end < e && end-prevEnd >= 8 {
				cutInside = true
			}
			if start < e && end > e {
				spans = true
			}
			prevEnd = e
		}
		off = end
	}
	if cutInside {
		labels = append(labels, "cut-inside-frame-at>=8")
	}
	if spans {
		labels = append(labels, "segment-spans-two-requests")
	}
	if c.Lockstep {
		labels = append(labels, "lockstep")
	}
	for i, s := range p.segments {
		if i > 0 && hostile.StartsWithToken(s) {
			labels = append(labels, "later-segment-begins-with-foreign-token")
			break
		}
	}
	var err error
	if c.Level == "B" {
		err = runServer(c, p, ref)
	} else {
		err = runAssembler(c, p, ref)
	}
	if err == errGarbageUnanswered {
		return harness.Result{Labels: append(labels, "garbage-unanswered")}
	}
	if err != nil {
		return harness.Result{Err: err, NonTrivial: true}
	}
	if len(c.Runt) > 0 {
		labels = append(labels, "runt-frame-in-front")
	}
	if len(c.Garbage) > 0 {
		labels = append(labels, "after-rejected-garbage")
	}
	if p.known {
		return harness.Result{Excluded: kfParser125, Labels: append(labels, "known:"+kfParser125)}
	}
	return harness.Result{NonTrivial: cutInside || spans, Labels: labels}
}

func describe(p plan) string {
	s := ""
	for _, seg := range p.segments {
		s += fmt.Sprintf("%x | ", seg)
	}
	return s
}

var errGarbageUnanswered = errors.New("garbage unanswered")

func runAssembler(c segCase, p plan, ref []byte) (err error) {
	h := &srv.Handler{Dev: device.New(c.DevSeed), ErrorFromUnit: errorUnit}
	asm := &server.ModbusTCPAssembler{Handler: h}
	var out []byte
	fed := 0
	defer func() {
		if pn := recover(); pn != nil {
			err = fmt.Errorf("assembler panicked after %d stream bytes: %v (segments %s)", fed, pn, describe(p))
		}
	}()
	if len(c.Garbage) > 0 {
		g := append([]byte(nil), c.Garbage...)
		if resp, closeConn := asm.ReceiveRead(context.Background(), g, len(g)); closeConn || len(resp) == 0 {
			return errGarbageUnanswered
		}
	}
	for i, seg := range p.segments {
		buf := append([]byte(nil), seg...)
		resp, closeConn := asm.ReceiveRead(context.Background(), buf, len(buf))
		fed += len(seg)
		out = append(out, resp...)
		if closeConn {
			return fmt.Errorf("assembler asked to close the connection after segment %d of valid requests", i)
		}
		if len(out) > len(ref) || !p.same(out, ref[:len(out)]) {
			return fmt.Errorf("after segment %d (%d stream bytes fed) the server has sent\n  %x\nwhich is not a prefix of the reference reply stream\n  %x\nsegments: %s", i, fed, out, ref, describe(p))
		}
		if a := p.allowed(fed); len(out) > a {
			return fmt.Errorf("after segment %d (%d stream bytes fed) %d reply bytes were sent, but only requests worth %d reply bytes are complete: something was sent before its request was complete (segments: %s)", i, fed, len(out), a, describe(p))
		}
	}
	if !p.same(out, ref) {
		return fmt.Errorf("after the whole stream the server has sent\n  %x\nreference (each request answered once, in order)\n  %x\nsegments: %s", out, ref, describe(p))
	}
	return nil
}

// offsetCollector hides the first base bytes (the reply to the garbage prelude) of a collector.
type offsetCollector struct {
	c    *srv.Collector
	base int
}

func (o offsetCollector) cut(b []byte) []byte {
	if len(b) < o.base {
		return nil
	}
	return b[o.base:]
}
func (o offsetCollector) Bytes() []byte { return o.cut(o.c.Bytes()) }
func (o offsetCollector) WaitLen(n int, d time.Duration) []byte {
	return o.cut(o.c.WaitLen(o.base+n, d))
}
func (o offsetCollector) WaitQuiet(q, d time.Duration) []byte { return o.cut(o.c.WaitQuiet(q, d)) }
func (o offsetCollector) Closed() (bool, error)               { return o.c.Closed() }

func runServer(c segCase, p plan, ref []byte) error {
	var finishInterloper func() error
	l := xport.NewPipeListener()
	l.LateEvery = c.LateReads
	h := &srv.Handler{Dev: device.New(c.DevSeed), ErrorFromUnit: errorUnit}
	closedConns := make(chan struct{}, 8)
	s := &server.Server{ReadTimeout: 20 * time.Millisecond, WriteTimeout: 2 * time.Second, OnErrorFunc: func(error) {},
		OnCloseConnFunc: func(context.Context, net.Addr, bool) { closedConns <- struct{}{} }}
	ctx, cancel := context.WithCancel(context.Background())
	var wg sync.WaitGroup
	wg.Add(1)
	go func() {
		defer wg.Done()
		_ = s.Serve(ctx, l, h)
	}()
	defer func() {
		cancel()
		_ = l.Close()
		wg.Wait()
	}()
	if c.Prelude > 0 && c.Prelude < len(p.stream) {
		pre, err := l.Dial()
		if err != nil {
			return fmt.Errorf("harness: dial: %v", err)
		}
		_ = pre.SetWriteDeadline(time.Now().Add(5 * time.Second))
		if _, err := pre.Write(p.stream[:c.Prelude]); err != nil {
			return fmt.Errorf("prelude connection: server did not read: %v", err)
		}
		_ = pre.Close()
		// wait until the server has finished with that connection (bounded; continuing early only weakens the case)
		select {
		case <-closedConns:
		case <-time.After(3 * time.Second):
		}
	}
	var ilConn net.Conn
	var ilCol *srv.Collector
	ilReq := spec.EncodeRequest(spec.TCP, spec.Req{FC: 3, Unit: 77, Tx: 0xAAAA, Addr: 300, Qty: 4})
	if c.Interloper > 0 && c.Interloper < len(ilReq) {
		ilConn, err := l.Dial()
		if err != nil {
			return fmt.Errorf("harness: dial: %v", err)
		}
		defer ilConn.Close()
		ilCol = srv.Collect(ilConn)
		_ = ilConn.SetWriteDeadline(time.Now().Add(5 * time.Second))
		if _, err := ilConn.Write(ilReq[:c.Interloper]); err != nil {
			return fmt.Errorf("second connection: server did not read: %v", err)
		}
		defer func(ic net.Conn) { _ = ic }(ilConn)
		// finish the interloper's request after the main stream (see below) through this closure
		finishInterloper = func() error {
			if _, err := ilConn.Write(ilReq[c.Interloper:]); err != nil {
				return fmt.Errorf("second connection: write failed: %v", err)
			}
			// the device's memory is shared by all units: replay the writes of the main stream before asking the reference
			refDev := device.New(c.DevSeed)
			for _, r := range c.Requests {
				if !(r.Unit >= errorUnit && spec.IsSupported(r.FC) && spec.LegalRequest(r) == nil && !((r.FC == 1 || r.FC == 2) && r.Qty > 125)) && !((r.FC == 1 || r.FC == 2) && r.Qty > 125) {
					refDev.Answer(spec.TCP, spec.EncodeRequest(spec.TCP, r))
				}
			}
			want := refDev.Answer(spec.TCP, ilReq)
			got := ilCol.WaitLen(len(want), 3*time.Second)
			if len(got) < len(want) {
				got = ilCol.WaitLen(len(want), 12*time.Second)
			}
			got = ilCol.WaitQuiet(40*time.Millisecond, time.Second)
			if !bytes.Equal(got, want) {
				return fmt.Errorf("a second connection that held %d bytes of its request %x while the first connection was served received %x, want %x: connections disturb each other", c.Interloper, ilReq, got, want)
			}
			return nil
		}
	}
	_ = ilConn
	conn, err := l.Dial()
	if err != nil {
		return fmt.Errorf("harness: dial: %v", err)
	}
	defer conn.Close()
	col0 := srv.Collect(conn)
	base := 0
	if len(c.Garbage) > 0 {
		_ = conn.SetWriteDeadline(time.Now().Add(5 * time.Second))
		if _, err := conn.Write(c.Garbage); err != nil {
			return errGarbageUnanswered
		}
		if b := col0.WaitLen(1, time.Second); len(b) == 0 {
			return errGarbageUnanswered
		}
		base = len(col0.WaitQuiet(40*time.Millisecond, time.Second))
		if closed, _ := col0.Closed(); closed {
			return errGarbageUnanswered
		}
	}
	col := offsetCollector{col0, base}
	fed := 0
	reqIdx := 0
	for i, seg := range p.segments {
		// everything received up to now was caused by the segments written so far
		got := col.Bytes()
		if len(got) > len(ref) || !p.same(got, ref[:len(got)]) {
			return fmt.Errorf("before segment %d (%d stream bytes fed) the server has sent\n  %x\nwhich is not a prefix of the reference reply stream\n  %x\nsegments: %s", i, fed, got, ref, describe(p))
		}
		if a := p.allowed(fed); len(got) > a {
			return fmt.Errorf("before segment %d: %d reply bytes sent, only %d allowed (a reply was sent before its request was complete); segments: %s", i, len(got), a, describe(p))
		}
		_ = conn.SetWriteDeadline(time.Now().Add(5 * time.Second))
		if _, err := conn.Write(seg); err != nil {
			return fmt.Errorf("server stopped reading at segment %d: %v (sent so far %x; segments %s)", i, err, col.Bytes(), describe(p))
		}
		fed += len(seg)
		if c.Lockstep {
			for reqIdx < len(p.ends) && p.ends[reqIdx] <= fed {
				want := p.refTotal[reqIdx]
				got := col.WaitLen(want, 3*time.Second)
				if len(got) < want {
					got = col.WaitLen(want, 12*time.Second)
				}
				if len(got) < want {
					return fmt.Errorf("lock-step: reply %d never arrived completely (%d of %d bytes: %x); segments %s", reqIdx, len(got), want, got, describe(p))
				}
				reqIdx++
			}
		}
	}
	got := col.WaitLen(len(ref), 3*time.Second)
	if len(got) < len(ref) {
		got = col.WaitLen(len(ref), 12*time.Second)
	}
	got = col.WaitQuiet(60*time.Millisecond, 2*time.Second)
	if !p.same(got, ref) {
		return fmt.Errorf("after the whole stream the server has sent\n  %x\nreference (each request answered once, in order)\n  %x\nsegments: %s", got, ref, describe(p))
	}
	if closed, _ := col.Closed(); closed {
		return fmt.Errorf("server closed the connection after valid requests; segments %s", describe(p))
	}
	if finishInterloper != nil {
		return finishInterloper()
	}
	return nil
}

func genSeg(t *rapid.T, level string) segCase {
	c := segCase{Level: level, DevSeed: rapid.Uint64().Draw(t, "dev_seed")}
	n := rapid.IntRange(1, 5).Draw(t, "nreq")
	for i := 0; i < n; i++ {
		fc := gen.FC(t)
		r := gen.LegalReq(t, fc, true)
		if rapid.IntRange(0, 2).Draw(t, "small") > 0 {
			// keep write payloads small most of the time so that streams stay short
			switch fc {
			case 15:
				r.Qty = uint16(rapid.IntRange(1, 24).Draw(t, "q15"))
				r.Payload = gen.Payload(t, "p15", (int(r.Qty)+7)/8)
				if rem := int(r.Qty) % 8; rem != 0 {
					r.Payload[len(r.Payload)-1] &= byte(1<<uint(rem)) - 1
				}
				r.ByteCount = uint8(len(r.Payload))
			case 16:
				r.Qty = uint16(rapid.IntRange(1, 4).Draw(t, "q16"))
				r.Payload, r.ByteCount = gen.Payload(t, "p16", 2*int(r.Qty)), uint8(2*int(r.Qty))
			case 23:
				r.WQty = uint16(rapid.IntRange(1, 4).Draw(t, "q23"))
				r.Payload, r.ByteCount = gen.Payload(t, "p23", 2*int(r.WQty)), uint8(2*int(r.WQty))
			}
		}
		// a fraction of the requests is malformed in a way for which the specification prescribes the reply: an unsupported
		// function code (exception 01) or an out-of-range quantity / coil value (exception 03). They must be consumed and answered
		// like any other request, whatever the segmentation.
		switch rapid.IntRange(0, 7).Draw(t, "malformed") {
		case 0:
			bad := []uint8{7, 8, 11, 20, 22, 24, 43, 65, 100, 127}
			r = spec.Req{FC: rapid.SampledFrom(bad).Draw(t, "ufc"), Unit: r.Unit, Tx: r.Tx, Payload: gen.Payload(t, "ubody", rapid.IntRange(1, 20).Draw(t, "ubody_n"))}
		case 1:
			switch r.FC {
			case 1, 2:
				r.Qty = rapid.SampledFrom([]uint16{0, 2001, 65535}).Draw(t, "bad_qty")
			case 3, 4, 23:
				r.Qty = rapid.SampledFrom([]uint16{0, 126, 65535}).Draw(t, "bad_qty")
			case 5:
				r.Value = rapid.SampledFrom([]uint16{1, 0xFF01, 0xFFFF}).Draw(t, "bad_value")
			case 15:
				r.Qty = rapid.SampledFrom([]uint16{0, 1969, 65535}).Draw(t, "bad_qty")
			case 16:
				r.Qty = rapid.SampledFrom([]uint16{0, 124, 65535}).Draw(t, "bad_qty")
			}
		}
		if rapid.IntRange(0, 5).Draw(t, "handler_error") == 0 {
			r.Unit = uint8(rapid.IntRange(errorUnit, 255).Draw(t, "error_unit"))
		} else if r.Unit >= errorUnit {
			r.Unit -= 100
		}
		c.Requests = append(c.Requests, r)
	}
	p := mkPlan(segCase{Requests: c.Requests, DevSeed: c.DevSeed})
	L := len(p.stream)
	c.Lockstep = rapid.Bool().Draw(t, "lockstep")
	mode := rapid.IntRange(0, 4).Draw(t, "cutmode")
	switch mode {
	case 0: // whole stream at once (several requests in one read)
	case 1: // one cut inside each request at a hot offset
		prev := 0
		for _, e := range p.ends {
			off := rapid.SampledFrom([]int{1, 6, 7, 8, 9, 10, 11, e - prev - 1}).Draw(t, "hotoff")
			if off > 0 && off < e-prev {
				c.Cuts = append(c.Cuts, prev+off)
			}
			prev = e
		}
	case 2: // byte by byte for short streams, else random
		if L <= 60 {
			for i := 1; i < L; i++ {
				c.Cuts = append(c.Cuts, i)
			}
		}
		fallthrough
	default:
		k := rapid.IntRange(1, 6).Draw(t, "ncuts")
		for i := 0; i < k && L > 1; i++ {
			c.Cuts = append(c.Cuts, rapid.IntRange(1, L-1).Draw(t, "cut"))
		}
	}
	if level == "B" && rapid.IntRange(0, 2).Draw(t, "with_prelude") == 0 {
		first := p.ends[0]
		c.Prelude = rapid.IntRange(1, first-1).Draw(t, "prelude")
	}
	if level == "B" && rapid.IntRange(0, 2).Draw(t, "with_interloper") == 0 {
		c.Interloper = rapid.IntRange(1, 11).Draw(t, "interloper")
	}
	if rapid.IntRange(0, 5).Draw(t, "foreign_token") == 0 {
		// a write request whose payload begins with bytes that other protocols open with, and a cut exactly in front of them: a fragment
		// of a valid request that, looked at on its own, resembles the start of a foreign stream
		prev := 0
		for i := range c.Requests {
			r := &c.Requests[i]
			off := -1
			switch r.FC {
			case 16:
				off = 13
			case 23:
				off = 17
			}
			if off > 0 && len(r.Payload) >= 4 {
				tok := rapid.SampledFrom(hostile.Tokens).Draw(t, "token")
				if len(tok) <= len(r.Payload) {
					copy(r.Payload, tok)
					c.Cuts = append(c.Cuts, prev+off)
				}
			}
			prev = p.ends[i]
		}
	}
	if rapid.IntRange(0, 4).Draw(t, "with_garbage") == 0 {
		g := gen.Payload(t, "garbage", rapid.IntRange(8, 40).Draw(t, "garbage_n"))
		if rapid.Bool().Draw(t, "garbage_like_request") {
			g = append([]byte(nil), spec.EncodeRequest(spec.TCP, c.Requests[0])...)
		}
		g[2+rapid.IntRange(0, 1).Draw(t, "garbage_pidx")] = byte(rapid.IntRange(1, 255).Draw(t, "garbage_pid"))
		c.Garbage = g
	}
	if len(c.Garbage) == 0 && rapid.IntRange(0, 5).Draw(t, "with_runt") == 0 {
		c.Runt = genRunt(t)
		// the cuts keep their place in the requests; the seam between the runt and the first request is cut sometimes
		for i := range c.Cuts {
			c.Cuts[i] += len(c.Runt)
		}
		if at := rapid.IntRange(0, len(c.Runt)+3).Draw(t, "runt_cut"); at > 0 && rapid.Bool().Draw(t, "with_runt_cut") {
			c.Cuts = append(c.Cuts, at)
		}
		L += len(c.Runt)
	}
	if level == "B" {
		c.LateReads = rapid.SampledFrom([]int{0, 0, 1, 2, 3}).Draw(t, "late_reads")
	}
	if level == "B" {
		// the server reads at most 300 bytes per read: keep segments <= 300 so that one write is one read
		pos := 0
		for pos+300 < L {
			pos += 300
			c.Cuts = append(c.Cuts, pos)
		}
	}
	return c
}

func genRunt(t *rapid.T) []byte {
	n := rapid.IntRange(0, 2).Draw(t, "runt_len")
	g := []byte{rapid.Byte().Draw(t, "runt_tx_hi"), rapid.Byte().Draw(t, "runt_tx_lo"), 0, 0, 0, byte(n)}
	g = append(g, gen.Payload(t, "runt_body", n)...)
	if n == 2 && g[7] == 17 {
		g[7] = 3 // (unit + function 17 is the one complete request of that length)
	}
	return g
}

var chkA = harness.Define("assembler-segmentation", func(t *rapid.T) segCase { return genSeg(t, "A") }, runSeg)
var chkB = harness.Define("server-segmentation", func(t *rapid.T) segCase { return genSeg(t, "B") }, runSeg)

func TestFindings(t *testing.T) {
	harness.Probe(t, kfParser125, func(fd harness.Finding) (bool, string) {
		r := spec.Req{FC: 1, Unit: 1, Tx: 9, Addr: 0, Qty: 126}
		h := &srv.Handler{Dev: device.New(1)}
		asm := &server.ModbusTCPAssembler{Handler: h}
		f := spec.EncodeRequest(spec.TCP, r)
		out, _ := asm.ReceiveRead(context.Background(), f, len(f))
		if len(out) == 9 && out[7] == 0x81 {
			return true, fmt.Sprintf("server answers the legal request %x with %x", f, out)
		}
		return false, ""
	})
}

func TestRandom(t *testing.T) {
	chkA.Rapid(t, harness.Pick(5000, 200000))
	chkB.Rapid(t, harness.Pick(40, 1500))
}

func small(fc uint8, k int) spec.Req {
	r := spec.Req{FC: fc, Unit: uint8(3 + k), Tx: uint16(0x0100 + k), Addr: uint16(20 + 3*k)}
	switch fc {
	case 1, 2:
		r.Qty = 9
	case 3, 4:
		r.Qty = 2
	case 5:
		r.Value = 0xFF00
	case 6:
		r.Value = 0x1234
	case 15:
		r.Qty, r.Payload, r.ByteCount = 3, []byte{5}, 1
	case 16:
		r.Qty, r.Payload, r.ByteCount = 1, []byte{0xAB, 0xCD}, 2
	case 23:
		r.Qty, r.WAddr, r.WQty, r.Payload, r.ByteCount = 2, 40, 1, []byte{1, 2}, 2
	}
	return r
}

// TestAllCutSets: every cut set of every single request <= 16 bytes and every pair <= 20 bytes (level A);
// all single and double cuts of the longer requests.
func TestAllCutSets(t *testing.T) {
	idx := 0
	n := int64(0)
	var streams [][]spec.Req
	for _, fc := range spec.Functions {
		streams = append(streams, []spec.Req{small(fc, 0)})
	}
	pairFCs := []uint8{17, 3, 5, 16}
	if harness.Thorough() {
		pairFCs = spec.Functions
	}
	for _, a := range pairFCs {
		for _, b := range pairFCs {
			streams = append(streams, []spec.Req{small(a, 0), small(b, 1)})
		}
	}
	for _, reqs := range streams {
		p := mkPlan(segCase{Requests: reqs, DevSeed: 5})
		L := len(p.stream)
		var sets [][]int
		limit := 16
		if len(reqs) == 2 {
			limit = 20
		}
		if L <= limit || (harness.Thorough() && L <= 22) {
			for m := 0; m < 1<<uint(L-1); m++ {
				var cs []int
				for i := 0; i < L-1; i++ {
					if m&(1<<uint(i)) != 0 {
						cs = append(cs, i+1)
					}
				}
				sets = append(sets, cs)
			}
		} else {
			sets = append(sets, nil)
			for a := 1; a < L; a++ {
				sets = append(sets, []int{a})
				for b := a + 1; b < L; b++ {
					sets = append(sets, []int{a, b})
				}
			}
		}
		for _, cs := range sets {
			idx++
			if !harness.Mine(idx) {
				continue
			}
			n++
			if !chkA.EvalFast(t, segCase{Requests: reqs, Cuts: cs, DevSeed: 5, Level: "A"}) {
				return
			}
		}
	}
	harness.Exhaustive("assembler-segmentation", "level A: all 2^(n-1) cut sets of every single small request (<= 16 B) and of request pairs (<= 20 B); all single and double cuts of the longer ones", n)
}

// TestRuntBeforeRequests: a 6, 7 or 8-byte frame with a valid protocol id and a length field of 0, 1 or 2 directly in front of one or
// two requests (transaction ids with a non-zero high byte), under every single and double cut of the joined stream and as one read.
func TestRuntBeforeRequests(t *testing.T) {
	idx := 0
	n := int64(0)
	for _, runt := range [][]byte{{0x11, 0x11, 0, 0, 0, 0}, {0x11, 0x12, 0, 0, 0, 1, 9}, {0x11, 0x13, 0, 0, 0, 2, 9, 3}, {0x11, 0x14, 0, 0, 0, 2, 0, 0}, {0, 0, 0, 0, 0, 2, 0xFF, 0x90}} {
		for _, fcs := range [][]uint8{{3}, {17}, {4, 17}, {17, 16}, {6, 1}} {
			var reqs []spec.Req
			for i, fc := range fcs {
				r := small(fc, i)
				r.Tx = uint16(0x2222 + 0x1111*i)
				reqs = append(reqs, r)
			}
			L := len(runt) + len(mkPlan(segCase{Requests: reqs, DevSeed: 5}).stream)
			sets := [][]int{nil}
			for a := 1; a < L; a++ {
				sets = append(sets, []int{a})
				for b := a + 1; b < L && b < a+12; b++ {
					sets = append(sets, []int{a, b})
				}
			}
			for _, cs := range sets {
				idx++
				if !harness.Mine(idx) {
					continue
				}
				n++
				if !chkA.EvalFast(t, segCase{Requests: reqs, Cuts: cs, DevSeed: 5, Level: "A", Runt: runt}) {
					return
				}
			}
		}
	}
	for _, runt := range [][]byte{{0x11, 0x11, 0, 0, 0, 0}, {0x11, 0x13, 0, 0, 0, 2, 9, 3}} {
		for _, cs := range [][]int{nil, {len(runt)}, {8}} {
			idx++
			if !harness.Mine(idx) {
				continue
			}
			r := small(3, 0)
			r.Tx = 0x2222
			if !chkB.Eval(t, segCase{Requests: []spec.Req{r, small(17, 1)}, Cuts: cs, DevSeed: 5, Level: "B", Runt: runt}) {
				return
			}
		}
	}
	harness.Exhaustive("assembler-segmentation", "level A: five runt frames (6..8 bytes, valid protocol id, length field 0..2) in front of five request streams, as one read and under every single cut and every double cut less than 12 bytes apart", n)
}

// ---------------------------------------------------------------------------
// one connection that lives long: hundreds to thousands of requests through one assembler (one server connection), cut into
// segments of cycling lengths so that requests arrive whole, fragmented and several per read - the 1st like the 342nd and the 1024th

func genLongSeg(t *rapid.T, level string, sizes []int) segCase {
	c := segCase{Level: level, DevSeed: rapid.Uint64().Draw(t, "dev_seed")}
	n := rapid.SampledFrom(sizes).Draw(t, "nrequests")
	fcs := rapid.SliceOfN(rapid.SampledFrom(spec.Functions), 1, 6).Draw(t, "fcs")
	for i := 0; i < n; i++ {
		r := small(fcs[i%len(fcs)], i%50)
		r.Tx = uint16(i)
		c.Requests = append(c.Requests, r)
	}
	total := 0
	for _, r := range c.Requests {
		total += len(spec.EncodeRequest(spec.TCP, r))
	}
	steps := rapid.SliceOfN(rapid.IntRange(1, 40), 1, 6).Draw(t, "segment_lengths")
	for pos, i := 0, 0; ; i++ {
		pos += steps[i%len(steps)]
		if pos >= total {
			break
		}
		c.Cuts = append(c.Cuts, pos)
	}
	return c
}

var chkLongA = harness.Define("assembler-segmentation", func(t *rapid.T) segCase { return genLongSeg(t, "A", []int{350, 1100, 2100}) }, runSeg)
var chkLongB = harness.Define("server-segmentation", func(t *rapid.T) segCase { return genLongSeg(t, "B", []int{350, 1100}) }, runSeg)

func TestLongLivedConnection(t *testing.T) {
	chkLongA.Rapid(t, harness.Pick(8, 120))
	chkLongB.Rapid(t, harness.Pick(1, 12))
}

// TestFullReads: pipelined requests that fill the server's reads exactly (the connection reads into a 300-byte array; net.Pipe hands
// over one write as one read up to that size): 12-byte requests written 24, 25, 26, 50 and 75 at a time, as the whole stream and
// followed by further traffic. Nothing is special about 300 bytes as far as the protocol goes.
func TestFullReads(t *testing.T) {
	idx := 0
	for _, level := range []string{"A", "B"} {
		for _, per := range []int{24, 25, 26, 50, 75} {
			for _, writes := range []int{1, 2, 3} {
				for _, tail := range []int{0, 1, 7} {
					idx++
					if !harness.Mine(idx) {
						continue
					}
					c := segCase{Level: level, DevSeed: uint64(idx) + harness.Seed()}
					n := per*writes + tail
					for i := 0; i < n; i++ {
						c.Requests = append(c.Requests, spec.Req{FC: 3 + uint8(i%2), Unit: uint8(1 + i%5), Tx: uint16(i), Addr: uint16(3 * i), Qty: 1 + uint16(i%4)})
					}
					for w := 1; w <= writes; w++ {
						if w*per*12 < n*12 {
							c.Cuts = append(c.Cuts, w*per*12)
						}
					}
					chk := chkA
					if level == "B" {
						chk = chkB
					}
					if !chk.Eval(t, c) {
						return
					}
				}
			}
		}
	}
}
