package c01

import (
	"bytes"
	"fmt"
	"reflect"
	"testing"

	modbus "github.com/aldas/go-modbus-client"
	"github.com/aldas/go-modbus-client/packet"
	"pgregory.net/rapid"

	"verif/internal/cat"
	"verif/internal/cli"
	"verif/internal/gen"
	"verif/internal/harness"
	"verif/internal/hostile"
	"verif/internal/spec"
	"verif/internal/xport"
)

func TestMain(m *testing.M) { harness.Main(m) }

func TestReplay(t *testing.T)  { harness.RunReplay(t) }
func TestRegress(t *testing.T) { harness.RunRegress(t) }

// encCase: constructor arguments as a user would pass them.
// fc15: Qty = number of coils passed, Payload = their packing (bit i = coil i).
// fc16/fc23: Payload = the data bytes passed (any length); fc23: Qty = read quantity.
type encCase struct {
	Framing spec.Framing `json:"framing"`
	Req     spec.Req     `json:"req"`
	// Proto (TCP only): value written into the request's exported MBAPHeader.ProtocolID field before it is serialised. Whatever a
	// caller leaves in that field, the frame carries protocol id 0 (the specification's only value).
	Proto uint16 `json:"proto,omitempty"`
	// Sibling ("unit" | "addr" | "qty" | "tx" | "value"): directly before the request of the case, a request that differs from it only
	// in that argument (by SiblingXor) is constructed and serialised - what a program polling several similar devices does. What was
	// serialised before must not matter.
	Sibling    string `json:"sibling,omitempty"`
	SiblingXor uint16 `json:"sibling_xor,omitempty"`
	// Wire: the request is also handed to the clients (network client of the framing, now and then the serial client for RTU; with and without
	// logging hooks, with the response parser named explicitly in the configuration or not): what they put on the wire is the ADU
	Wire bool `json:"wire,omitempty"`
}

// expected returns the specification-level request the arguments denote.
func expected(r spec.Req) spec.Req {
	e := r
	switch r.FC {
	case 5:
		if r.Value != 0 {
			e.Value = 0xFF00
		}
	case 15:
		coils := cat.CoilsOf(r.Payload, int(r.Qty))
		e.Payload = spec.PackCoils(coils)
		e.ByteCount = uint8(len(e.Payload))
	case 16:
		e.Qty = uint16(len(r.Payload) / 2)
		e.ByteCount = uint8(len(r.Payload))
	case 23:
		e.WQty = uint16(len(r.Payload) / 2)
		e.ByteCount = uint8(len(r.Payload))
	}
	return e
}

func knownRegion(r spec.Req) string {
	if r.FC == 16 && len(r.Payload) == 248 && harness.OpenFinding("fc16-accepts-124-registers") {
		return "fc16-accepts-124-registers"
	}
	if r.FC == 23 && len(r.Payload) >= 244 && len(r.Payload) <= 248 && len(r.Payload)%2 == 0 && harness.OpenFinding("fc23-accepts-122-124-write-registers") {
		return "fc23-accepts-122-124-write-registers"
	}
	return ""
}

func runEnc(c encCase) harness.Result {
	r := c.Req
	r.Payload = append([]byte(nil), c.Req.Payload...) // this run's own buffer (it is refilled in place below)
	labels := []string{fmt.Sprintf("fc%d", r.FC), c.Framing.String()}
	q, err := cat.NewRequest(c.Framing, r)
	if err != nil {
		if q != nil {
			return harness.Fail("constructor returned both a request and an error: %v", err)
		}
		labels = append(labels, "rejected")
		if spec.LegalRequest(expected(r)) == nil && !(r.FC == 15 && int(r.Qty) > 8*len(r.Payload)) {
			labels = append(labels, "rejected-although-legal")
		}
		return harness.Result{Labels: labels}
	}
	labels = append(labels, "accepted")
	e := expected(r)
	if c.Proto != 0 && c.Framing == spec.TCP {
		if f := reflect.ValueOf(q).Elem().FieldByName("MBAPHeader"); f.IsValid() {
			if pf := f.FieldByName("ProtocolID"); pf.IsValid() && pf.CanSet() {
				pf.SetUint(uint64(c.Proto))
				labels = append(labels, "protocol-id-field-set")
			}
		}
	}
	{
		// first an unrelated request of the same kind: whatever an earlier case left in a one-entry memo of the library is gone, so that a
		// failure of this case depends on this case alone (and its replay file reproduces it)
		n := r
		n.Unit, n.Addr, n.Tx = r.Unit^0xA5, r.Addr^0x5A5A, r.Tx^0x3C3C
		if nq, err := cat.NewRequest(c.Framing, n); err == nil {
			_ = nq.Bytes()
		}
	}
	if c.Sibling != "" {
		s := r
		switch c.Sibling {
		case "unit":
			s.Unit ^= uint8(c.SiblingXor)
		case "addr":
			s.Addr ^= c.SiblingXor
		case "qty":
			s.Qty ^= c.SiblingXor
		case "tx":
			s.Tx ^= c.SiblingXor
		case "value":
			s.Value ^= c.SiblingXor
		}
		if sq, err := cat.NewRequest(c.Framing, s); err == nil {
			_ = sq.Bytes()
		}
		labels = append(labels, "after-sibling-differing-in:"+c.Sibling)
	}
	got := q.Bytes()
	if q.FunctionCode() != r.FC {
		return harness.Fail("FunctionCode()=%d for fc %d", q.FunctionCode(), r.FC)
	}
	known := knownRegion(r)
	// (a) accepted => legal by the specification
	if lerr := spec.LegalRequest(e); lerr != nil {
		if known == "" {
			return harness.Fail("constructor accepted arguments that are illegal under the specification: %v", lerr)
		}
	}
	// (b) byte for byte
	want := spec.EncodeRequest(c.Framing, e)
	if c.Framing == spec.RTU && len(want) > 2 {
		if cl := hostile.BodyCRCClass(want[:len(want)-2]); cl != "" {
			labels = append(labels, "rtu-body-crc:"+cl)
		}
	}
	if !bytes.Equal(got, want) {
		return harness.Fail("encoded\n  %x\nspecification prescribes\n  %x", got, want)
	}
	// (c) structural predicates on the frame itself
	if c.Framing == spec.TCP {
		if len(got) < 8 {
			return harness.Fail("tcp frame too short: %x", got)
		}
		if got[2] != 0 || got[3] != 0 {
			return harness.Fail("protocol id not 0: %x", got[:8])
		}
		if n := int(got[4])<<8 | int(got[5]); n != len(got)-6 {
			return harness.Fail("length field %d but %d bytes follow", n, len(got)-6)
		}
		if int(got[0])<<8|int(got[1]) != int(r.Tx) || got[6] != r.Unit || got[7] != r.FC {
			return harness.Fail("header fields wrong: %x", got[:8])
		}
	} else {
		n := len(got)
		crc := spec.RefCRC16(got[:n-2])
		if got[0] != r.Unit || got[1] != r.FC || got[n-2] != byte(crc) || got[n-1] != byte(crc>>8) {
			return harness.Fail("rtu frame unit/fc/crc wrong: %x", got)
		}
	}
	if len(got) > spec.MaxADU(c.Framing) {
		if known == "" {
			return harness.Fail("frame is %d bytes, maximum ADU is %d", len(got), spec.MaxADU(c.Framing))
		}
	}
	// (d) the frame handed out belongs to the caller: building and serialising another request of the same kind (and serialising this
	// one again) must not change the bytes already returned (a batch of frames prepared before sending, a queued frame)
	if known == "" {
		other := r
		other.Tx, other.Unit, other.Addr = r.Tx^0x5A5A, r.Unit^0xFF, r.Addr^0x0F0F
		for i := range other.Payload {
			other.Payload = append([]byte(nil), r.Payload...)
			other.Payload[i] ^= 0xFF
			break
		}
		if q2, err := cat.NewRequest(c.Framing, other); err == nil {
			_ = q2.Bytes()
		}
		if !bytes.Equal(got, want) {
			return harness.Fail("the frame returned by Bytes() changed after another request was serialised:\n  now  %x\n  was  %x", got, want)
		}
		if c.Framing == spec.RTU {
			got[len(got)-1] ^= 0xA5 // the caller may do what it likes with the slice it was given: first only the CRC, then everything
			if a := q.Bytes(); !bytes.Equal(a, want) {
				return harness.Fail("after the caller changed the trailer of the frame it was given, serialising the same request again gives %x, want %x", a, want)
			}
		}
		for i := range got {
			got[i] ^= 0xEE
		}
		again := q.Bytes()
		if !bytes.Equal(again, want) {
			return harness.Fail("serialising the same request a second time gives %x, the first time %x", again, want)
		}
		// (e) the payload buffer is the caller's as well: a program refills one buffer with the next values and builds the next request
		// from it (same unit, address and size, other contents)
		if len(r.Payload) > 0 && (r.FC == 15 || r.FC == 16 || r.FC == 23) {
			for i := range r.Payload {
				r.Payload[i] ^= 0x3C
			}
			if q3, err := cat.NewRequest(c.Framing, r); err == nil {
				want3 := spec.EncodeRequest(c.Framing, expected(r))
				if got3 := q3.Bytes(); !bytes.Equal(got3, want3) {
					return harness.Fail("after the caller refilled its payload buffer in place and built a new request from it, that request serialises to\n  %x\nthe specification prescribes\n  %x\n(the request built from the buffer's previous contents gave %x)", got3, want3, want)
				}
				labels = append(labels, "payload-buffer-refilled-in-place")
			}
		}
	}
	if c.Wire && known == "" {
		kinds := []string{cli.TCP}
		if c.Framing == spec.RTU {
			// (the serial client waits 30 ms in every call: it gets one request in sixteen of these)
			kinds = []string{cli.RTUNet}
			if (int(r.Addr)+int(r.Unit))%16 == 0 {
				kinds = append(kinds, cli.Serial)
			}
		}
		for _, kind := range kinds {
			for v := 0; v < 4; v++ {
				if cli.IsSerial(kind) && v != 1 {
					continue
				}
				o := cli.Run(cli.Scenario{Kind: kind, Req: c.Req, Events: []xport.Event{{Kind: "ioerr"}}, ReadTimeoutMs: 300, Hooks: v%2 == 1, ExplicitParser: v >= 2})
				if o.Panic != nil || o.Hung {
					return harness.Fail("%s client (hooks=%v explicit parser=%v): panic=%v hung=%v", kind, v%2 == 1, v >= 2, o.Panic, o.Hung)
				}
				var sent []byte
				for _, w := range o.Writes {
					sent = append(sent, w...)
				}
				if !bytes.Equal(sent, want) {
					return harness.Fail("%s client (hooks=%v, explicit parser=%v) wrote %x to the transport, the ADU of the request is %x", kind, v%2 == 1, v >= 2, sent, want)
				}
			}
		}
		labels = append(labels, "sent-through-clients")
	}
	if known != "" {
		return harness.Result{Excluded: known, Labels: append(labels, "known:"+known)}
	}
	atLimit := false
	switch r.FC {
	case 1, 2:
		atLimit = r.Qty == 2000 || r.Qty == 1
	case 3, 4:
		atLimit = r.Qty == 125 || r.Qty == 1
	case 15:
		atLimit = r.Qty == 1968 || r.Qty == 1
	case 16:
		atLimit = e.Qty == 123 || e.Qty == 1
	case 23:
		atLimit = e.WQty == 121 || e.WQty == 1 || r.Qty == 1 || r.Qty >= 124
	}
	if atLimit {
		labels = append(labels, "at-limit")
	}
	return harness.Result{NonTrivial: true, Labels: labels}
}

func genEnc(t *rapid.T) encCase {
	fc := gen.FC(t)
	r := spec.Req{FC: fc}
	r.Unit = rapid.Uint8().Draw(t, "unit")
	r.Tx = gen.U16(t, "tx", []int{0, 1, 255, 256, 65535})
	r.Addr = gen.U16(t, "addr", gen.HotAddr)
	switch fc {
	case 1, 2, 3, 4:
		r.Qty = gen.U16(t, "qty", gen.HotQty)
	case 5:
		if rapid.Bool().Draw(t, "on") {
			r.Value = 0xFF00
		}
		if rapid.IntRange(0, 7).Draw(t, "self_crc") == 0 {
			// the address is chosen so that the value bytes equal the CRC (low byte first) of unit, function and address: the 6-byte
			// unit+PDU then "already ends with its own CRC"
			want := uint16(0x0000)
			if r.Value == 0xFF00 {
				want = 0x00FF
			}
			if a, ok := hostile.AddrForCRC(r.Unit, 5, want); ok {
				r.Addr = a
			}
		}
	case 6:
		r.Value = rapid.Uint16().Draw(t, "value")
		if rapid.IntRange(0, 7).Draw(t, "self_crc") == 0 {
			r.Value = hostile.SelfCRCValue(r.Unit, 6, r.Addr)
		}
	case 15:
		n := int(gen.U16(t, "ncoils", gen.HotQty))
		if n > 2100 {
			n = n % 2101
		}
		r.Qty = uint16(n)
		p := gen.Payload(t, "coils", (n+7)/8)
		if rem := n % 8; rem != 0 {
			p[len(p)-1] &= byte(1<<uint(rem)) - 1
		}
		r.Payload = p
	case 16:
		n := rapid.SampledFrom([]int{0, 1, 2, 3, 4, 240, 242, 244, 245, 246, 247, 248, 249, 250, 252, 256, 300, -1, -1, -1, -1}).Draw(t, "nbytes")
		if n < 0 {
			n = rapid.IntRange(0, 300).Draw(t, "nbytes_any")
		}
		r.Payload = gen.Payload(t, "regs", n)
	case 23:
		r.Qty = gen.U16(t, "rqty", gen.HotQty)
		r.WAddr = gen.U16(t, "waddr", gen.HotAddr)
		n := rapid.SampledFrom([]int{0, 1, 2, 3, 4, 240, 242, 243, 244, 246, 248, 250, 252, 256, 300, -1, -1, -1, -1}).Draw(t, "nbytes")
		if n < 0 {
			n = rapid.IntRange(0, 300).Draw(t, "nbytes_any")
		}
		r.Payload = gen.Payload(t, "regs", n)
	}
	c := encCase{Framing: gen.Framing(t), Req: r}
	if c.Framing == spec.TCP && rapid.IntRange(0, 3).Draw(t, "proto_field") == 0 {
		c.Proto = uint16(rapid.SampledFrom([]int{1, 0x0100, 0x1234, 0xFFFF}).Draw(t, "proto"))
	}
	c.Wire = rapid.IntRange(0, 15).Draw(t, "wire") == 0
	if rapid.IntRange(0, 2).Draw(t, "with_sibling") == 0 {
		c.Sibling = rapid.SampledFrom([]string{"unit", "unit", "addr", "qty", "tx", "value"}).Draw(t, "sibling")
		c.SiblingXor = uint16(1) << rapid.IntRange(0, 15).Draw(t, "sibling_bit")
		if c.Sibling == "unit" {
			c.SiblingXor = uint16(rapid.SampledFrom([]int{1, 2, 4, 8, 0x10, 0x20, 0x40, 0x80, 0xF0, 0x0F, 0xFF}).Draw(t, "sibling_mask"))
		}
	}
	return c
}

var chkEnc = harness.Define("encode-vs-spec", genEnc, runEnc).Repeated(2)

func TestFindings(t *testing.T) {
	harness.Probe(t, "fc16-accepts-124-registers", func(f harness.Finding) (bool, string) {
		for _, fr := range []spec.Framing{spec.TCP, spec.RTU} {
			q, err := cat.NewRequest(fr, spec.Req{FC: 16, Unit: 1, Payload: make([]byte, 248)})
			if err == nil && len(q.Bytes()) > spec.MaxADU(fr) {
				return true, fmt.Sprintf("%s frame of %d bytes accepted", fr, len(q.Bytes()))
			}
		}
		return false, ""
	})
	harness.Probe(t, "fc23-accepts-122-124-write-registers", func(f harness.Finding) (bool, string) {
		for _, fr := range []spec.Framing{spec.TCP, spec.RTU} {
			_, err := cat.NewRequest(fr, spec.Req{FC: 23, Unit: 1, Qty: 1, Payload: make([]byte, 244)})
			if err == nil {
				return true, "122 write registers accepted"
			}
		}
		return false, ""
	})
}

func TestRandom(t *testing.T) {
	chkEnc.Rapid(t, harness.Pick(20000, 1000000))
}

func TestQuantityAxis(t *testing.T) {
	addrs := []uint16{0, 107, 65535}
	if !harness.Thorough() {
		addrs = []uint16{107}
	}
	lo, hi := harness.Range(65536)
	n := int64(0)
	for _, fr := range []spec.Framing{spec.TCP, spec.RTU} {
		for _, fc := range []uint8{1, 2, 3, 4} {
			for _, a := range addrs {
				for q := lo; q < hi; q++ {
					if !chkEnc.EvalFast(t, encCase{Framing: fr, Req: spec.Req{FC: fc, Unit: uint8(q), Tx: uint16(q * 7), Addr: a, Qty: uint16(q)}}) {
						return
					}
				}
				n += 65536
			}
		}
	}
	harness.Exhaustive("encode-vs-spec", fmt.Sprintf("every quantity 0..65535 for fc1-4 x {tcp,rtu} x %d start addresses", len(addrs)), n)
}

func TestPayloadAxes(t *testing.T) {
	idx := 0
	n := int64(0)
	patterns := 3
	// every coil count 0..2100 x patterns
	for _, fr := range []spec.Framing{spec.TCP, spec.RTU} {
		for cnt := 0; cnt <= 2100; cnt++ {
			for p := 0; p < patterns; p++ {
				idx++
				n++
				if !harness.Mine(idx) {
					continue
				}
				pl := make([]byte, (cnt+7)/8)
				switch p {
				case 0:
					for i := range pl {
						pl[i] = 0xFF
					}
				case 1:
					for i := range pl {
						pl[i] = 0x55
					}
				case 2:
					pl = harness.Bytes(uint64(cnt)+harness.Seed(), len(pl))
				}
				if rem := cnt % 8; rem != 0 && len(pl) > 0 {
					pl[len(pl)-1] &= byte(1<<uint(rem)) - 1
				}
				if !chkEnc.Eval(t, encCase{Framing: fr, Req: spec.Req{FC: 15, Unit: 17, Tx: uint16(cnt), Addr: uint16(cnt * 31), Qty: uint16(cnt), Payload: pl}}) {
					return
				}
			}
		}
	}
	harness.Exhaustive("encode-vs-spec", "every coil count 0..2100 for fc15 x {tcp,rtu} x 3 patterns", n)
	// every register byte length 0..520 for fc16 and fc23 (x read quantities)
	n = 0
	rq := []uint16{0, 1, 2, 123, 124, 125, 126, 130}
	if harness.Thorough() {
		rq = nil
		for q := 0; q <= 130; q++ {
			rq = append(rq, uint16(q))
		}
	}
	for _, fr := range []spec.Framing{spec.TCP, spec.RTU} {
		for nb := 0; nb <= 520; nb++ {
			idx++
			n++
			if harness.Mine(idx) {
				if !chkEnc.Eval(t, encCase{Framing: fr, Req: spec.Req{FC: 16, Unit: 3, Tx: uint16(nb), Addr: uint16(nb * 127), Payload: harness.Bytes(uint64(nb), nb)}}) {
					return
				}
			}
			for _, q := range rq {
				idx++
				n++
				if !harness.Mine(idx) {
					continue
				}
				if !chkEnc.Eval(t, encCase{Framing: fr, Req: spec.Req{FC: 23, Unit: 3, Tx: uint16(nb), Addr: uint16(nb * 127), Qty: q, WAddr: uint16(nb * 3), Payload: harness.Bytes(uint64(nb), nb)}}) {
					return
				}
			}
		}
	}
	harness.Exhaustive("encode-vs-spec", fmt.Sprintf("every write payload length 0..520 bytes for fc16 and fc23 (x %d read quantities) x {tcp,rtu}", len(rq)), n)
	// fc5/fc6/fc17 have no size axis: all unit ids
	for _, fr := range []spec.Framing{spec.TCP, spec.RTU} {
		for u := 0; u < 256; u++ {
			for _, r := range []spec.Req{{FC: 5, Value: 0xFF00}, {FC: 5}, {FC: 6, Value: uint16(u*257) ^ 0x1234}, {FC: 17}} {
				r.Unit, r.Addr, r.Tx = uint8(u), uint16(u*255), uint16(65535-u)
				if !chkEnc.Eval(t, encCase{Framing: fr, Req: r}) {
					return
				}
			}
		}
	}
}

// builderCase: a read request (FC1-4) obtained from the request builder - the other way the library constructs requests - for
// fields that span exactly [Addr, Addr+Qty) on one server and unit. The frame a caller gets from the BuilderRequest (what Client.Do
// serialises when it is handed the BuilderRequest, as in the README) must be the specification's ADU for that unit, address and quantity.
type builderCase struct {
	Framing spec.Framing `json:"framing"`
	FC      uint8        `json:"fc"`
	Unit    uint8        `json:"unit"`
	Addr    uint16       `json:"addr"`
	Qty     uint16       `json:"qty"`
	// Others: this many other devices (server, unit) have fields in the same builder, added between the two fields of the request
	// under test (a program polling several devices value by value)
	Others int `json:"others,omitempty"`
}

func runBuilder(c builderCase) harness.Result {
	labels := []string{fmt.Sprintf("fc%d", c.FC), c.Framing.String(), "via-builder"}
	typ := modbus.FieldTypeUint16
	if c.FC <= 2 {
		typ = modbus.FieldTypeCoil
	}
	last := uint16(int(c.Addr) + int(c.Qty) - 1)
	b := modbus.NewRequestBuilder("", 0)
	fields := []modbus.Field{{Name: "first", ServerAddress: "dev:502", UnitID: c.Unit, Address: c.Addr, Type: typ}}
	for i := 0; i < c.Others; i++ {
		fields = append(fields, modbus.Field{Name: fmt.Sprintf("other%d", i), ServerAddress: fmt.Sprintf("other%d:502", i%3), UnitID: uint8(i), Address: uint16(100 + i), Type: typ})
	}
	fields = append(fields, modbus.Field{Name: "last", ServerAddress: "dev:502", UnitID: c.Unit, Address: last, Type: typ})
	for i := 0; i < c.Others; i++ {
		fields = append(fields, modbus.Field{Name: fmt.Sprintf("again%d", i), ServerAddress: fmt.Sprintf("other%d:502", i%3), UnitID: uint8(i), Address: uint16(103 + i), Type: typ})
	}
	b.AddAll(fields)
	var reqs []modbus.BuilderRequest
	var err error
	switch {
	case c.FC == 1 && c.Framing == spec.TCP:
		reqs, err = b.ReadCoilsTCP()
	case c.FC == 1:
		reqs, err = b.ReadCoilsRTU()
	case c.FC == 2 && c.Framing == spec.TCP:
		reqs, err = b.ReadDiscreteInputsTCP()
	case c.FC == 2:
		reqs, err = b.ReadDiscreteInputsRTU()
	case c.FC == 3 && c.Framing == spec.TCP:
		reqs, err = b.ReadHoldingRegistersTCP()
	case c.FC == 3:
		reqs, err = b.ReadHoldingRegistersRTU()
	case c.FC == 4 && c.Framing == spec.TCP:
		reqs, err = b.ReadInputRegistersTCP()
	default:
		reqs, err = b.ReadInputRegistersRTU()
	}
	if err == nil && c.Others > 0 {
		// the request for the device under test
		var mine []modbus.BuilderRequest
		for _, r := range reqs {
			if r.ServerAddress == "dev:502" && r.UnitID == c.Unit {
				mine = append(mine, r)
			}
		}
		reqs = mine
		labels = append(labels, "builder-serves-several-devices")
	}
	if err != nil || len(reqs) != 1 {
		// how fields are batched is another property's subject; only single requests are compared here
		return harness.Result{Labels: append(labels, "not-one-request")}
	}
	got := reqs[0].Bytes()
	e := spec.Req{FC: c.FC, Unit: c.Unit, Addr: c.Addr, Qty: c.Qty}
	if c.Framing == spec.TCP && len(got) >= 2 {
		e.Tx = uint16(got[0])<<8 | uint16(got[1]) // the builder picks the transaction id
	}
	if lerr := spec.LegalRequest(e); lerr != nil {
		return harness.Fail("the builder produced a request for %d items at %d, illegal under the specification: %v", c.Qty, c.Addr, lerr)
	}
	want := spec.EncodeRequest(c.Framing, e)
	if !bytes.Equal(got, want) {
		return harness.Fail("request made by the builder for unit %d, %d items at address %d serialises to\n  %x\nthe specification prescribes\n  %x", c.Unit, c.Qty, c.Addr, got, want)
	}
	if inner := reqs[0].Request.Bytes(); !bytes.Equal(inner, want) {
		return harness.Fail("the packet request inside the builder's request serialises to %x, the builder's request to %x", inner, want)
	}
	for i := range got {
		got[i] ^= 0xEE // the returned slice is the caller's
	}
	if again := reqs[0].Bytes(); !bytes.Equal(again, want) {
		return harness.Fail("serialising the builder's request a second time gives %x, the first time %x", again, want)
	}
	return harness.Result{NonTrivial: true, Labels: labels}
}

func genBuilder(t *rapid.T) builderCase {
	c := builderCase{Framing: gen.Framing(t), FC: uint8(rapid.IntRange(1, 4).Draw(t, "fc")), Unit: rapid.Uint8().Draw(t, "unit")}
	limit := 125
	if c.FC <= 2 {
		limit = 2000
	}
	c.Qty = uint16(rapid.IntRange(1, limit).Draw(t, "qty"))
	if rapid.Bool().Draw(t, "small") {
		c.Qty = uint16(rapid.IntRange(1, 12).Draw(t, "qty_small"))
	}
	c.Addr = gen.U16(t, "addr", gen.HotAddr)
	if int(c.Addr)+int(c.Qty) > 65536 {
		c.Addr = uint16(65536 - int(c.Qty))
	}
	if rapid.IntRange(0, 2).Draw(t, "with_others") == 0 {
		c.Others = rapid.IntRange(1, 9).Draw(t, "others")
	}
	return c
}

var chkBuilder = harness.Define("builder-request-frames", genBuilder, runBuilder).Repeated(2)

// ---------------------------------------------------------------------------
// several write requests whose payloads are consecutive sub-slices of ONE caller buffer (a register image or coil pattern written in
// chunks): every sub-slice but the last has spare capacity - the following chunk. Each request serialises to the ADU of the arguments
// the caller passed, whatever was constructed or serialised before, and the caller's buffer is the caller's.

type sharedCase struct {
	Framing spec.Framing `json:"framing"`
	FC      uint8        `json:"fc"` // 15 | 16 | 23
	Unit    uint8        `json:"unit"`
	Addr    uint16       `json:"addr"`
	// Parts: chunk sizes in coils (fc15) or registers (fc16, fc23)
	Parts []int `json:"parts"`
	// Data: the whole image: packed coils (bit i = coil i) or register bytes
	Data spec.Hex `json:"data"`
	// ConstructFirst: all requests are constructed before the first is serialised (else construct, serialise, construct the next...)
	ConstructFirst bool `json:"construct_first"`
}

func runShared(c sharedCase) harness.Result {
	total := 0
	for _, n := range c.Parts {
		total += n
	}
	var bools, origBools []bool
	var buf, orig []byte
	if c.FC == 15 {
		bools = cat.CoilsOf(c.Data, total)
		origBools = append([]bool(nil), bools...)
	} else {
		buf = append(make([]byte, 0, 2*total), c.Data...)
		if len(buf) != 2*total {
			return harness.Result{Labels: []string{"harness:short-data"}}
		}
		orig = append([]byte(nil), buf...)
	}
	type item struct {
		q    packet.Request
		want []byte
	}
	var items []item
	construct := func(i, off, n int) (item, error) {
		tx := uint16(0x0100 + i)
		addr := c.Addr + uint16(off)
		var q packet.Request
		var err error
		var e spec.Req
		switch c.FC {
		case 15:
			q, err = cat.NewWriteCoilsRequest(c.Framing, c.Unit, tx, addr, bools[off:off+n])
			e = expected(spec.Req{FC: 15, Unit: c.Unit, Tx: tx, Addr: addr, Qty: uint16(n), Payload: spec.PackCoils(origBools[off : off+n])})
		case 16:
			r := spec.Req{FC: 16, Unit: c.Unit, Tx: tx, Addr: addr, Payload: buf[2*off : 2*(off+n)]}
			q, err = cat.NewRequest(c.Framing, r)
			r.Payload = orig[2*off : 2*(off+n)]
			e = expected(r)
		default:
			r := spec.Req{FC: 23, Unit: c.Unit, Tx: tx, Addr: addr, Qty: 3, WAddr: addr, Payload: buf[2*off : 2*(off+n)]}
			q, err = cat.NewRequest(c.Framing, r)
			r.Payload = orig[2*off : 2*(off+n)]
			e = expected(r)
		}
		if err != nil {
			return item{}, err
		}
		return item{q, spec.EncodeRequest(c.Framing, e)}, nil
	}
	check := func(i int, it item, when string) error {
		if got := it.q.Bytes(); !bytes.Equal(got, it.want) {
			return fmt.Errorf("chunk %d of %d (%d %s each taken from one caller buffer; %s): serialises to\n  %x\nthe ADU of the arguments passed is\n  %x", i+1, len(c.Parts), c.Parts[i], map[bool]string{true: "coils", false: "registers"}[c.FC == 15], when, got, it.want)
		}
		return nil
	}
	off := 0
	for i, n := range c.Parts {
		it, err := construct(i, off, n)
		if err != nil {
			return harness.Fail("constructor refused chunk %d (%d units): %v", i+1, n, err)
		}
		items = append(items, it)
		if !c.ConstructFirst {
			if err := check(i, it, "constructed and serialised after the chunks before it"); err != nil {
				return harness.Fail("%v", err)
			}
		}
		off += n
	}
	for round := 0; round < 2; round++ {
		for i, it := range items {
			if err := check(i, it, fmt.Sprintf("all constructed first, serialisation round %d", round+1)); err != nil {
				return harness.Fail("%v", err)
			}
		}
	}
	if c.FC == 15 {
		for i := range bools {
			if bools[i] != origBools[i] {
				return harness.Fail("after %d fc15 requests were built from consecutive sub-slices of one coil pattern, coil %d of the CALLER'S pattern has changed", len(c.Parts), i)
			}
		}
	} else if !bytes.Equal(buf, orig) {
		return harness.Fail("after %d fc%d requests were built from consecutive sub-slices of one register image, the CALLER'S image has changed:\n  %x\nwas\n  %x", len(c.Parts), c.FC, buf, orig)
	}
	labels := []string{fmt.Sprintf("fc%d", c.FC), c.Framing.String(), fmt.Sprintf("chunks:%d", len(c.Parts))}
	if c.FC == 15 && c.Parts[0]%8 != 0 {
		labels = append(labels, "first-chunk-ends-inside-a-byte")
	}
	return harness.Result{NonTrivial: len(c.Parts) >= 2, Labels: labels}
}

func genShared(t *rapid.T) sharedCase {
	c := sharedCase{Framing: gen.Framing(t), FC: rapid.SampledFrom([]uint8{15, 16, 23}).Draw(t, "fc"), Unit: rapid.Uint8().Draw(t, "unit"),
		Addr: uint16(rapid.IntRange(0, 50000).Draw(t, "addr")), ConstructFirst: rapid.Bool().Draw(t, "construct_first")}
	limit := map[uint8]int{15: 1968, 16: 123, 23: 121}[c.FC]
	k := rapid.IntRange(2, 4).Draw(t, "chunks")
	total := 0
	for i := 0; i < k; i++ {
		n := rapid.IntRange(1, limit).Draw(t, "n")
		if rapid.Bool().Draw(t, "small") {
			n = rapid.IntRange(1, 20).Draw(t, "n_small")
		}
		c.Parts = append(c.Parts, n)
		total += n
	}
	if c.FC == 15 {
		c.Data = gen.Payload(t, "pattern", (total+7)/8)
	} else {
		c.Data = gen.Payload(t, "image", 2*total)
	}
	return c
}

var chkShared = harness.Define("requests-from-one-caller-buffer", genShared, runShared).Repeated(2)

func TestSharedBuffer(t *testing.T) { chkShared.Rapid(t, harness.Pick(3000, 150000)) }

func TestBuilderRandom(t *testing.T) { chkBuilder.Rapid(t, harness.Pick(3000, 200000)) }

// TestBuilderFrames: every function and framing x hot unit ids x hot start addresses x every quantity up to the limits.
func TestBuilderFrames(t *testing.T) {
	idx := 0
	for fc := uint8(1); fc <= 4; fc++ {
		limit := 125
		if fc <= 2 {
			limit = 2000
		}
		for _, fr := range []spec.Framing{spec.TCP, spec.RTU} {
			for _, unit := range []uint8{0, 1, 6, 255} {
				for _, addr := range []int{0, 1, 2, 255, 256, 0x0600, -1} {
					idx++
					if !harness.Mine(idx) {
						continue
					}
					for q := 1; q <= limit; q++ {
						if fc <= 2 && q > 140 && q%97 != 0 && q < limit-2 {
							continue
						}
						a := addr
						if a < 0 {
							a = 65536 - q
						}
						if !chkBuilder.EvalFast(t, builderCase{Framing: fr, FC: fc, Unit: unit, Addr: uint16(a), Qty: uint16(q)}) {
							return
						}
					}
				}
			}
		}
	}
}
