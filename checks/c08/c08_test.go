// The library's go.mod says go 1.22: in a program whose main module says the same, timer channels are still buffered and Reset/Stop do
// not discard a tick that has fired (GODEBUG asynctimerchan=1). This module says go 1.23, so the check asks for the library's own setting.
//
//go:debug asynctimerchan=1
package c08

import (
	"bytes"
	"context"
	"errors"
	"fmt"
	"strings"
	"testing"
	"time"

	modbus "github.com/aldas/go-modbus-client"
	"pgregory.net/rapid"

	"verif/internal/cat"
	"verif/internal/cli"
	"verif/internal/device"
	"verif/internal/gen"
	"verif/internal/harness"
	"verif/internal/spec"
	"verif/internal/xport"
)

// (every case is written to disk before it runs: if the library kills the process - unbounded recursion, a fatal runtime error in a
// goroutine it started - the case that did it is the replay)
func TestMain(m *testing.M) {
	harness.EnableJournal()
	harness.Main(m)
}

func TestReplay(t *testing.T)  { harness.RunReplay(t) }
func TestRegress(t *testing.T) { harness.RunRegress(t) }

const kfFC17 = "fc17-tcp-truncated-reply-parsed"

// kfFC17RTU: an RTU Read Server ID reply cut short by the end of the stream whose remaining bytes happen to be CRC-consistent
const kfFC17RTU = "fc17-rtu-truncated-reply-crc-consistent"

func rtuCRCOK(b []byte) bool {
	if len(b) < 4 {
		return false
	}
	c := spec.RefCRC16(b[:len(b)-2])
	return b[len(b)-2] == byte(c) && b[len(b)-1] == byte(c>>8)
}

// Fault kinds.
var faults = []string{"stall", "eof", "eof-with-bytes", "ioerr", "ioerr-with-bytes", "ioerr-timeout-typed", "oversize", "oversize-frame", "write", "cancel-before", "cancel-in-read", "cancel-reply-continues", "deadline-before", "deadline-in-stall", "not-connected", "connect-failed", "nil-request"}

type faultCase struct {
	Kind    string   `json:"kind"`
	Req     spec.Req `json:"req"`
	DevSeed uint64   `json:"dev_seed"`
	ExcCode uint8    `json:"exc_code"`
	// Prefix: reply bytes delivered before the fault; PreCuts: cut positions inside the prefix
	Prefix  int    `json:"prefix"`
	PreCuts []int  `json:"pre_cuts"`
	Fault   string `json:"fault"`
	// Prior: kind of an earlier request call on the same client ("" none): success | stall | partial-stall | eof | ioerr
	Prior      string `json:"prior,omitempty"`
	PriorShape string `json:"prior_shape,omitempty"` // request of the earlier call: "" same | short | long
	// PriorRepeat: the earlier call is made this many times in a row (a run of identical outcomes, e.g. timeouts) before the judged call
	PriorRepeat int `json:"prior_repeat,omitempty"`
	// WithCause (cancel / deadline faults): the caller's context carries a cause of its own (see cli.Scenario)
	WithCause bool `json:"with_cause,omitempty"`
	// ExplicitParser: the client's configuration names the standard response parser explicitly (see cli.Scenario)
	ExplicitParser bool `json:"explicit_parser,omitempty"`
	// ZeroTimeout (serial kinds, fault stall): the client is built with WithSerialReadTimeout(0)
	ZeroTimeout bool `json:"zero_timeout,omitempty"`
	// Address: the form of the address given to Connect (network kinds; see cli.Scenario)
	Address string `json:"address,omitempty"`
	// FlushFails (kind serial-flush; faults ioerr*, oversize*): the port's Flush, which the serial client calls before it reports such a
	// fault, fails too. The call still ends with the retryable client error; which of the two causes it wraps is not judged.
	FlushFails bool `json:"flush_fails,omitempty"`
	// Over (fault oversize-frame): the transport delivers a structurally well-formed register reply (consistent byte count,
	// MBAP length / CRC) that is Over bytes longer than the largest legal ADU of the framing
	Over int `json:"over,omitempty"`
}

func flushFails(c faultCase) bool {
	if !c.FlushFails || c.Kind != cli.SerialFlush {
		return false
	}
	switch c.Fault {
	case "ioerr", "ioerr-with-bytes", "ioerr-timeout-typed", "oversize", "oversize-frame":
		return true
	}
	return false
}

// The texts of the library's exported error values as they are when the process starts: the cause an oversize reply or a call on an
// unconnected client is reported with.
var tooLongText, notConnectedText = modbus.ErrPacketTooLong.Error(), modbus.ErrClientNotConnected.Error()

// overFrame builds the reply of the oversize-frame fault.
func overFrame(f spec.Framing, r spec.Req, over int, seed uint64) []byte {
	fc := r.FC
	switch fc {
	case 1, 2, 3, 4, 23:
	default:
		fc = 3
	}
	overhead := 9
	if f == spec.RTU {
		overhead = 5
	}
	bc := spec.MaxADU(f) + over - overhead
	extra := 0
	if bc > 255 {
		extra, bc = bc-255, 255
	}
	fr := spec.EncodeResponse(f, spec.Resp{FC: fc, Unit: r.Unit, Tx: r.Tx, Data: harness.Bytes(seed, bc)})
	return append(fr, harness.Bytes(seed+1, extra)...)
}

type prep struct {
	sc       cli.Scenario
	reply    []byte
	faultIdx int // index of the fault event in the script (-1: not event based)
	affected bool
}

func prepare(c faultCase) (prep, error) {
	f := cli.FramingOf(c.Kind)
	q, err := cat.NewRequest(f, c.Req)
	if err != nil {
		return prep{}, err
	}
	dn := device.New(c.DevSeed)
	normal := dn.Answer(f, q.Bytes())
	reply := normal
	if c.ExcCode != 0 {
		d := device.New(c.DevSeed)
		d.ForceException = c.ExcCode
		reply = d.Answer(f, q.Bytes())
	}
	p := prep{reply: reply, faultIdx: -1}
	pre := c.Prefix
	if pre > len(reply) {
		pre = len(reply)
	}
	var ev []xport.Event
	stream := append([]byte(nil), reply...)
	withBytes := c.Fault == "eof-with-bytes" || c.Fault == "ioerr-with-bytes"
	lastChunk := 0
	chunks := []int{}
	if pre > 0 {
		chunks = gen.ChunksFromCuts(pre, c.PreCuts)
	}
	if withBytes && len(chunks) > 0 {
		lastChunk = chunks[len(chunks)-1]
		chunks = chunks[:len(chunks)-1]
	}
	for _, n := range chunks {
		ev = append(ev, xport.Event{Kind: "data", N: n})
	}
	sc := cli.Scenario{Kind: c.Kind, Req: c.Req, ReadTimeoutMs: 20}
	switch c.Fault {
	case "stall":
		p.faultIdx = len(ev) // the first idle read
	case "eof", "eof-with-bytes":
		p.faultIdx = len(ev)
		ev = append(ev, xport.Event{Kind: "eof", N: lastChunk})
	case "ioerr", "ioerr-with-bytes":
		p.faultIdx = len(ev)
		ev = append(ev, xport.Event{Kind: "ioerr", N: lastChunk})
	case "ioerr-timeout-typed":
		// a fatal I/O failure whose error type reports Timeout() == true (ETIMEDOUT and friends) without being the poll deadline
		p.faultIdx = len(ev)
		ev = append(ev, xport.Event{Kind: "ioerr-timeout", N: 0})
	case "oversize":
		p.faultIdx = len(ev)
		stream = append(stream[:pre:pre], bytes.Repeat([]byte{0x5A}, 400)...)
		ev = append(ev, xport.Event{Kind: "data", N: 400})
	case "oversize-frame":
		over := c.Over
		if over < 1 {
			over = 1
		}
		stream = overFrame(f, c.Req, over, c.DevSeed)
		// the first Prefix bytes arrive as generated, the rest of the frame in one more read
		p.faultIdx = len(ev)
		ev = append(ev, xport.Event{Kind: "data", N: len(stream) - pre})
	case "write":
		sc.WriteErr = true
	case "cancel-before":
		sc.CancelBefore = true
		sc.ReadTimeoutMs = 2000
	case "cancel-in-read":
		p.faultIdx = len(ev)
		ev = append(ev, xport.Event{Kind: "cancel"})
		sc.ReadTimeoutMs = 2000
	case "cancel-reply-continues":
		// every read of the port really blocks (7 ms each, as a serial port does while bytes trickle in); the caller gives up during one
		// of them, and the rest of the reply keeps arriving in the reads after it: whatever the client still reads, the call is over
		for i := range ev {
			if i >= len(ev)-3 {
				ev[i].Ms = 7
			}
		}
		p.faultIdx = len(ev)
		rest := len(stream) - pre
		k := min(3, rest-1) // (the read during which the caller gives up never completes the reply: at least one byte follows)
		ev = append(ev, xport.Event{Kind: "cancel", N: k, Ms: 7})
		rest -= k
		step := max(4, (rest+4)/5) // (at most five more reads)
		for ; rest > 0; rest -= k {
			k = min(step, rest)
			ev = append(ev, xport.Event{Kind: "data", N: k, Ms: 7})
		}
		sc.ReadTimeoutMs = 2000
	case "deadline-before":
		sc.DeadlineMs = -1
		sc.ReadTimeoutMs = 2000
	case "deadline-in-stall":
		// the transport stalls; the caller's deadline (5 ms) ends long before the client's own read timeout (3 s)
		p.faultIdx = len(ev)
		sc.DeadlineMs = 5
		sc.ReadTimeoutMs = 3000
	case "not-connected":
		sc.NotConnected = true
		sc.Again = true
	case "connect-failed":
		sc.Again = true
		// Connect was called and failed (odd prefix: the dial function returned its error together with a typed-nil connection)
		if cli.IsSerial(c.Kind) {
			sc.NotConnected = true
		} else if c.Prefix%2 == 1 {
			sc.ConnectFails = "typed-nil"
		} else {
			sc.ConnectFails = "nil"
		}
	case "nil-request":
		sc.NilRequest = true
		sc.Again = true
	}
	sc.Stream, sc.Events = stream, ev
	sc.ExplicitParser = c.ExplicitParser
	sc.ZeroReadTimeout = c.ZeroTimeout && cli.IsSerial(c.Kind) && c.Fault == "stall"
	sc.FlushFails = flushFails(c)
	sc.Address = c.Address
	sc.WithCause = c.WithCause
	sc.Prior = c.Prior
	sc.PriorReq = cli.PriorShapeReq(c.PriorShape)
	sc.PriorRepeat = c.PriorRepeat
	if (c.Prior == "stall" || c.Prior == "partial-stall") && sc.ReadTimeoutMs > 100 {
		sc.Prior = "eof" // keep the earlier call short when this case needs a long client timeout
	}
	p.sc = sc
	if p.faultIdx >= 0 {
		E, known := cli.LibExpected(f, c.Req, len(normal))
		if known {
			st := cli.Model(c.Kind, stream, ev, E)
			// the client stops (early) before it ever reaches the fault event
			if !st.Timeout && st.EventsUsed <= p.faultIdx {
				p.affected = true
			}
			if c.Fault == "cancel-reply-continues" {
				// (where a listed expected-length finding applies the client may take the reply for complete at one of these reads:
				// this fault is judged for the other request types only)
				p.affected = true
			}
			if c.Fault == "oversize" && !st.Timeout && st.EventsUsed == p.faultIdx+1 && false {
				p.affected = true
			}
		}
	}
	return p, nil
}

func judge(c faultCase, p prep, o cli.Outcome) harness.Result {
	labels := []string{"kind:" + c.Kind, "fault:" + c.Fault, fmt.Sprintf("fc%d", c.Req.FC)}
	if c.Prior != "" {
		labels = append(labels, "prior:"+c.Prior)
		if c.PriorRepeat >= 6 {
			labels = append(labels, "prior-run>=6-calls")
		} else if c.PriorRepeat >= 2 {
			labels = append(labels, "prior-run:2-5-calls")
		}
		if c.PriorShape != "" {
			labels = append(labels, "prior-request:"+c.PriorShape)
		}
	}
	if c.ExcCode != 0 {
		labels = append(labels, "exception-reply")
	}
	inside := c.Prefix > 0 && c.Prefix < len(p.reply)
	if inside {
		labels = append(labels, "fault-inside-reply")
	}
	if o.Panic != nil {
		return harness.Fail("request call panicked: %v", o.Panic)
	}
	if o.PriorHung {
		return harness.Fail("an earlier request call (%s) on the same client did not return within %v", c.Prior, cli.HangCeiling)
	}
	if msg := o.PriorIntact(); msg != "" {
		return harness.Fail("%s (fault %s)", msg, c.Fault)
	}
	if o.Hung {
		return harness.Fail("request call did not return within %v (fault %s after %d reply bytes, earlier call on this client: %q)", cli.HangCeiling, c.Fault, c.Prefix, c.Prior)
	}
	desc := fmt.Sprintf("fault %q after %d of %d reply bytes (%s fc%d): ", c.Fault, c.Prefix, len(p.reply), c.Kind, c.Req.FC)
	// the exported error values are what every client reports oversize replies and unconnected clients with: a call does not change them
	if a, b := modbus.ErrPacketTooLong.Error(), modbus.ErrClientNotConnected.Error(); a != tooLongText || b != notConnectedText {
		return harness.Fail(desc+"after the call the exported error values read ErrPacketTooLong=%q ErrClientNotConnected=%q; when the process started they read %q and %q", a, b, tooLongText, notConnectedText)
	}
	if flushFails(c) {
		labels = append(labels, "flush-fails-too")
		if p.affected {
			return harness.Result{Excluded: cli.KeyExpectedLen, Labels: append(labels, "known:expected-length")}
		}
		var ce *modbus.ClientError
		switch {
		case o.Err == nil:
			return harness.Fail(desc + "(and the port's Flush fails as well) request call reported success")
		case !cat.IsNilValue(o.Resp):
			return harness.Fail(desc+"(and the port's Flush fails as well) error %v together with a response", o.Err)
		case !errors.As(o.Err, &ce):
			return harness.Fail(desc+"(and the port's Flush fails as well) not reported as *ClientError: %T %v", o.Err, o.Err)
		}
		return harness.Result{NonTrivial: true, Labels: labels}
	}
	if p.affected {
		// open expected-length finding: the read loop stops before the fault point; still no panic/hang, and (except for the
		// fc17 finding, which lists it) no success on the truncated frame
		if o.Err == nil && c.Req.FC != 17 {
			return harness.Fail(desc+"read loop stopped early (known expected-length finding) but the call SUCCEEDED on the truncated reply: %x", respBytes(o))
		}
		return harness.Result{Excluded: cli.KeyExpectedLen, Labels: append(labels, "known:expected-length")}
	}
	if o.Err == nil {
		if c.Kind == cli.TCP && c.Req.FC == 17 && c.ExcCode == 0 && (c.Fault == "eof" || c.Fault == "eof-with-bytes") && c.Prefix >= 11 && harness.OpenFinding(kfFC17) {
			// listed finding: exactly this call site / fault; any other success is still a violation
			return harness.Result{Excluded: kfFC17, Labels: append(labels, "known:"+kfFC17)}
		}
		if cli.FramingOf(c.Kind) == spec.RTU && c.Req.FC == 17 && c.ExcCode == 0 && harness.OpenFinding(kfFC17RTU) {
			// listed finding: the bytes the client got are a proper prefix of the reply that is itself CRC-consistent, and the FC17 layout
			// has no length redundancy that could expose the truncation; any other success is still a violation
			if got := o.Reads; len(got) > 0 {
				var all []byte
				for _, r := range got {
					all = append(all, r.Data...)
				}
				if len(all) < len(p.reply) && bytes.Equal(all, p.reply[:len(all)]) && rtuCRCOK(all) && bytes.Equal(respBytes(o), all) {
					return harness.Result{Excluded: kfFC17RTU, Labels: append(labels, "known:"+kfFC17RTU)}
				}
			}
		}
		return harness.Fail(desc+"request call reported success (%T %x)", o.Resp, respBytes(o))
	}
	if !cat.IsNilValue(o.Resp) {
		return harness.Fail(desc+"error %v together with a response", o.Err)
	}
	var ce *modbus.ClientError
	isCE := errors.As(o.Err, &ce)
	if rt := time.Duration(p.sc.ReadTimeoutMs) * time.Millisecond; isCE && rt > 0 && o.Elapsed >= rt && ce.Err != nil && ce.Err.Error() == "total read timeout exceeded" {
		switch c.Fault {
		case "ioerr", "ioerr-with-bytes", "ioerr-timeout-typed", "oversize", "oversize-frame":
			// the machine was so slow that the client's own total read timeout (tens of milliseconds) ran out before it got to the read
			// that carries the fault: a classified error in bounded time all the same, and nothing can be said about the fault
			return harness.Result{Labels: append(labels, "client-timed-out-before-it-saw-the-fault")}
		}
	}
	switch c.Fault {
	case "stall":
		if !isCE {
			return harness.Fail(desc+"timeout not reported as *ClientError: %T %v", o.Err, o.Err)
		}
		if o.Elapsed > 5*time.Second {
			return harness.Fail(desc+"took %v with a 20 ms read timeout", o.Elapsed)
		}
	case "eof", "eof-with-bytes":
		// only an error is required
	case "ioerr", "ioerr-with-bytes":
		if !isCE || !errors.Is(o.Err, xport.ErrIO) {
			return harness.Fail(desc+"I/O failure not reported as *ClientError wrapping the cause: %T %v", o.Err, o.Err)
		}
	case "ioerr-timeout-typed":
		if !isCE || !errors.Is(o.Err, xport.ErrIOTimeout) {
			return harness.Fail(desc+"fatal I/O failure (a net.Error with Timeout()==true that is not the read deadline) not reported as *ClientError wrapping the cause: %T %v", o.Err, o.Err)
		}
	case "oversize":
		if !isCE || !errors.Is(o.Err, &modbus.ErrPacketTooLong) {
			return harness.Fail(desc+"oversize reply not reported as ErrPacketTooLong: %T %v", o.Err, o.Err)
		}
	case "oversize-frame":
		// success was excluded above; the too-long classification is required once the client has taken more than a frame can hold
		labels = append(labels, fmt.Sprintf("over-by:%d", min(c.Over, 5)))
		if o.Consumed > spec.MaxADU(cli.FramingOf(c.Kind)) {
			labels = append(labels, "oversize-frame-consumed")
			if !isCE || !errors.Is(o.Err, &modbus.ErrPacketTooLong) {
				return harness.Fail(desc+"client took %d bytes, more than a %s frame can hold, but reported %T %v instead of ErrPacketTooLong", o.Consumed, cli.FramingOf(c.Kind), o.Err, o.Err)
			}
		}
	case "write":
		if !isCE || !errors.Is(o.Err, xport.ErrWrite) {
			return harness.Fail(desc+"write failure not reported as *ClientError wrapping the cause: %T %v", o.Err, o.Err)
		}
		if len(o.Reads) != 0 {
			return harness.Fail(desc + "client read from the transport after a failed write")
		}
	case "cancel-before", "cancel-in-read", "cancel-reply-continues":
		if !errors.Is(o.Err, context.Canceled) {
			return harness.Fail(desc+"cancellation not reported as the context's error: %T %v", o.Err, o.Err)
		}
		if isCE {
			return harness.Fail(desc+"cancellation reported as the retryable client error (%T wrapping %v) instead of the context's error: a caller that retries client errors would retry a call it has cancelled", o.Err, ce.Err)
		}
		if o.Elapsed > 1500*time.Millisecond {
			return harness.Fail(desc+"cancelled call took %v", o.Elapsed)
		}
	case "deadline-before", "deadline-in-stall":
		if !errors.Is(o.Err, context.DeadlineExceeded) {
			return harness.Fail(desc+"expiry of the caller's context deadline not reported as the context's error: %T %v", o.Err, o.Err)
		}
		if isCE {
			return harness.Fail(desc+"expiry of the caller's context deadline reported as the retryable client error (%T wrapping %v) instead of the context's error", o.Err, ce.Err)
		}
		if o.Elapsed > 2500*time.Millisecond {
			return harness.Fail(desc+"call with an expired context deadline took %v", o.Elapsed)
		}
	case "not-connected", "connect-failed":
		if len(o.Writes) != 0 || len(o.Reads) != 0 {
			return harness.Fail(desc + "unconnected client touched a transport")
		}
		if !cli.IsSerial(c.Kind) && !errors.Is(o.Err, &modbus.ErrClientNotConnected) {
			return harness.Fail(desc+"error is not ErrClientNotConnected: %T %v", o.Err, o.Err)
		}
		if o.Elapsed > time.Second {
			return harness.Fail(desc+"did not fail immediately (%v)", o.Elapsed)
		}
		if r, bad := judgeAgain(desc, o); bad {
			return r
		}
	case "nil-request":
		if len(o.Writes) != 0 || len(o.Reads) != 0 {
			return harness.Fail(desc + "nil request caused transport I/O")
		}
		if o.Elapsed > time.Second {
			return harness.Fail(desc+"did not fail immediately (%v)", o.Elapsed)
		}
		if r, bad := judgeAgain(desc, o); bad {
			return r
		}
	}
	return harness.Result{NonTrivial: inside || c.Fault == "cancel-in-read" || c.Fault == "cancel-reply-continues" || c.Fault == "deadline-in-stall", Labels: labels}
}

// judgeAgain: the same call made once more on the same client object fails immediately as well - an immediate failure leaves nothing
// behind that the next call could wait for.
func judgeAgain(desc string, o cli.Outcome) (harness.Result, bool) {
	switch {
	case o.AgainHung:
		return harness.Fail(desc+"the same call made once more on the same client did not return within %v", cli.HangCeiling), true
	case o.AgainDone && o.AgainErr == nil:
		return harness.Fail(desc + "the same call made once more on the same client reported success"), true
	case o.AgainDone && o.AgainElapsed > time.Second:
		return harness.Fail(desc+"the same call made once more on the same client did not fail immediately (%v)", o.AgainElapsed), true
	}
	return harness.Result{}, false
}

func respBytes(o cli.Outcome) []byte {
	if cat.IsNilValue(o.Resp) {
		return nil
	}
	return o.Resp.Bytes()
}

func runFault(c faultCase) harness.Result {
	p, err := prepare(c)
	if err != nil {
		return harness.Fail("harness: %v", err)
	}
	return judge(c, p, cli.Run(p.sc))
}

func replyLen(c faultCase) int {
	p, err := prepare(faultCase{Kind: c.Kind, Req: c.Req, DevSeed: c.DevSeed, ExcCode: c.ExcCode, Fault: "stall"})
	if err != nil {
		panic(err)
	}
	return len(p.reply)
}

func genFault(t *rapid.T, kinds []string) faultCase {
	c := faultCase{Kind: rapid.SampledFrom(kinds).Draw(t, "kind"), DevSeed: rapid.Uint64().Draw(t, "dev_seed")}
	fc := gen.FC(t)
	c.Req = gen.LegalReq(t, fc, true)
	if fc == 23 && c.Req.Qty > 124 {
		c.Req.Qty = 124
	}
	if rapid.IntRange(0, 5).Draw(t, "exception") == 0 {
		c.ExcCode = rapid.SampledFrom([]uint8{1, 2, 3, 4, 11}).Draw(t, "exc_code")
	}
	c.Fault = rapid.SampledFrom(faults).Draw(t, "fault")
	c.ExplicitParser = !cli.IsSerial(c.Kind) && rapid.IntRange(0, 3).Draw(t, "explicit_parser") == 0
	c.ZeroTimeout = cli.IsSerial(c.Kind) && c.Fault == "stall" && rapid.IntRange(0, 2).Draw(t, "zero_timeout") == 0
	c.FlushFails = c.Kind == cli.SerialFlush && rapid.IntRange(0, 2).Draw(t, "flush_fails") == 0
	c.FlushFails = flushFails(c)
	if !cli.IsSerial(c.Kind) {
		c.Address = rapid.SampledFrom(cli.Addresses).Draw(t, "address")
	}
	if strings.HasPrefix(c.Fault, "cancel") || strings.HasPrefix(c.Fault, "deadline") {
		c.WithCause = rapid.Bool().Draw(t, "with_cause")
	}
	if c.Fault == "oversize-frame" {
		c.Over = rapid.SampledFrom([]int{1, 1, 2, 3, 4, 4, 5, 6, 9, 10, 11, 12}).Draw(t, "over")
	}
	L := replyLen(c)
	// faults happen strictly before the reply is complete
	c.Prefix = rapid.IntRange(0, L-1).Draw(t, "prefix")
	if rapid.Bool().Draw(t, "prefix_hot") {
		c.Prefix = rapid.SampledFrom([]int{0, 1, 2, 4, 5, 8, 9, L - 1, L - 2, L - 3}).Draw(t, "prefix_h")
		if c.Prefix < 0 || c.Prefix > L-1 {
			c.Prefix = L - 1
		}
	}
	if c.Fault != "not-connected" && c.Fault != "connect-failed" && c.Fault != "nil-request" && rapid.IntRange(0, 2).Draw(t, "with_prior") == 0 {
		c.Prior = rapid.SampledFrom([]string{"success", "stall", "partial-stall", "eof", "ioerr", "nil-request"}).Draw(t, "prior")
		c.PriorShape = rapid.SampledFrom(cli.PriorShapes).Draw(t, "prior_shape")
		if c.Prior != "nil-request" && rapid.IntRange(0, 2).Draw(t, "prior_run") == 0 {
			c.PriorRepeat = rapid.SampledFrom([]int{2, 3, 5, 6, 7, 8, 9, 12}).Draw(t, "prior_repeat")
		}
	}
	if c.Prefix > 1 {
		k := rapid.IntRange(0, 3).Draw(t, "ncuts")
		for i := 0; i < k; i++ {
			c.PreCuts = append(c.PreCuts, rapid.IntRange(1, c.Prefix-1).Draw(t, "cut"))
		}
	}
	return c
}

var chkFault = harness.Define("transport-fault", func(t *rapid.T) faultCase { return genFault(t, []string{cli.TCP, cli.RTUNet}) }, runFault)

type batchCase struct {
	Cases []faultCase `json:"cases"`
}

var chkSerial = harness.Define("transport-fault-serial-batch",
	func(t *rapid.T) batchCase {
		var b batchCase
		for i := 0; i < harness.Pick(32, 64); i++ {
			b.Cases = append(b.Cases, genFault(t, []string{cli.Serial, cli.SerialFlush}))
		}
		return b
	},
	func(b batchCase) harness.Result {
		ps := make([]prep, len(b.Cases))
		scs := make([]cli.Scenario, len(b.Cases))
		for i, c := range b.Cases {
			p, err := prepare(c)
			if err != nil {
				return harness.Fail("harness: %v", err)
			}
			ps[i], scs[i] = p, p.sc
		}
		outs := cli.RunMany(scs)
		out := harness.Result{NonTrivial: true, Weight: int64(len(b.Cases))}
		seen := map[string]bool{}
		for i, c := range b.Cases {
			r := judge(c, ps[i], outs[i])
			if r.Err != nil {
				return harness.Fail("serial scenario %d (%+v): %v", i, c, r.Err)
			}
			for _, l := range r.Labels {
				if !seen[l] {
					seen[l] = true
					out.Labels = append(out.Labels, l)
				}
			}
		}
		return out
	})

func TestFindings(t *testing.T) {
	harness.Probe(t, cli.KeyExpectedLen, func(fd harness.Finding) (bool, string) {
		kind := cli.TCP
		if fd.Params["framing"] == "rtu" {
			kind = cli.RTUNet
		}
		var fc uint8
		fmt.Sscanf(fd.Params["fc"], "%d", &fc)
		c := faultCase{Kind: kind, Req: sized(fc, 0), DevSeed: 42, Fault: "stall"}
		L := replyLen(c)
		E, known := cli.LibExpected(cli.FramingOf(kind), c.Req, L)
		if !known || E >= L || E < 1 {
			return false, ""
		}
		c.Prefix = E
		p, err := prepare(c)
		if err != nil || !p.affected {
			return false, ""
		}
		o := cli.Run(p.sc)
		var ce *modbus.ClientError
		if o.Err != nil && !errors.As(o.Err, &ce) {
			return true, fmt.Sprintf("stall after %d of %d reply bytes is reported as %q instead of a *ClientError timeout", E, L, o.Err)
		}
		return false, ""
	})
	harness.Probe(t, kfFC17RTU, func(fd harness.Finding) (bool, string) {
		// search the device seeds for a reply whose truncation by one byte is CRC-consistent (about 1 in 256)
		for seed := uint64(0); seed < 20000; seed++ {
			c := faultCase{Kind: cli.RTUNet, Req: spec.Req{FC: 17, Unit: 1}, DevSeed: seed, Fault: "eof-with-bytes"}
			pr, err := prepare(c)
			if err != nil {
				return false, ""
			}
			if !rtuCRCOK(pr.reply[:len(pr.reply)-1]) {
				continue
			}
			c.Prefix = len(pr.reply) - 1
			pr, _ = prepare(c)
			o := cli.Run(pr.sc)
			if o.Err == nil {
				return true, fmt.Sprintf("device seed %d: reply %x truncated to %d bytes by EOF was returned as %x", seed, pr.reply, c.Prefix, respBytes(o))
			}
			return false, ""
		}
		return false, ""
	})
	harness.Probe(t, kfFC17, func(fd harness.Finding) (bool, string) {
		c := faultCase{Kind: cli.TCP, Req: spec.Req{FC: 17, Unit: 1, Tx: 2}, DevSeed: 42, Fault: "eof-with-bytes"}
		c.Prefix = replyLen(c) - 1
		p, err := prepare(c)
		if err != nil {
			return false, ""
		}
		o := cli.Run(p.sc)
		if o.Err == nil {
			return true, fmt.Sprintf("reply %x truncated to %d bytes by EOF was returned as %x", p.reply, c.Prefix, respBytes(o))
		}
		return false, ""
	})
}

// silenceCase: the transport delivers the WHOLE reply - normal, or an exception with any code, among them 05 Acknowledge and 06 Server
// Device Busy, which announce that something else may follow - and then nothing more, ever (the largest "prefix of the reply" after
// which a transport can stall). The call must still end in bounded time; a normal reply may be returned, an exception reply must
// end it with an error.
type silenceCase struct {
	Kind    string   `json:"kind"`
	Req     spec.Req `json:"req"`
	DevSeed uint64   `json:"dev_seed"`
	ExcCode uint8    `json:"exc_code"`
	Cuts    []int    `json:"cuts,omitempty"`
	// Deadline: the caller's context carries a (far) deadline of its own
	Deadline bool `json:"deadline,omitempty"`
}

func runSilence(c silenceCase) harness.Result {
	f := cli.FramingOf(c.Kind)
	q, err := cat.NewRequest(f, c.Req)
	if err != nil {
		return harness.Fail("harness: %v", err)
	}
	d := device.New(c.DevSeed)
	d.ForceException = c.ExcCode
	reply := d.Answer(f, q.Bytes())
	var ev []xport.Event
	for _, n := range gen.ChunksFromCuts(len(reply), c.Cuts) {
		ev = append(ev, xport.Event{Kind: "data", N: n})
	}
	sc := cli.Scenario{Kind: c.Kind, Req: c.Req, Stream: reply, Events: ev, ReadTimeoutMs: 20}
	if c.Deadline {
		sc.DeadlineMs = 60000
	}
	o := cli.Run(sc)
	labels := []string{"kind:" + c.Kind, fmt.Sprintf("fc%d", c.Req.FC), "whole-reply-then-silence"}
	if c.ExcCode != 0 {
		labels = append(labels, fmt.Sprintf("exception-code:%d", c.ExcCode))
	}
	if o.Panic != nil {
		return harness.Fail("request call panicked: %v", o.Panic)
	}
	if o.Hung {
		return harness.Fail("request call did not return within %v: the transport delivered the whole reply %x (chunks %v) and then stayed silent", cli.HangCeiling, reply, gen.ChunksFromCuts(len(reply), c.Cuts))
	}
	if o.Err == nil {
		if c.ExcCode != 0 {
			return harness.Fail("exception reply %x was reported as success: %x", reply, respBytes(o))
		}
		if !bytes.Equal(respBytes(o), reply) {
			return harness.Fail("reply %x followed by silence: the call returned %x", reply, respBytes(o))
		}
	}
	return harness.Result{NonTrivial: true, Labels: labels}
}

var chkSilence = harness.Define("whole-reply-then-silence",
	func(t *rapid.T) silenceCase {
		c := silenceCase{Kind: rapid.SampledFrom([]string{cli.TCP, cli.RTUNet, cli.TCP, cli.RTUNet, cli.TCP, cli.RTUNet, cli.Serial, cli.SerialFlush}).Draw(t, "kind"), DevSeed: rapid.Uint64().Draw(t, "dev_seed")}
		c.Req = gen.LegalReq(t, gen.FC(t), true)
		if c.Req.FC == 23 && c.Req.Qty > 124 {
			c.Req.Qty = 124
		}
		if rapid.Bool().Draw(t, "exception") {
			c.ExcCode = rapid.SampledFrom([]uint8{1, 2, 3, 4, 5, 5, 6, 6, 7, 8, 10, 11}).Draw(t, "exc_code")
			if rapid.IntRange(0, 3).Draw(t, "any_code") == 0 {
				c.ExcCode = rapid.Uint8Range(1, 255).Draw(t, "exc_code_any")
			}
		}
		if c.Req.FC != 17 && rapid.Bool().Draw(t, "cut") {
			// (not for Read Server ID: where a read boundary makes the client stop early, the listed FC17 findings apply)
			c.Cuts = []int{rapid.IntRange(1, 9).Draw(t, "cut_at")}
		}
		c.Deadline = rapid.IntRange(0, 3).Draw(t, "deadline") == 0
		return c
	}, runSilence)

// agedFaultCase: the same faults on a client that has been in use for a long time: one Client value makes N calls; most are answered
// normally (and must succeed), every Every-th call meets one of the faults below and is judged like any other fault case - the
// 3rd call like the 5940th.
type agedFaultCase struct {
	Kind   string      `json:"kind"`
	N      int         `json:"n"`
	Every  int         `json:"every"`
	Seed   uint64      `json:"seed"`
	MaxQty int         `json:"max_qty"`
	Faults []faultCase `json:"faults"`
}

// immediateFaults end a call without any waiting.
var immediateFaults = []string{"eof", "eof-with-bytes", "ioerr", "ioerr-with-bytes", "ioerr-timeout-typed", "oversize", "oversize-frame", "oversize", "oversize-frame"}

func runAgedFault(c agedFaultCase) harness.Result {
	if len(c.Faults) == 0 || c.Every < 2 {
		return harness.Result{}
	}
	f := cli.FramingOf(c.Kind)
	sess, err := cli.NewSession(c.Kind, 300, false)
	if err != nil {
		return harness.Fail("harness: %v", err)
	}
	defer sess.Close()
	dev := device.New(c.Seed)
	s := c.Seed
	probes := 0
	for i := 0; i < c.N; i++ {
		where := fmt.Sprintf("call #%d on one long-lived %s client", i+1, c.Kind)
		if i%c.Every == c.Every-1 {
			fc := c.Faults[probes%len(c.Faults)]
			probes++
			fc.Kind = c.Kind
			p, err := prepare(fc)
			if err != nil {
				return harness.Fail("harness: %v", err)
			}
			o := sess.Call(fc.Req, p.sc.Stream, p.sc.Events)
			if r := judge(fc, p, o); r.Err != nil {
				return harness.Fail("%s: %v; this call: %+v", where, r.Err, fc)
			}
			continue
		}
		v := harness.SplitMix64(&s)
		r := spec.Req{FC: 3, Unit: uint8(v >> 8), Tx: uint16(v >> 16), Addr: uint16(v>>32) & 0x7FFF, Qty: 1 + uint16((v>>48)%uint64(c.MaxQty))}
		frame := dev.Answer(f, spec.EncodeRequest(f, r))
		o := sess.Call(r, frame, []xport.Event{{Kind: "data", N: len(frame)}, {Kind: "ioerr"}})
		if o.Panic != nil || o.Hung || o.Err != nil || !bytes.Equal(respBytes(o), frame) {
			return harness.Fail("%s: ordinary exchange (reply %x in one read): panic=%v hung=%v err=%v response=%x", where, frame, o.Panic, o.Hung, o.Err, respBytes(o))
		}
	}
	return harness.Result{NonTrivial: probes >= 10, Labels: []string{"kind:" + c.Kind, fmt.Sprintf("calls-on-one-client:%d", c.N)}, Weight: int64(probes)}
}

var chkAgedFault = harness.Define("transport-fault-long-lived-client",
	func(t *rapid.T) agedFaultCase {
		c := agedFaultCase{Kind: rapid.SampledFrom([]string{cli.TCP, cli.RTUNet}).Draw(t, "kind"), N: rapid.SampledFrom([]int{600, 6500, 13000}).Draw(t, "n"),
			Every: rapid.SampledFrom([]int{2, 3, 5, 7}).Draw(t, "every"), Seed: rapid.Uint64().Draw(t, "seed"), MaxQty: rapid.SampledFrom([]int{1, 11, 125}).Draw(t, "max_qty")}
		k := rapid.IntRange(2, 12).Draw(t, "nfaults")
		for len(c.Faults) < k {
			fc := genFault(t, []string{c.Kind})
			fc.Fault = rapid.SampledFrom(immediateFaults).Draw(t, "immediate_fault")
			fc.Prior, fc.PriorShape, fc.PriorRepeat, fc.Address, fc.WithCause = "", "", 0, "", false
			if fc.Fault == "oversize-frame" && fc.Over == 0 {
				fc.Over = rapid.SampledFrom([]int{1, 2, 5, 12}).Draw(t, "over")
			}
			c.Faults = append(c.Faults, fc)
		}
		return c
	}, runAgedFault)

// pairCase: two clients in one program are independent: while a call on client A waits for a device that has gone silent (it ends
// by A's read timeout, 1.2 s here), a call on ANOTHER client B that must fail at once - B is not connected, gets a nil request, or
// an already cancelled context - does so at once and not when A's call ends.
type pairCase struct {
	KindA  string `json:"kind_a"`
	KindB  string `json:"kind_b"`
	FaultB string `json:"fault_b"` // not-connected | nil-request | cancel-before
	Seed   uint64 `json:"seed"`
}

func runPair(c pairCase) harness.Result {
	reqA := spec.Req{FC: 3, Unit: 1, Tx: 1, Addr: 10, Qty: 2}
	doneA := make(chan cli.Outcome, 1)
	go func() { doneA <- cli.Run(cli.Scenario{Kind: c.KindA, Req: reqA, ReadTimeoutMs: 1200}) }()
	time.Sleep(100 * time.Millisecond) // A has written its request and is waiting
	scB := cli.Scenario{Kind: c.KindB, Req: spec.Req{FC: 4, Unit: 2, Tx: 2, Addr: 20, Qty: 1}, ReadTimeoutMs: 1200}
	switch c.FaultB {
	case "not-connected":
		scB.NotConnected = true
	case "nil-request":
		scB.NilRequest = true
	default:
		scB.CancelBefore = true
	}
	startB := time.Now()
	oB := cli.Run(scB)
	tookB := time.Since(startB)
	oA := <-doneA
	if oA.Hung || oA.Panic != nil || oB.Hung || oB.Panic != nil {
		return harness.Fail("hung/panic: A hung=%v panic=%v, B hung=%v panic=%v", oA.Hung, oA.Panic, oB.Hung, oB.Panic)
	}
	if oB.Err == nil {
		return harness.Fail("client B (%s, %s) reported success", c.KindB, c.FaultB)
	}
	if oA.Elapsed < 900*time.Millisecond {
		// A ended early for some reason: nothing can be said about B having waited for it
		return harness.Result{Labels: []string{"first-client-ended-early"}}
	}
	if tookB > 600*time.Millisecond {
		return harness.Fail("a call on client B (%s, %s: must fail at once) took %v while a call on another client A (%s) was waiting %v for its silent device: the clients are not independent", c.KindB, c.FaultB, tookB, c.KindA, oA.Elapsed)
	}
	return harness.Result{NonTrivial: true, Labels: []string{"two-clients", "b:" + c.FaultB}}
}

var chkPair = harness.Define("independent-clients",
	func(t *rapid.T) pairCase {
		kinds := []string{cli.TCP, cli.RTUNet, cli.Serial}
		return pairCase{KindA: rapid.SampledFrom(kinds).Draw(t, "kind_a"), KindB: rapid.SampledFrom(kinds).Draw(t, "kind_b"),
			FaultB: rapid.SampledFrom([]string{"not-connected", "nil-request", "cancel-before"}).Draw(t, "fault_b"), Seed: rapid.Uint64().Draw(t, "seed")}
	}, runPair)

func TestIndependentClients(t *testing.T) { chkPair.Rapid(t, harness.Pick(2, 12)) }

func TestRandom(t *testing.T) {
	chkFault.Rapid(t, harness.Pick(1500, 40000))
	chkSerial.Rapid(t, harness.Pick(4, 80))
	chkSilence.Rapid(t, harness.Pick(400, 8000))
	chkAgedFault.Rapid(t, harness.Pick(6, 60))
}

// TestPrefixSweep: every prefix x every fault kind for every function x framing x reply sizes (network clients).
func TestPrefixSweep(t *testing.T) {
	idx := 0
	n := int64(0)
	sizes := harness.Pick(1, 2)
	for _, kind := range []string{cli.TCP, cli.RTUNet} {
		for _, fc := range spec.Functions {
			for size := 0; size < sizes; size++ {
				for _, exc := range []uint8{0, 3} {
					if exc != 0 && size > 0 {
						continue
					}
					r := sized(fc, size)
					base := faultCase{Kind: kind, Req: r, DevSeed: uint64(fc) + harness.Seed(), ExcCode: exc}
					L := replyLen(base)
					stride := 1
					if !harness.Thorough() && L > 24 {
						stride = L / 12
					}
					for _, fault := range faults {
						prefixes := []int{0}
						switch fault {
						case "write", "cancel-before", "deadline-before", "not-connected", "nil-request":
						case "connect-failed":
							prefixes = []int{0, 1}
						default:
							prefixes = nil
							for p := 0; p < L; p += stride {
								prefixes = append(prefixes, p)
							}
							if prefixes[len(prefixes)-1] != L-1 {
								prefixes = append(prefixes, L-1)
							}
						}
						for _, p := range prefixes {
							idx++
							if !harness.Mine(idx) {
								continue
							}
							c := base
							c.Fault, c.Prefix = fault, p
							c.WithCause = idx%2 == 1 && (strings.HasPrefix(fault, "cancel") || strings.HasPrefix(fault, "deadline"))
							if fault == "oversize-frame" {
								c.Over = 1 + idx%12
							}
							if p > 2 && idx%2 == 0 {
								c.PreCuts = []int{p / 2}
							}
							n++
							if !chkFault.EvalFast(t, c) {
								return
							}
						}
					}
				}
			}
		}
	}
	if harness.Thorough() {
		harness.Exhaustive("transport-fault", "network clients: every prefix length x every fault kind x every function x {tcp,rtu} x 2 reply sizes (+ exception reply)", n)
	}
}

func sized(fc uint8, size int) spec.Req {
	r := spec.Req{FC: fc, Unit: 17, Tx: 0x1234, Addr: 100}
	switch fc {
	case 1, 2:
		r.Qty = []uint16{11, 2000}[size]
	case 3, 4:
		r.Qty = []uint16{2, 125}[size]
	case 5:
		r.Value = 0xFF00
	case 6:
		r.Value = 0xBEEF
	case 15:
		r.Qty = 10
		r.Payload, r.ByteCount = []byte{0x55, 0x01}, 2
	case 16:
		r.Qty = 2
		r.Payload, r.ByteCount = []byte{1, 2, 3, 4}, 4
	case 23:
		r.Qty = []uint16{2, 124}[size]
		r.WAddr, r.WQty = 7, 1
		r.Payload, r.ByteCount = []byte{9, 9}, 2
	}
	return r
}
