package c03

import (
	"bytes"
	"errors"
	"fmt"
	"reflect"
	"testing"

	"github.com/aldas/go-modbus-client/packet"
	"pgregory.net/rapid"

	"verif/internal/cat"
	"verif/internal/gen"
	"verif/internal/harness"
	"verif/internal/spec"
)

func TestMain(m *testing.M) { harness.Main(m) }

func TestReplay(t *testing.T)  { harness.RunReplay(t) }
func TestRegress(t *testing.T) { harness.RunRegress(t) }

// ---------------------------------------------------------------------------
// 1. the function itself

// transCase: all 256 one-byte extensions of a two-byte prefix.
type transCase struct {
	Prefix uint16 `json:"prefix"`
}

var seenState [65536]bool

var chkTrans = harness.Define("crc-transitions",
	func(t *rapid.T) transCase { return transCase{Prefix: rapid.Uint16().Draw(t, "prefix")} },
	func(c transCase) harness.Result {
		p := []byte{byte(c.Prefix >> 8), byte(c.Prefix)}
		st := packet.CRC16(p)
		if ref := spec.RefCRC16(p); st != ref {
			return harness.Fail("CRC16(%x)=%#04x, reference %#04x", p, st, ref)
		}
		buf := []byte{p[0], p[1], 0}
		for b := 0; b < 256; b++ {
			buf[2] = byte(b)
			got := packet.CRC16(buf)
			want := spec.RefStep(st, byte(b))
			if got != want {
				return harness.Fail("CRC16(%x)=%#04x but step(state %#04x, byte %#02x)=%#04x", buf, got, st, b, want)
			}
		}
		return harness.Result{NonTrivial: true, Weight: 256}
	})

type bijCase struct{}

var chkBij = harness.Define("crc-prefix-bijection",
	func(t *rapid.T) bijCase { return bijCase{} },
	func(bijCase) harness.Result {
		var seen [65536]bool
		for p := 0; p < 65536; p++ {
			s := packet.CRC16([]byte{byte(p >> 8), byte(p)})
			if seen[s] {
				return harness.Fail("CRC16 over 2-byte prefixes is not a bijection onto the 16-bit states (state %#04x reached twice)", s)
			}
			seen[s] = true
		}
		return harness.Result{NonTrivial: true, Weight: 65536}
	})

func TestTransitionsExhaustive(t *testing.T) {
	if !chkStrings.Eval(t, strCase{}) {
		return
	}
	lo, hi := harness.Range(65536)
	for p := lo; p < hi; p++ {
		if !chkTrans.EvalFast(t, transCase{Prefix: uint16(p)}) {
			return
		}
	}
	// every 16-bit state is reached by some 2-byte prefix: the 65536 values must be pairwise distinct.
	// (cheap, so every shard does the whole thing)
	if !chkBij.Eval(t, bijCase{}) {
		return
	}
	harness.Exhaustive("crc-transitions", "all 2^24 (16-bit state, next byte) transitions of the running CRC, observed through CRC16 on 3-byte strings", 1<<24)
	harness.Note("crc-transitions extends to all lengths only under the structural assumption that CRC16 is a left fold of a per-byte step over a 16-bit state (packet/packet.go CRC16)")
}

type strCase struct {
	Data spec.Hex `json:"data"`
}

var chkStrings = harness.Define("crc-strings",
	func(t *rapid.T) strCase {
		n := 0
		switch rapid.IntRange(0, 3).Draw(t, "lenmode") {
		case 0:
			n = rapid.SampledFrom([]int{0, 1, 2, 3, 4, 5, 255, 256, 257, 4096}).Draw(t, "len")
		case 1:
			n = rapid.IntRange(0, 4096).Draw(t, "len")
		default:
			n = rapid.IntRange(0, 300).Draw(t, "len")
		}
		return strCase{Data: gen.Payload(t, "data", n)}
	},
	func(c strCase) harness.Result {
		if len(c.Data) == 0 {
			// the byte string of length 0, however the caller spells it
			buf := make([]byte, 8)
			for name, in := range map[string][]byte{"nil": nil, "[]byte{}": {}, "buf[:0]": buf[:0], "buf[8:]": buf[8:]} {
				if got := packet.CRC16(in); got != 0xFFFF {
					return harness.Fail("CRC16 of the empty byte string given as %s = %#04x, want the initial value 0xFFFF", name, got)
				}
			}
		}
		got := packet.CRC16(c.Data)
		if ref := spec.RefCRC16(c.Data); got != ref {
			return harness.Fail("CRC16=%#04x table reference=%#04x", got, ref)
		}
		if ref := spec.PolyCRC16(c.Data); got != ref {
			return harness.Fail("CRC16=%#04x polynomial-division reference=%#04x", got, ref)
		}
		withCRC := append(append([]byte(nil), c.Data...), byte(got), byte(got>>8))
		if z := packet.CRC16(withCRC); z != 0 {
			return harness.Fail("residue law: CRC16(m|lo|hi)=%#04x want 0", z)
		}
		return harness.Result{NonTrivial: len(c.Data) >= 2, Labels: []string{lenClass(len(c.Data))}}
	})

func lenClass(n int) string {
	switch {
	case n == 0:
		return "len=0"
	case n < 4:
		return "len<4"
	case n <= 256:
		return "len<=256"
	}
	return "len>256"
}

func TestStrings(t *testing.T) {
	// published check value
	if !chkStrings.Eval(t, strCase{Data: []byte("123456789")}) || !chkStrings.Eval(t, strCase{}) {
		return
	}
	if spec.RefCRC16([]byte("123456789")) != 0x4B37 || spec.PolyCRC16([]byte("123456789")) != 0x4B37 {
		t.Fatalf("reference implementations disagree with the published check value")
	}
	chkStrings.Rapid(t, harness.Pick(20000, 1000000))
}

// ---------------------------------------------------------------------------
// 2. emission: every RTU frame the library emits ends with the reference CRC

type emitCase struct {
	Kind string    `json:"kind"` // request | response | exception | parse-error
	Req  spec.Req  `json:"req,omitempty"`
	Resp spec.Resp `json:"resp,omitempty"`
	// LenDelta: the byte-length field of the response struct (CoilsByteLength / RegisterByteLen ...) is set to
	// len(Data)+LenDelta: a hand-built, inconsistent struct. Whatever frame is emitted for it must still end with its own CRC.
	LenDelta int `json:"len_delta,omitempty"`
	// Sibling ("unit" | "addr" | "qty" | "value" | "code"): directly before the value of the case, a value that differs from it only
	// in that field (by SiblingXor) is emitted - what a program talking to several similar devices does. What was emitted before
	// must not matter.
	Sibling    string `json:"sibling,omitempty"`
	SiblingXor uint16 `json:"sibling_xor,omitempty"`
}

// siblingOf returns the value emitted first.
func siblingOf(c emitCase) emitCase {
	s := c
	s.Sibling = ""
	x := c.SiblingXor
	switch c.Sibling {
	case "unit":
		s.Req.Unit, s.Resp.Unit = c.Req.Unit^uint8(x), c.Resp.Unit^uint8(x)
	case "addr":
		s.Req.Addr, s.Resp.Addr = c.Req.Addr^x, c.Resp.Addr^x
	case "qty":
		s.Req.Qty = c.Req.Qty ^ x
	case "value":
		s.Req.Value, s.Resp.Value = c.Req.Value^x, c.Resp.Value^x
	case "code":
		s.Resp.Code = c.Resp.Code ^ uint8(x)
	}
	return s
}

func genSibling(t *rapid.T, c *emitCase) {
	if rapid.IntRange(0, 2).Draw(t, "with_sibling") != 0 {
		return
	}
	c.Sibling = rapid.SampledFrom([]string{"unit", "unit", "addr", "qty", "value", "code"}).Draw(t, "sibling")
	c.SiblingXor = uint16(1) << rapid.IntRange(0, 15).Draw(t, "sibling_bit")
	if c.Sibling == "unit" || c.Sibling == "code" {
		c.SiblingXor = uint16(1) << rapid.IntRange(0, 7).Draw(t, "sibling_bit8")
		if rapid.IntRange(0, 3).Draw(t, "sibling_nibble") == 0 {
			c.SiblingXor = uint16(rapid.SampledFrom([]int{0x10, 0xF0, 0x0F, 0xFF, 0x80}).Draw(t, "sibling_mask"))
		}
	}
}

func genResp(t *rapid.T, fc uint8) spec.Resp {
	r := spec.Resp{FC: fc, Unit: rapid.Uint8().Draw(t, "unit"), Tx: rapid.Uint16().Draw(t, "tx")}
	switch fc {
	case 1, 2:
		r.Data = gen.Payload(t, "data", rapid.IntRange(1, 250).Draw(t, "n"))
	case 3, 4, 23:
		r.Data = gen.Payload(t, "data", 2*rapid.IntRange(1, 125).Draw(t, "n"))
	case 5:
		r.Addr = rapid.Uint16().Draw(t, "addr")
		if rapid.Bool().Draw(t, "on") {
			r.Value = 0xFF00
		}
	case 6, 15, 16:
		r.Addr = rapid.Uint16().Draw(t, "addr")
		r.Value = rapid.Uint16().Draw(t, "value")
	case 17:
		r.ServerID = gen.Payload(t, "id", rapid.IntRange(1, 120).Draw(t, "idn"))
		r.Status = rapid.Uint8().Draw(t, "status")
		r.Additional = gen.Payload(t, "add", rapid.IntRange(0, 120).Draw(t, "addn"))
	}
	return r
}

// libResponseRTU builds the library's RTU response struct the way a parser or a server handler would
// (lenDelta != 0: with an inconsistent byte-length field).
func libResponseRTU(r spec.Resp, lenDelta int) packet.Response {
	bl := func() uint8 { return uint8(len(r.Data) + lenDelta) }
	switch r.FC {
	case 1:
		return &packet.ReadCoilsResponseRTU{ReadCoilsResponse: packet.ReadCoilsResponse{UnitID: r.Unit, CoilsByteLength: bl(), Data: r.Data}}
	case 2:
		return &packet.ReadDiscreteInputsResponseRTU{ReadDiscreteInputsResponse: packet.ReadDiscreteInputsResponse{UnitID: r.Unit, InputsByteLength: bl(), Data: r.Data}}
	case 3:
		return &packet.ReadHoldingRegistersResponseRTU{ReadHoldingRegistersResponse: packet.ReadHoldingRegistersResponse{UnitID: r.Unit, RegisterByteLen: bl(), Data: r.Data}}
	case 4:
		return &packet.ReadInputRegistersResponseRTU{ReadInputRegistersResponse: packet.ReadInputRegistersResponse{UnitID: r.Unit, RegisterByteLen: bl(), Data: r.Data}}
	case 23:
		return &packet.ReadWriteMultipleRegistersResponseRTU{ReadWriteMultipleRegistersResponse: packet.ReadWriteMultipleRegistersResponse{UnitID: r.Unit, RegisterByteLen: bl(), Data: r.Data}}
	}
	return libResponseRTUConsistent(r)
}

func libResponseRTUConsistent(r spec.Resp) packet.Response {
	switch r.FC {
	case 1:
		return &packet.ReadCoilsResponseRTU{ReadCoilsResponse: packet.ReadCoilsResponse{UnitID: r.Unit, CoilsByteLength: uint8(len(r.Data)), Data: r.Data}}
	case 2:
		return &packet.ReadDiscreteInputsResponseRTU{ReadDiscreteInputsResponse: packet.ReadDiscreteInputsResponse{UnitID: r.Unit, InputsByteLength: uint8(len(r.Data)), Data: r.Data}}
	case 3:
		return &packet.ReadHoldingRegistersResponseRTU{ReadHoldingRegistersResponse: packet.ReadHoldingRegistersResponse{UnitID: r.Unit, RegisterByteLen: uint8(len(r.Data)), Data: r.Data}}
	case 4:
		return &packet.ReadInputRegistersResponseRTU{ReadInputRegistersResponse: packet.ReadInputRegistersResponse{UnitID: r.Unit, RegisterByteLen: uint8(len(r.Data)), Data: r.Data}}
	case 5:
		return &packet.WriteSingleCoilResponseRTU{WriteSingleCoilResponse: packet.WriteSingleCoilResponse{UnitID: r.Unit, StartAddress: r.Addr, CoilState: r.Value == 0xFF00}}
	case 6:
		return &packet.WriteSingleRegisterResponseRTU{WriteSingleRegisterResponse: packet.WriteSingleRegisterResponse{UnitID: r.Unit, Address: r.Addr, Data: [2]byte{byte(r.Value >> 8), byte(r.Value)}}}
	case 15:
		return &packet.WriteMultipleCoilsResponseRTU{WriteMultipleCoilsResponse: packet.WriteMultipleCoilsResponse{UnitID: r.Unit, StartAddress: r.Addr, CoilCount: r.Value}}
	case 16:
		return &packet.WriteMultipleRegistersResponseRTU{WriteMultipleRegistersResponse: packet.WriteMultipleRegistersResponse{UnitID: r.Unit, StartAddress: r.Addr, RegisterCount: r.Value}}
	case 17:
		return &packet.ReadServerIDResponseRTU{ReadServerIDResponse: packet.ReadServerIDResponse{UnitID: r.Unit, Status: r.Status, ServerID: r.ServerID, AdditionalData: r.Additional}}
	case 23:
		return &packet.ReadWriteMultipleRegistersResponseRTU{ReadWriteMultipleRegistersResponse: packet.ReadWriteMultipleRegistersResponse{UnitID: r.Unit, RegisterByteLen: uint8(len(r.Data)), Data: r.Data}}
	}
	return nil
}

func emitted(c emitCase) ([]byte, string) {
	switch c.Kind {
	case "request":
		q, err := cat.NewRequest(spec.RTU, c.Req)
		if err != nil {
			return nil, ""
		}
		return q.Bytes(), cat.GoType(q)
	case "response":
		r := libResponseRTU(c.Resp, c.LenDelta)
		return r.Bytes(), cat.GoType(r)
	case "exception":
		e := packet.ErrorResponseRTU{UnitID: c.Resp.Unit, Function: c.Resp.FC, Code: c.Resp.Code}
		return e.Bytes(), "ErrorResponseRTU"
	case "parse-error":
		e := packet.NewErrorParseRTU(c.Resp.Code, "x")
		e.Packet.UnitID = c.Resp.Unit
		e.Packet.Function = c.Resp.FC
		return e.Bytes(), "ErrorParseRTU"
	}
	return nil, ""
}

func genEmit(t *rapid.T) emitCase {
	c := genEmitPlain(t)
	genSibling(t, &c)
	return c
}

func genEmitPlain(t *rapid.T) emitCase {
	kind := rapid.SampledFrom([]string{"request", "request", "response", "response", "exception", "parse-error"}).Draw(t, "kind")
	fc := gen.FC(t)
	switch kind {
	case "request":
		r := gen.LegalReq(t, fc, false)
		if rapid.IntRange(0, 5).Draw(t, "over_limit") == 0 {
			// "every RTU frame the library emits": also what the constructors accept beyond the specification's limits (if anything)
			over := rapid.IntRange(1, 4).Draw(t, "over_by")
			switch fc {
			case 1, 2:
				r.Qty = uint16(2000 + over)
			case 3, 4:
				r.Qty = uint16(125 + over)
			case 15:
				r.Qty = uint16(1968 + over)
				r.Payload, r.ByteCount = gen.Payload(t, "coils_over", (int(r.Qty)+7)/8), uint8((int(r.Qty)+7)/8)
			case 16:
				r.Qty = uint16(123 + over)
				r.Payload, r.ByteCount = gen.Payload(t, "regs_over", 2*int(r.Qty)), uint8(2*int(r.Qty))
			case 23:
				r.WQty = uint16(121 + over)
				r.Payload, r.ByteCount = gen.Payload(t, "regs_over", 2*int(r.WQty)), uint8(2*int(r.WQty))
			}
		}
		return emitCase{Kind: kind, Req: r}
	case "response":
		c := emitCase{Kind: kind, Resp: genResp(t, fc)}
		if rapid.IntRange(0, 3).Draw(t, "inconsistent") == 0 && len(c.Resp.Data) > 0 {
			c.LenDelta = rapid.SampledFrom([]int{-2, -1, 1, 2, 3}).Draw(t, "len_delta")
			if len(c.Resp.Data)+c.LenDelta < 0 || len(c.Resp.Data)+c.LenDelta > 250 {
				c.LenDelta = 0
			}
		}
		return c
	}
	// the Function field of the exception structs is a plain uint8: any value can be put into it, the trailer must be the CRC of what is emitted
	return emitCase{Kind: kind, Resp: spec.Resp{FC: rapid.Uint8().Draw(t, "efc"), Unit: rapid.Uint8().Draw(t, "unit"), Code: rapid.Uint8().Draw(t, "code"), IsException: true}}
}

var chkEmit = harness.Define("crc-emission", genEmit,
	func(c emitCase) harness.Result {
		{
			// first an unrelated value of the same kind: whatever an earlier case left in a one-entry memo of the library is gone, so
			// that a failure of this case depends on this case alone (and its replay file reproduces it)
			n := c
			n.Sibling = ""
			n.Req.Unit, n.Req.Addr, n.Resp.Unit, n.Resp.Addr, n.Resp.Code = c.Req.Unit^0xA5, c.Req.Addr^0x5A5A, c.Resp.Unit^0xA5, c.Resp.Addr^0x5A5A, c.Resp.Code^0x5A
			_, _ = emitted(n)
		}
		if c.Sibling != "" {
			_, _ = emitted(siblingOf(c))
		}
		frame, typ := emitted(c)
		if frame == nil {
			return harness.Result{Labels: []string{"constructor-rejected"}}
		}
		n := len(frame)
		if n < 4 {
			return harness.Fail("%s emitted a %d-byte RTU frame", typ, n)
		}
		ref := spec.RefCRC16(frame[:n-2])
		if frame[n-2] != byte(ref) || frame[n-1] != byte(ref>>8) {
			return harness.Fail("%s frame %x: trailer %02x %02x, reference CRC lo,hi = %02x %02x", typ, frame, frame[n-2], frame[n-1], byte(ref), byte(ref>>8))
		}
		// the emitted frame is the caller's: it may be modified (a trailer replaced for fault injection, the buffer reused) without
		// any effect on what the same value emits next
		first := append([]byte(nil), frame...)
		frame[n-2], frame[n-1] = frame[n-2]^0x5A, frame[n-1]^0xA5 // only the trailer
		again, _ := emitted(c)
		if !bytes.Equal(again, first) {
			return harness.Fail("%s emitted %x; after the caller replaced the trailer in that slice, emitting the same value again gives %x", typ, first, again)
		}
		for i := range frame {
			frame[i] ^= 0xEE
		}
		for i := range again {
			again[i] ^= 0x77
		}
		if third, _ := emitted(c); !bytes.Equal(third, first) {
			return harness.Fail("%s emitted %x; after the caller overwrote the slices it was given, emitting the same value again gives %x", typ, first, third)
		}
		labels := []string{"emit:" + c.Kind, fmt.Sprintf("emit-fc%d", c.Req.FC|c.Resp.FC)}
		if c.Sibling != "" {
			labels = append(labels, "after-sibling-differing-in:"+c.Sibling)
		}
		return harness.Result{NonTrivial: n > 4, Labels: labels}
	})

func TestEmission(t *testing.T) {
	chkEmit.Rapid(t, harness.Pick(10000, 500000))
	if harness.Thorough() {
		// all exception frames: 128 functions x 256 codes (unit sampled)
		idx := 0
		for fc := 0; fc < 256; fc++ {
			for code := 0; code < 256; code++ {
				idx++
				if !harness.Mine(idx) {
					continue
				}
				for _, kind := range []string{"exception", "parse-error"} {
					if !chkEmit.Eval(t, emitCase{Kind: kind, Resp: spec.Resp{FC: uint8(fc), Unit: uint8(fc*7 + code), Code: uint8(code), IsException: true}}) {
						return
					}
				}
			}
		}
		harness.Exhaustive("crc-emission", "every (Function field value 0..255, exception code 0..255) RTU exception frame via ErrorResponseRTU.Bytes and ErrorParseRTU.Bytes", 2*256*256)
	}
}

// ---------------------------------------------------------------------------
// 3. enforcement

type enforceCase struct {
	Request bool     `json:"request"`
	Body    spec.Hex `json:"body"`    // frame without trailer
	Trailer uint16   `json:"trailer"` // as two bytes lo,hi: lo = Trailer&0xff
	Source  string   `json:"source"`
}

// Body0 is the first byte of the body (0 for an empty body).
func (c enforceCase) Body0() uint8 {
	if len(c.Body) == 0 {
		return 0
	}
	return c.Body[0]
}

func sameParse(v1 interface{}, e1 error, v2 interface{}, e2 error) bool {
	if (e1 == nil) != (e2 == nil) {
		return false
	}
	if e1 != nil {
		return e1.Error() == e2.Error() && cat.IsNilValue(v1) == cat.IsNilValue(v2)
	}
	return reflect.DeepEqual(v1, v2)
}

func runEnforce(c enforceCase) harness.Result {
	frame := append(append([]byte(nil), c.Body...), byte(c.Trailer), byte(c.Trailer>>8))
	ref := spec.RefCRC16(c.Body)
	good := c.Trailer == ref
	var v interface{}
	var err error
	var v2 interface{}
	var err2 error
	if c.Request {
		v, err = packet.ParseRTURequestWithCRC(frame)
		v2, err2 = packet.ParseRTURequest(append([]byte(nil), frame...))
	} else {
		v, err = packet.ParseRTUResponseWithCRC(frame)
		v2, err2 = packet.ParseRTUResponse(append([]byte(nil), frame...))
	}
	labels := []string{"source:" + c.Source}
	if good {
		labels = append(labels, "trailer:good")
		if errors.Is(err, packet.ErrInvalidCRC) {
			return harness.Fail("frame %x has the correct CRC but was refused with ErrInvalidCRC", frame)
		}
		if !sameParse(v, err, v2, err2) {
			return harness.Fail("frame %x with correct CRC: WithCRC parser gave (%v,%v), plain parser gave (%v,%v)", frame, v, err, v2, err2)
		}
	} else {
		labels = append(labels, "trailer:bad")
		if !errors.Is(err, packet.ErrInvalidCRC) {
			return harness.Fail("frame %x has trailer %04x but CRC of the rest is %04x: accepted/other error (%v, %v) instead of ErrInvalidCRC", frame, c.Trailer, ref, v, err)
		}
		if !cat.IsNilValue(v) {
			return harness.Fail("frame %x refused with ErrInvalidCRC but a value %v was returned", frame, v)
		}
	}
	// the receive buffer is the caller's and is reused (a client reads every reply into the same array): the frame with the CORRECT
	// trailer is parsed from a buffer, then the case's frame is written over it in place and parsed from the same buffer - the verdict
	// must be the one above
	{
		parse := packet.ParseRTUResponseWithCRC
		if c.Request {
			parse = func(b []byte) (packet.Response, error) {
				q, err := packet.ParseRTURequestWithCRC(b)
				if q == nil {
					return nil, err
				}
				return q, err
			}
		}
		buf := append(append([]byte(nil), c.Body...), byte(ref), byte(ref>>8))
		_, _ = parse(buf)
		copy(buf, frame)
		vb, errb := parse(buf)
		if !sameParse(vb, errb, v, err) && !(cat.IsNilValue(vb) && cat.IsNilValue(v) && errors.Is(errb, packet.ErrInvalidCRC) == errors.Is(err, packet.ErrInvalidCRC) && (errb == nil) == (err == nil)) {
			return harness.Fail("frame %x parsed from a fresh slice gives (%v, %v); parsed from a buffer that held the frame with the correct trailer %04x just before (and was parsed then) it gives (%v, %v)", frame, v, err, ref, vb, errb)
		}
		labels = append(labels, "reused-buffer")
	}
	// other RTU traffic goes on in the same process between the moment a request is encoded and the moment its reply is checked (a
	// second client on another line): for a frame that is the echo reply to a write-single request, that request is encoded first,
	// then an unrelated valid reply is checked, then the case's frame - the verdict must be the one above
	if !c.Request {
		if len(c.Body) == 6 && (c.Body[1] == 5 || c.Body[1] == 6) {
			if q, err := cat.NewRequest(spec.RTU, spec.Req{FC: c.Body[1], Unit: c.Body[0], Addr: uint16(c.Body[2])<<8 | uint16(c.Body[3]), Value: uint16(c.Body[4])<<8 | uint16(c.Body[5])}); err == nil {
				_ = q.Bytes()
				labels = append(labels, "echo-of-a-request-encoded-just-before")
			}
		}
		unrelated := spec.EncodeResponse(spec.RTU, spec.Resp{FC: 3, Unit: c.Body0() ^ 0x21, Data: []byte{0x12, 0x34, 0x56, 0x78}})
		_, _ = packet.ParseRTUResponseWithCRC(unrelated)
		vi, erri := packet.ParseRTUResponseWithCRC(append([]byte(nil), frame...))
		if !sameParse(vi, erri, v, err) {
			return harness.Fail("frame %x gives (%v, %v) on its own and (%v, %v) when the matching request was encoded and another reply (%x) checked just before", frame, v, err, vi, erri, unrelated)
		}
	}
	return harness.Result{NonTrivial: len(c.Body) >= 2, Labels: labels}
}

func genBody(t *rapid.T) (bool, []byte, string) {
	switch rapid.IntRange(0, 3).Draw(t, "source") {
	case 0:
		c := emitCase{Kind: "request", Req: gen.LegalReq(t, gen.FC(t), false)}
		f, _ := emitted(c)
		if f != nil {
			return true, f[:len(f)-2], "lib-request"
		}
		fallthrough
	case 1:
		c := emitCase{Kind: "response", Resp: genResp(t, gen.FC(t))}
		f, _ := emitted(c)
		return false, f[:len(f)-2], "lib-response"
	case 2:
		c := emitCase{Kind: "exception", Resp: spec.Resp{FC: rapid.Uint8Range(1, 127).Draw(t, "efc"), Unit: rapid.Uint8().Draw(t, "unit"), Code: rapid.Uint8().Draw(t, "code")}}
		f, _ := emitted(c)
		return false, f[:len(f)-2], "lib-exception"
	}
	n := rapid.IntRange(2, 40).Draw(t, "n")
	b := gen.Payload(t, "body", n)
	if rapid.Bool().Draw(t, "plausible-fc") {
		b[1] = gen.FC(t)
	}
	return rapid.Bool().Draw(t, "asRequest"), b, "arbitrary"
}

func genEnforce(t *rapid.T) enforceCase {
	req, body, src := genBody(t)
	ref := spec.RefCRC16(body)
	var tr uint16
	switch rapid.IntRange(0, 4).Draw(t, "trailer") {
	case 0:
		tr = ref
	case 1:
		tr = ref<<8 | ref>>8
	case 2:
		tr = ref ^ 1<<uint(rapid.IntRange(0, 15).Draw(t, "bit"))
	case 3:
		tr = ref + uint16(rapid.IntRange(-2, 2).Draw(t, "delta"))
	default:
		tr = rapid.Uint16().Draw(t, "random")
	}
	return enforceCase{Request: req, Body: body, Trailer: tr, Source: src}
}

var chkEnforce = harness.Define("crc-enforcement", genEnforce, runEnforce).Repeated(2)

func TestEnforcement(t *testing.T) {
	chkEnforce.Rapid(t, harness.Pick(20000, 500000))
	// all 65536 trailers on a set of frames per function (both directions)
	frames := harness.Pick(2, 24)
	idx := 0
	total := int64(0)
	for _, fc := range spec.Functions {
		for k := 0; k < frames; k++ {
			seed := harness.Seed()*1000 + uint64(fc)*16 + uint64(k)
			bodies := []enforceCase{}
			// request
			rq := fixedReq(fc, seed)
			if f, _ := emitted(emitCase{Kind: "request", Req: rq}); f != nil {
				bodies = append(bodies, enforceCase{Request: true, Body: f[:len(f)-2], Source: "sweep-request"})
			}
			rs := fixedResp(fc, seed)
			f, _ := emitted(emitCase{Kind: "response", Resp: rs})
			bodies = append(bodies, enforceCase{Request: false, Body: f[:len(f)-2], Source: "sweep-response"})
			for _, b := range bodies {
				idx++
				total += 65536
				if !harness.Mine(idx) {
					continue
				}
				for tr := 0; tr < 65536; tr++ {
					b.Trailer = uint16(tr)
					if !chkEnforce.EvalFast(t, b) {
						return
					}
				}
			}
		}
	}
	harness.Exhaustive("crc-enforcement", fmt.Sprintf("all 65536 trailer values on %d request+response frames (every function)", idx), total)
}

func fixedReq(fc uint8, seed uint64) spec.Req {
	s := seed
	r := spec.Req{FC: fc, Unit: uint8(harness.SplitMix64(&s)), Addr: uint16(harness.SplitMix64(&s))}
	switch fc {
	case 1, 2:
		r.Qty = 1 + uint16(harness.SplitMix64(&s)%2000)
	case 3, 4:
		r.Qty = 1 + uint16(harness.SplitMix64(&s)%125)
	case 5:
		r.Value = 0xFF00
	case 6:
		r.Value = uint16(harness.SplitMix64(&s))
	case 15:
		r.Qty = 1 + uint16(harness.SplitMix64(&s)%60)
		r.Payload = harness.Bytes(seed, (int(r.Qty)+7)/8)
	case 16:
		r.Qty = 1 + uint16(harness.SplitMix64(&s)%10)
		r.Payload = harness.Bytes(seed, 2*int(r.Qty))
	case 23:
		r.Qty = 1 + uint16(harness.SplitMix64(&s)%125)
		r.WQty = 1 + uint16(harness.SplitMix64(&s)%10)
		r.WAddr = uint16(harness.SplitMix64(&s))
		r.Payload = harness.Bytes(seed, 2*int(r.WQty))
	}
	return r
}

func fixedResp(fc uint8, seed uint64) spec.Resp {
	s := seed
	r := spec.Resp{FC: fc, Unit: uint8(harness.SplitMix64(&s))}
	switch fc {
	case 1, 2:
		r.Data = harness.Bytes(seed, 1+int(harness.SplitMix64(&s)%20))
	case 3, 4, 23:
		r.Data = harness.Bytes(seed, 2*(1+int(harness.SplitMix64(&s)%10)))
	case 5:
		r.Addr, r.Value = uint16(harness.SplitMix64(&s)), 0xFF00
	case 6, 15, 16:
		r.Addr, r.Value = uint16(harness.SplitMix64(&s)), uint16(harness.SplitMix64(&s))
	case 17:
		r.ServerID = harness.Bytes(seed, 1+int(harness.SplitMix64(&s)%8))
		r.Status = 0xFF
		r.Additional = harness.Bytes(seed+1, int(harness.SplitMix64(&s)%6))
	}
	return r
}

// TestLongFrames: "every byte string (all lengths)": frames around and beyond 64 KiB (an FC17-shaped response, the one layout whose parser
// accepts any length, a register-response-shaped and a request-shaped body), with the correct trailer, the byte-swapped trailer, a
// one-bit error and - for the wrapped positions - the CRC of the first (len-2) mod 65536 bytes placed at that position.
func TestLongFrames(t *testing.T) {
	idx := 0
	for _, n := range []int{255, 256, 257, 4096, 65533, 65534, 65535, 65536, 65537, 65538, 65539, 65540, 65544, 70000, 131074} {
		for shape := 0; shape < 3; shape++ {
			idx++
			if !harness.Mine(idx) {
				continue
			}
			body := harness.Bytes(uint64(n)*31+uint64(shape)+harness.Seed(), n)
			req := false
			switch shape {
			case 0: // read server id response: unit, 0x11, id length, id ..., status, additional data ...
				body[0], body[1], body[2] = 1, 0x11, 5
			case 1:
				body[0], body[1], body[2] = 1, 0x03, byte(n-3)
			default:
				body[0], body[1] = 1, 0x10
				req = true
			}
			ref := spec.RefCRC16(body)
			trailers := []uint16{ref, ref<<8 | ref>>8, ref ^ 0x0100, ref ^ 1}
			for _, tr := range trailers {
				if !chkEnforce.Eval(t, enforceCase{Request: req, Body: body, Trailer: tr, Source: "long"}) {
					return
				}
			}
			if k := n % 65536; n > 65536 && k+2 <= n {
				// a frame whose bytes at the wrapped position look like a trailer for the prefix before them, while the real trailer is wrong
				b2 := append([]byte(nil), body...)
				c := spec.RefCRC16(b2[:k])
				b2[k], b2[k+1] = byte(c), byte(c>>8)
				if !chkEnforce.Eval(t, enforceCase{Request: req, Body: b2, Trailer: spec.RefCRC16(b2) ^ 0x0001, Source: "long-wrapped"}) {
					return
				}
			}
		}
	}
}

// ---------------------------------------------------------------------------
// the first call of a process: cases of the checks above, each run as the first thing a newly started process does (the test binary
// starts itself again for every case). Whatever the library prepares lazily - a table filled on first use, a once-guard in one entry
// point that another entry point relies on - has not been prepared by an earlier case: a bus monitor whose first action is to verify
// a received frame, a device whose first action is to encode an exception.

func genFresh(t *rapid.T) harness.FreshCase {
	switch rapid.IntRange(0, 3).Draw(t, "fresh_check") {
	case 0:
		return harness.Fresh(chkEmit, genEmitPlain(t))
	case 1:
		return harness.Fresh(chkStrings, chkStrings.Gen(t))
	default:
		return harness.Fresh(chkEnforce, genEnforce(t))
	}
}

var chkFresh = harness.Define("first-call-in-a-fresh-process", genFresh, harness.RunFresh)

func TestFreshProcess(t *testing.T) {
	// a request and a response frame of every function with a damaged and with the correct trailer, an emitted request, response and exception
	idx := 0
	for _, fc := range spec.Functions {
		var cases []harness.FreshCase
		rq := fixedReq(fc, harness.Seed()+uint64(fc))
		if f, _ := emitted(emitCase{Kind: "request", Req: rq}); f != nil {
			body := f[:len(f)-2]
			ref := spec.RefCRC16(body)
			cases = append(cases, harness.Fresh(chkEnforce, enforceCase{Request: true, Body: body, Trailer: ref ^ 0x0100, Source: "fresh-request"}),
				harness.Fresh(chkEnforce, enforceCase{Request: true, Body: body, Trailer: ref, Source: "fresh-request"}))
		}
		rs := fixedResp(fc, harness.Seed()+uint64(fc))
		if f, _ := emitted(emitCase{Kind: "response", Resp: rs}); f != nil {
			body := f[:len(f)-2]
			ref := spec.RefCRC16(body)
			cases = append(cases, harness.Fresh(chkEnforce, enforceCase{Body: body, Trailer: ref ^ 0x0001, Source: "fresh-response"}),
				harness.Fresh(chkEnforce, enforceCase{Body: body, Trailer: ref, Source: "fresh-response"}))
		}
		cases = append(cases, harness.Fresh(chkEmit, emitCase{Kind: "request", Req: rq}), harness.Fresh(chkEmit, emitCase{Kind: "response", Resp: rs}),
			harness.Fresh(chkEmit, emitCase{Kind: "exception", Resp: spec.Resp{FC: fc, Unit: 7, IsException: true, Code: 2}}))
		for _, c := range cases {
			idx++
			if !harness.Mine(idx) {
				continue
			}
			if !chkFresh.Eval(t, c) {
				return
			}
		}
	}
	chkFresh.Rapid(t, harness.Pick(40, 1500))
}
