package c02

import (
	"bytes"
	"errors"
	"fmt"
	"testing"

	"github.com/aldas/go-modbus-client/packet"
	"pgregory.net/rapid"

	"verif/internal/cat"
	"verif/internal/cli"
	"verif/internal/device"
	"verif/internal/gen"
	"verif/internal/harness"
	"verif/internal/hostile"
	"verif/internal/spec"
	"verif/internal/xport"
)

func TestMain(m *testing.M) { harness.Main(m) }

func TestReplay(t *testing.T)  { harness.RunReplay(t) }
func TestRegress(t *testing.T) { harness.RunRegress(t) }

// fieldsOf reads the fields of a parsed library response back into a spec.Resp.
func fieldsOf(v interface{}) (spec.Resp, bool) {
	switch r := v.(type) {
	case *packet.ReadCoilsResponseTCP:
		return spec.Resp{FC: 1, Tx: r.TransactionID, Unit: r.UnitID, Data: r.Data}, int(r.CoilsByteLength) == len(r.Data)
	case *packet.ReadCoilsResponseRTU:
		return spec.Resp{FC: 1, Unit: r.UnitID, Data: r.Data}, int(r.CoilsByteLength) == len(r.Data)
	case *packet.ReadDiscreteInputsResponseTCP:
		return spec.Resp{FC: 2, Tx: r.TransactionID, Unit: r.UnitID, Data: r.Data}, int(r.InputsByteLength) == len(r.Data)
	case *packet.ReadDiscreteInputsResponseRTU:
		return spec.Resp{FC: 2, Unit: r.UnitID, Data: r.Data}, int(r.InputsByteLength) == len(r.Data)
	case *packet.ReadHoldingRegistersResponseTCP:
		return spec.Resp{FC: 3, Tx: r.TransactionID, Unit: r.UnitID, Data: r.Data}, int(r.RegisterByteLen) == len(r.Data)
	case *packet.ReadHoldingRegistersResponseRTU:
		return spec.Resp{FC: 3, Unit: r.UnitID, Data: r.Data}, int(r.RegisterByteLen) == len(r.Data)
	case *packet.ReadInputRegistersResponseTCP:
		return spec.Resp{FC: 4, Tx: r.TransactionID, Unit: r.UnitID, Data: r.Data}, int(r.RegisterByteLen) == len(r.Data)
	case *packet.ReadInputRegistersResponseRTU:
		return spec.Resp{FC: 4, Unit: r.UnitID, Data: r.Data}, int(r.RegisterByteLen) == len(r.Data)
	case *packet.ReadWriteMultipleRegistersResponseTCP:
		return spec.Resp{FC: 23, Tx: r.TransactionID, Unit: r.UnitID, Data: r.Data}, int(r.RegisterByteLen) == len(r.Data)
	case *packet.ReadWriteMultipleRegistersResponseRTU:
		return spec.Resp{FC: 23, Unit: r.UnitID, Data: r.Data}, int(r.RegisterByteLen) == len(r.Data)
	case *packet.WriteSingleCoilResponseTCP:
		return spec.Resp{FC: 5, Tx: r.TransactionID, Unit: r.UnitID, Addr: r.StartAddress, Value: coil(r.CoilState)}, true
	case *packet.WriteSingleCoilResponseRTU:
		return spec.Resp{FC: 5, Unit: r.UnitID, Addr: r.StartAddress, Value: coil(r.CoilState)}, true
	case *packet.WriteSingleRegisterResponseTCP:
		return spec.Resp{FC: 6, Tx: r.TransactionID, Unit: r.UnitID, Addr: r.Address, Value: uint16(r.Data[0])<<8 | uint16(r.Data[1])}, true
	case *packet.WriteSingleRegisterResponseRTU:
		return spec.Resp{FC: 6, Unit: r.UnitID, Addr: r.Address, Value: uint16(r.Data[0])<<8 | uint16(r.Data[1])}, true
	case *packet.WriteMultipleCoilsResponseTCP:
		return spec.Resp{FC: 15, Tx: r.TransactionID, Unit: r.UnitID, Addr: r.StartAddress, Value: r.CoilCount}, true
	case *packet.WriteMultipleCoilsResponseRTU:
		return spec.Resp{FC: 15, Unit: r.UnitID, Addr: r.StartAddress, Value: r.CoilCount}, true
	case *packet.WriteMultipleRegistersResponseTCP:
		return spec.Resp{FC: 16, Tx: r.TransactionID, Unit: r.UnitID, Addr: r.StartAddress, Value: r.RegisterCount}, true
	case *packet.WriteMultipleRegistersResponseRTU:
		return spec.Resp{FC: 16, Unit: r.UnitID, Addr: r.StartAddress, Value: r.RegisterCount}, true
	case *packet.ReadServerIDResponseTCP:
		return spec.Resp{FC: 17, Tx: r.TransactionID, Unit: r.UnitID, ServerID: r.ServerID, Status: r.Status, Additional: r.AdditionalData}, true
	case *packet.ReadServerIDResponseRTU:
		return spec.Resp{FC: 17, Unit: r.UnitID, ServerID: r.ServerID, Status: r.Status, Additional: r.AdditionalData}, true
	}
	return spec.Resp{}, false
}

func coil(b bool) uint16 {
	if b {
		return 0xFF00
	}
	return 0
}

func sameResp(a, b spec.Resp, f spec.Framing) bool {
	if f == spec.RTU {
		a.Tx, b.Tx = 0, 0
	}
	return a.FC == b.FC && a.Unit == b.Unit && a.Tx == b.Tx && a.Addr == b.Addr && a.Value == b.Value && a.Status == b.Status &&
		bytes.Equal(a.Data, b.Data) && bytes.Equal(a.ServerID, b.ServerID) && bytes.Equal(a.Additional, b.Additional)
}

// ---------------------------------------------------------------------------

type respCase struct {
	Framing spec.Framing `json:"framing"`
	Resp    spec.Resp    `json:"resp"`
	// Legal=false: byte count allowed by the format but not by the specification (251..255, odd register counts): "if accepted then faithful".
	Legal bool `json:"legal"`
}

func genResp(t *rapid.T) respCase {
	fc := gen.FC(t)
	r := spec.Resp{FC: fc, Unit: rapid.Uint8().Draw(t, "unit"), Tx: gen.U16(t, "tx", []int{0, 1, 255, 256, 65535})}
	legal := true
	pick := func(name string, lo, hi int, hot ...int) int {
		if rapid.IntRange(0, 2).Draw(t, name+"_m") == 0 {
			c := append([]int{lo, hi}, hot...)
			return rapid.SampledFrom(c).Draw(t, name+"_h")
		}
		return rapid.IntRange(lo, hi).Draw(t, name)
	}
	switch fc {
	case 1, 2:
		n := pick("n", 1, 250, 2, 3, 249)
		if rapid.IntRange(0, 9).Draw(t, "illegal") == 0 {
			n, legal = rapid.IntRange(251, 255).Draw(t, "n_illegal"), false
		}
		r.Data = gen.Payload(t, "data", n)
	case 3, 4, 23:
		n := 2 * pick("n", 1, 125, 2, 3, 124)
		if rapid.IntRange(0, 9).Draw(t, "illegal") == 0 {
			n, legal = rapid.SampledFrom([]int{3, 5, 7, 251, 252, 253, 254, 255, 249}).Draw(t, "n_illegal"), false
		}
		r.Data = gen.Payload(t, "data", n)
	case 5:
		r.Addr = gen.U16(t, "addr", gen.HotAddr)
		if rapid.Bool().Draw(t, "on") {
			r.Value = 0xFF00
		}
	case 6, 15, 16:
		r.Addr = gen.U16(t, "addr", gen.HotAddr)
		r.Value = gen.U16(t, "value", gen.HotQty)
	case 17:
		idn := pick("idn", 1, 120, 2, 3)
		r.ServerID = gen.Payload(t, "id", idn)
		r.Status = rapid.SampledFrom([]uint8{0, 0xFF, 1, 0x80}).Draw(t, "status")
		r.Additional = gen.Payload(t, "add", pick("addn", 0, 120, 1, 2))
		if len(r.Additional) == 0 {
			r.Additional = nil
		}
	}
	c := respCase{Framing: gen.Framing(t), Resp: r, Legal: legal}
	if (fc == 3 || fc == 4) && legal && len(r.Data) >= 6 && rapid.IntRange(0, 5).Draw(t, "embedded_exception") == 0 {
		// a well-formed register response whose last three data bytes plus CRC are, taken alone, a complete CRC-valid exception frame
		// (a, function|0x80, code): built for the RTU framing, where it matters
		a := rapid.Uint8().Draw(t, "emb_unit")
		b := rapid.SampledFrom([]uint8{1, 2, 3, 4, 5, 6, 15, 16, 17, 23, 8, 43}).Draw(t, "emb_fc")
		code := rapid.SampledFrom([]uint8{1, 2, 3, 4, 5, 6, 8, 10, 11, 0, 0x7F}).Draw(t, "emb_code")
		fr := hostile.ResponseWithEmbeddedException(r.Unit, fc, len(r.Data)/2, rapid.Uint64().Draw(t, "emb_seed"), a, b, code)
		c.Resp.Data = append([]byte(nil), fr[3:len(fr)-2]...)
	}
	return c
}

func parsersFor(f spec.Framing, fc uint8) []cat.Parser {
	return append(cat.Dispatchers(f, false), cat.ResponseParser(f, fc))
}

func runResp(c respCase) harness.Result {
	frame := spec.EncodeResponse(c.Framing, c.Resp)
	labels := []string{fmt.Sprintf("fc%d", c.Resp.FC), c.Framing.String()}
	if !c.Legal {
		labels = append(labels, "format-allowed-not-spec-legal")
	}
	if c.Framing == spec.RTU && hostile.EndsWithExceptionFrame(frame) {
		labels = append(labels, "payload-ends-in-exception-frame")
	}
	wantType := cat.TypeName(c.Framing, c.Resp.FC, false)
	for _, p := range parsersFor(c.Framing, c.Resp.FC) {
		in := append([]byte(nil), frame...)
		v, err := p.Fn(in)
		if err != nil {
			if !cat.IsNilValue(v) {
				return harness.Fail("%s: error %v together with non-nil value %v", p.Name, err, v)
			}
			if c.Legal {
				return harness.Fail("%s refused the well-formed frame %x: %v", p.Name, frame, err)
			}
			labels = append(labels, "illegal-count-rejected")
			continue
		}
		if got := cat.GoType(v); got != wantType {
			return harness.Fail("%s returned %s, want %s (frame %x)", p.Name, got, wantType, frame)
		}
		got, consistent := fieldsOf(v)
		if !consistent {
			return harness.Fail("%s: byte length field of the parsed value disagrees with its data (frame %x): %+v", p.Name, frame, v)
		}
		if !sameResp(got, c.Resp, c.Framing) {
			return harness.Fail("%s decoded %+v from frame %x, frame carries %+v", p.Name, got, frame, c.Resp)
		}
		if fcode := v.(packet.Response).FunctionCode(); fcode != c.Resp.FC {
			return harness.Fail("%s: FunctionCode()=%d want %d", p.Name, fcode, c.Resp.FC)
		}
		re := v.(packet.Response).Bytes()
		if !bytes.Equal(re, frame) {
			return harness.Fail("%s: re-encoding gives\n  %x\nframe was\n  %x", p.Name, re, frame)
		}
		if !bytes.Equal(in, frame) {
			return harness.Fail("%s modified its input", p.Name)
		}
		// the re-encoded frame is the caller's: parsing and re-encoding another frame (same kind, every byte behind the header
		// inverted where the layout allows) must not change it
		other := append([]byte(nil), frame...)
		if c.Framing == spec.TCP {
			other[0] ^= 0xFF
		}
		if v2, err := p.Fn(other); err == nil && !cat.IsNilValue(v2) {
			_ = v2.(packet.Response).Bytes()
		}
		if !bytes.Equal(re, frame) {
			return harness.Fail("%s: the frame returned by Bytes() changed after another response was parsed and encoded: now %x, was %x", p.Name, re, frame)
		}
	}
	// the exported exception recognisers (what a client configured with NewClient applies to the bytes received so far): a well-formed
	// normal response is not an exception - neither the whole frame nor its first 5 (RTU) / 9 (TCP) bytes
	for _, n := range []int{len(frame), recogniserLen(c.Framing)} {
		if n > len(frame) {
			continue
		}
		if err := recognise(c.Framing, frame[:n]); err != nil {
			return harness.Fail("%s reports the first %d bytes of the well-formed fc%d response %x as an exception: %T %v", recogniserName(c.Framing), n, c.Resp.FC, frame, err, err)
		}
	}
	nt := len(c.Resp.Data) > 0 || c.Resp.FC == 5 || c.Resp.FC == 6 || c.Resp.FC == 15 || c.Resp.FC == 16 || c.Resp.FC == 17
	return harness.Result{NonTrivial: nt, Labels: labels}
}

var chkResp = harness.Define("response-roundtrip", genResp, runResp).Repeated(2)

// ---------------------------------------------------------------------------
// exceptions

type excCase struct {
	Framing spec.Framing `json:"framing"`
	FC      uint8        `json:"fc"` // 0..127
	Code    uint8        `json:"code"`
	Unit    uint8        `json:"unit"`
	Tx      uint16       `json:"tx"`
}

func runExc(c excCase) harness.Result {
	frame := spec.EncodeResponse(c.Framing, spec.Resp{FC: c.FC & 0x7F, Unit: c.Unit, Tx: c.Tx, IsException: true, Code: c.Code})
	for _, p := range cat.Dispatchers(c.Framing, false) {
		v, err := p.Fn(append([]byte(nil), frame...))
		if err == nil {
			return harness.Fail("%s returned a response %v (no error) for exception frame %x", p.Name, v, frame)
		}
		if !cat.IsNilValue(v) {
			return harness.Fail("%s returned value %v together with the exception error", p.Name, v)
		}
		if c.Framing == spec.TCP {
			var e *packet.ErrorResponseTCP
			if !errors.As(err, &e) {
				return harness.Fail("%s: error %T %v is not *ErrorResponseTCP (frame %x)", p.Name, err, err, frame)
			}
			if e.TransactionID != c.Tx || e.UnitID != c.Unit || e.Function != c.FC&0x7F || e.Code != c.Code || e.FunctionCode() != c.FC&0x7F {
				return harness.Fail("%s: exception %+v does not carry tx=%d unit=%d fc=%d code=%d", p.Name, *e, c.Tx, c.Unit, c.FC&0x7F, c.Code)
			}
			if !bytes.Equal(e.Bytes(), frame) {
				return harness.Fail("%s: exception re-encodes to %x, frame %x", p.Name, e.Bytes(), frame)
			}
		} else {
			var e *packet.ErrorResponseRTU
			if !errors.As(err, &e) {
				return harness.Fail("%s: error %T %v is not *ErrorResponseRTU (frame %x)", p.Name, err, err, frame)
			}
			if e.UnitID != c.Unit || e.Function != c.FC&0x7F || e.Code != c.Code || e.FunctionCode() != c.FC&0x7F {
				return harness.Fail("%s: exception %+v does not carry unit=%d fc=%d code=%d", p.Name, *e, c.Unit, c.FC&0x7F, c.Code)
			}
			if !bytes.Equal(e.Bytes(), frame) {
				return harness.Fail("%s: exception re-encodes to %x, frame %x", p.Name, e.Bytes(), frame)
			}
		}
	}
	// handed directly to a per-function response parser (a caller that knows which function it asked for), an exception frame is still
	// not a response
	for _, fc := range spec.Functions {
		p := cat.ResponseParser(c.Framing, fc)
		if v, err := p.Fn(append([]byte(nil), frame...)); err == nil {
			return harness.Fail("%s returned a response %+v (no error) for the exception frame %x", p.Name, v, frame)
		} else if !cat.IsNilValue(v) {
			return harness.Fail("%s returned value %v together with error %v for the exception frame %x", p.Name, v, err, frame)
		}
	}
	// the exported recognisers agree
	err := recognise(c.Framing, append([]byte(nil), frame...))
	if err == nil {
		return harness.Fail("%s does not recognise the exception frame %x", recogniserName(c.Framing), frame)
	}
	var et *packet.ErrorResponseTCP
	var er *packet.ErrorResponseRTU
	switch {
	case c.Framing == spec.TCP && errors.As(err, &et) && et != nil:
		if et.TransactionID != c.Tx || et.UnitID != c.Unit || et.Function != c.FC&0x7F || et.Code != c.Code {
			return harness.Fail("AsTCPErrorPacket: exception %+v does not carry tx=%d unit=%d fc=%d code=%d", *et, c.Tx, c.Unit, c.FC&0x7F, c.Code)
		}
	case c.Framing == spec.RTU && errors.As(err, &er) && er != nil:
		if er.UnitID != c.Unit || er.Function != c.FC&0x7F || er.Code != c.Code {
			return harness.Fail("AsRTUErrorPacket: exception %+v does not carry unit=%d fc=%d code=%d", *er, c.Unit, c.FC&0x7F, c.Code)
		}
	default:
		return harness.Fail("%s: error %T %v for exception frame %x is not the framing's exception type", recogniserName(c.Framing), err, err, frame)
	}
	return harness.Result{NonTrivial: true, Labels: []string{"exception", c.Framing.String()}}
}

func recognise(f spec.Framing, b []byte) error {
	if f == spec.TCP {
		return packet.AsTCPErrorPacket(b)
	}
	return packet.AsRTUErrorPacket(b)
}

func recogniserName(f spec.Framing) string {
	if f == spec.TCP {
		return "AsTCPErrorPacket"
	}
	return "AsRTUErrorPacket"
}

// recogniserLen is the length of an exception frame of the framing.
func recogniserLen(f spec.Framing) int {
	if f == spec.TCP {
		return 9
	}
	return 5
}

var chkExc = harness.Define("exception-frames",
	func(t *rapid.T) excCase {
		return excCase{Framing: gen.Framing(t), FC: rapid.Uint8Range(0, 127).Draw(t, "fc"), Code: rapid.Uint8().Draw(t, "code"), Unit: rapid.Uint8().Draw(t, "unit"), Tx: rapid.Uint16().Draw(t, "tx")}
	}, runExc)

// ---------------------------------------------------------------------------
// exception frames delivered through the clients: the same frames, received as the reply to a request by the TCP client and by the
// RTU-over-network client (which find the end of the reply and call the parsers above)

type excClientCase struct {
	Kind string   `json:"kind"` // tcp | rtu-net
	Req  spec.Req `json:"req"`
	Code uint8    `json:"code"`
	// Cut: 0 = the frame arrives in one read (what the generator produces); k > 0 = the first read delivers k bytes, the next one the rest
	Cut int `json:"cut,omitempty"`
}

func runExcClient(c excClientCase) harness.Result {
	f := cli.FramingOf(c.Kind)
	frame := spec.EncodeResponse(f, spec.Resp{FC: c.Req.FC, Unit: c.Req.Unit, Tx: c.Req.Tx, IsException: true, Code: c.Code})
	ev := []xport.Event{{Kind: "data", N: len(frame)}}
	if c.Cut > 0 && c.Cut < len(frame) {
		ev = []xport.Event{{Kind: "data", N: c.Cut}, {Kind: "data", N: len(frame) - c.Cut}}
	}
	ev = append(ev, xport.Event{Kind: "ioerr"}) // backstop: no verdict depends on a timeout
	o := cli.Run(cli.Scenario{Kind: c.Kind, Req: c.Req, Stream: frame, Events: ev, ReadTimeoutMs: 300})
	if o.Panic != nil {
		return harness.Fail("client panicked on exception reply %x: %v", frame, o.Panic)
	}
	if o.Hung {
		return harness.Fail("client did not return after exception reply %x", frame)
	}
	if o.Err == nil {
		return harness.Fail("%s client returned a response (%v) and no error for the exception reply %x", c.Kind, o.Resp, frame)
	}
	if !cat.IsNilValue(o.Resp) {
		return harness.Fail("%s client returned the value %v together with the error for the exception reply %x", c.Kind, o.Resp, frame)
	}
	if f == spec.TCP {
		var e *packet.ErrorResponseTCP
		if !errors.As(o.Err, &e) {
			return harness.Fail("tcp client, exception reply %x (cut %d): error %T %q is not *ErrorResponseTCP", frame, c.Cut, o.Err, o.Err)
		}
		if e.TransactionID != c.Req.Tx || e.UnitID != c.Req.Unit || e.Function != c.Req.FC || e.Code != c.Code {
			return harness.Fail("tcp client: exception %+v does not carry tx=%d unit=%d fc=%d code=%d", *e, c.Req.Tx, c.Req.Unit, c.Req.FC, c.Code)
		}
	} else {
		var e *packet.ErrorResponseRTU
		if !errors.As(o.Err, &e) {
			return harness.Fail("rtu client, exception reply %x (cut %d): error %T %q is not *ErrorResponseRTU", frame, c.Cut, o.Err, o.Err)
		}
		if e.UnitID != c.Req.Unit || e.Function != c.Req.FC || e.Code != c.Code {
			return harness.Fail("rtu client: exception %+v does not carry unit=%d fc=%d code=%d", *e, c.Req.Unit, c.Req.FC, c.Code)
		}
	}
	// another client gets the same exception (function, code) from a device with another unit id while this error is still held
	// (a program that polls several devices and looks at the errors afterwards): the first error stays what it is
	before := fmt.Sprintf("%+v|%s", o.Err, o.Err.Error())
	r2 := c.Req
	r2.Unit ^= 0x11
	frame2 := spec.EncodeResponse(f, spec.Resp{FC: r2.FC, Unit: r2.Unit, Tx: r2.Tx, IsException: true, Code: c.Code})
	o2 := cli.Run(cli.Scenario{Kind: c.Kind, Req: r2, Stream: frame2, Events: []xport.Event{{Kind: "data", N: len(frame2)}, {Kind: "ioerr"}}, ReadTimeoutMs: 300})
	if after := fmt.Sprintf("%+v|%s", o.Err, o.Err.Error()); after != before {
		return harness.Fail("%s client: the error returned for exception reply %x read %q; after another client received %x (error %v) it reads %q: errors of different calls share storage", c.Kind, frame, before, frame2, o2.Err, after)
	}
	var et *packet.ErrorResponseTCP
	var er *packet.ErrorResponseRTU
	if (errors.As(o.Err, &et) && et.UnitID != c.Req.Unit) || (errors.As(o.Err, &er) && er.UnitID != c.Req.Unit) {
		return harness.Fail("%s client: after another client received the same exception from unit %d, the error held for unit %d reports another unit: %+v", c.Kind, r2.Unit, c.Req.Unit, o.Err)
	}
	return harness.Result{NonTrivial: true, Labels: []string{"exception-through-client", "kind:" + c.Kind, fmt.Sprintf("fc%d", c.Req.FC)}}
}

var chkExcClient = harness.Define("exception-through-client",
	func(t *rapid.T) excClientCase {
		c := excClientCase{Kind: rapid.SampledFrom([]string{cli.TCP, cli.RTUNet}).Draw(t, "kind"), Code: rapid.Uint8().Draw(t, "code")}
		if rapid.Bool().Draw(t, "usual_code") {
			c.Code = rapid.SampledFrom([]uint8{1, 2, 3, 4, 5, 6, 8, 10, 11}).Draw(t, "code_usual")
		}
		c.Req = gen.LegalReq(t, gen.FC(t), true)
		if c.Req.FC == 23 && c.Req.Qty > 124 {
			c.Req.Qty = 124 // (125 is refused by the constructor: C01's listed finding)
		}
		// (how the clients find the end of a reply that arrives in pieces is C07's subject and has listed findings for FC17 and for
		// RTU framing: here the frame always arrives in one read)
		return c
	}, runExcClient)

func TestExceptionThroughClient(t *testing.T) {
	chkExcClient.Rapid(t, harness.Pick(1500, 60000))
	// every exception code x every function x both clients, in one read
	idx := 0
	for _, kind := range []string{cli.TCP, cli.RTUNet} {
		for _, fc := range []uint8{1, 2, 3, 4, 5, 6, 15, 16, 17, 23} {
			idx++
			if !harness.Mine(idx) {
				continue
			}
			for code := 0; code < 256; code += harness.Pick(5, 1) {
				r := spec.Req{FC: fc, Unit: 7, Tx: 0x0102, Addr: 3, Qty: 2, WAddr: 1, WQty: 1, ByteCount: 2, Payload: []byte{0x12, 0x34}}
				switch fc {
				case 5:
					r.Value = 0xFF00
				case 6:
					r.Value = 0x1234
				case 15:
					r.Qty, r.ByteCount, r.Payload = 2, 1, []byte{3}
				case 16:
					r.Qty = 1
				case 17:
					r = spec.Req{FC: 17, Unit: 7, Tx: 0x0102}
				}
				if !chkExcClient.EvalFast(t, excClientCase{Kind: kind, Req: r, Code: uint8(code)}) {
					return
				}
			}
		}
	}
}

// agedClientCase: the same on one client that has been in use for a long time: N calls on one Client value; every reply (a normal
// response or an exception) arrives in one read and must come back as exactly what was sent - the 1st like the 254th and the 9363rd.
type agedClientCase struct {
	Kind string `json:"kind"`
	N    int    `json:"n"`
	Seed uint64 `json:"seed"`
	// MaxQty bounds the register counts of the FC3/FC4 requests (small frames age a client differently from large ones)
	MaxQty int `json:"max_qty"`
	// ExplicitParser: the client's configuration names the standard response parser explicitly (see cli.Scenario)
	ExplicitParser bool `json:"explicit_parser,omitempty"`
}

func runAgedClient(c agedClientCase) harness.Result {
	f := cli.FramingOf(c.Kind)
	sess, err := cli.NewSessionWith(c.Kind, 300, false, c.ExplicitParser)
	if err != nil {
		return harness.Fail("harness: %v", err)
	}
	defer sess.Close()
	dev := device.New(c.Seed)
	s := c.Seed
	for i := 0; i < c.N; i++ {
		v := harness.SplitMix64(&s)
		r := spec.Req{FC: 3 + uint8(v&1), Unit: uint8(v >> 8), Tx: uint16(v >> 16), Addr: uint16(v >> 32), Qty: 1 + uint16((v>>48)%uint64(c.MaxQty))}
		if int(r.Addr)+int(r.Qty) > 65536 {
			r.Addr = uint16(65536 - int(r.Qty))
		}
		d := dev
		if i%7 == 3 {
			// Read Server ID: the reply's length cannot be anticipated from the request (ids of 1..239 bytes, by device)
			r = spec.Req{FC: 17, Unit: uint8(v >> 8), Tx: uint16(v >> 16)}
			d = device.New(c.Seed + uint64(i%16))
		}
		reqBytes := spec.EncodeRequest(f, r)
		code := uint8(0)
		var frame []byte
		if i%5 == 4 {
			code = 1 + uint8(v>>4)%11
			frame = spec.EncodeResponse(f, spec.Resp{FC: r.FC, Unit: r.Unit, Tx: r.Tx, IsException: true, Code: code})
		} else {
			frame = d.Answer(f, reqBytes)
		}
		o := sess.Call(r, frame, []xport.Event{{Kind: "data", N: len(frame)}, {Kind: "ioerr"}})
		where := fmt.Sprintf("call #%d on one long-lived %s client", i+1, c.Kind)
		if o.Panic != nil {
			return harness.Fail("%s: panic: %v", where, o.Panic)
		}
		if o.Hung {
			return harness.Fail("%s did not return", where)
		}
		if code != 0 {
			var et *packet.ErrorResponseTCP
			var er *packet.ErrorResponseRTU
			switch {
			case f == spec.TCP && errors.As(o.Err, &et) && et.Code == code && et.UnitID == r.Unit && et.Function == r.FC && et.TransactionID == r.Tx:
			case f == spec.RTU && errors.As(o.Err, &er) && er.Code == code && er.UnitID == r.Unit && er.Function == r.FC:
			default:
				return harness.Fail("%s: exception reply %x: got response %v, error %T %v", where, frame, o.Resp, o.Err, o.Err)
			}
			continue
		}
		if o.Err != nil || cat.IsNilValue(o.Resp) {
			return harness.Fail("%s: well-formed reply %x (%d bytes) to request %x: error %T %v", where, frame, len(frame), reqBytes, o.Err, o.Err)
		}
		if !bytes.Equal(o.Resp.Bytes(), frame) {
			return harness.Fail("%s: reply %x was decoded to a response that encodes to %x", where, frame, o.Resp.Bytes())
		}
	}
	return harness.Result{NonTrivial: c.N >= 300, Labels: []string{"kind:" + c.Kind, fmt.Sprintf("calls-on-one-client:%d", c.N)}, Weight: int64(c.N)}
}

var chkAgedClient = harness.Define("responses-through-long-lived-client",
	func(t *rapid.T) agedClientCase {
		return agedClientCase{Kind: rapid.SampledFrom([]string{cli.TCP, cli.RTUNet}).Draw(t, "kind"), N: rapid.SampledFrom([]int{300, 2500, 7000, 12000}).Draw(t, "n"),
			Seed: rapid.Uint64().Draw(t, "seed"), MaxQty: rapid.SampledFrom([]int{1, 10, 125}).Draw(t, "max_qty"), ExplicitParser: rapid.Bool().Draw(t, "explicit_parser")}
	}, runAgedClient)

func TestLongLivedClient(t *testing.T) {
	chkAgedClient.Rapid(t, harness.Pick(6, 60))
	if harness.Thorough() {
		for i, kind := range []string{cli.TCP, cli.RTUNet} {
			if harness.Mine(i + 1) {
				chkAgedClient.Eval(t, agedClientCase{Kind: kind, N: 140000, Seed: harness.Seed() + uint64(i), MaxQty: 3})
			}
		}
	}
}

// ---------------------------------------------------------------------------
// frames whose length disagrees with their own byte-count field

type badCase struct {
	Framing spec.Framing `json:"framing"`
	Resp    spec.Resp    `json:"resp"`
	// Mode: "count" replace the byte count field by Count; "body" change body length by Delta keeping the count.
	Mode  string `json:"mode"`
	Count uint8  `json:"count"`
	Delta int    `json:"delta"`
	// FixMBAP: keep the MBAP length field consistent with the new frame length (TCP)
	FixMBAP bool `json:"fix_mbap"`
}

func buildBad(c badCase) ([]byte, bool) {
	pdu := spec.ResponsePDU(c.Resp)
	bcIdx := 1
	switch c.Mode {
	case "count":
		if pdu[bcIdx] == c.Count {
			return nil, false
		}
		if c.Resp.FC == 17 {
			// only id lengths that overrun the frame are a disagreement
			if int(c.Count)+3 <= len(pdu) { // fc + len + id + status must fit
				return nil, false
			}
		}
		pdu[bcIdx] = c.Count
	case "body":
		if c.Delta == 0 {
			return nil, false
		}
		if c.Delta > 0 {
			pdu = append(pdu, harness.Bytes(uint64(c.Delta), c.Delta)...)
		} else {
			if len(pdu)+c.Delta < 2 {
				return nil, false
			}
			pdu = pdu[:len(pdu)+c.Delta]
		}
		if c.Resp.FC == 17 {
			if int(pdu[1])+3 <= len(pdu) {
				return nil, false // still a (different) legal frame
			}
		}
	}
	frame := spec.Frame(c.Framing, c.Resp.Tx, c.Resp.Unit, pdu)
	if c.Framing == spec.TCP && !c.FixMBAP {
		orig := 1 + len(spec.ResponsePDU(c.Resp))
		frame[4], frame[5] = byte(orig>>8), byte(orig)
	}
	return frame, true
}

func runBad(c badCase) harness.Result {
	frame, ok := buildBad(c)
	if !ok {
		return harness.Result{Labels: []string{"not-a-disagreement"}}
	}
	for _, p := range parsersFor(c.Framing, c.Resp.FC) {
		v, err := p.Fn(append([]byte(nil), frame...))
		if err == nil {
			return harness.Fail("%s accepted frame %x whose length disagrees with its byte count field: %+v", p.Name, frame, v)
		}
		if !cat.IsNilValue(v) {
			return harness.Fail("%s: error %v together with non-nil value %v", p.Name, err, v)
		}
		if c.Framing == spec.TCP {
			var e *packet.ErrorResponseTCP
			if errors.As(err, &e) {
				return harness.Fail("%s reported frame %x as a device exception", p.Name, frame)
			}
		}
	}
	return harness.Result{NonTrivial: true, Labels: []string{"mismatch:" + c.Mode, fmt.Sprintf("fc%d", c.Resp.FC)}}
}

func genBad(t *rapid.T) badCase {
	fc := rapid.SampledFrom([]uint8{1, 2, 3, 4, 23, 17}).Draw(t, "fc")
	var rc respCase
	for {
		rc = genResp(t)
		if rc.Resp.FC == fc || true {
			break
		}
	}
	// regenerate with the wanted function: build directly
	r := spec.Resp{FC: fc, Unit: rapid.Uint8().Draw(t, "u"), Tx: rapid.Uint16().Draw(t, "x")}
	switch fc {
	case 1, 2:
		r.Data = gen.Payload(t, "d", rapid.IntRange(1, 250).Draw(t, "dn"))
	case 3, 4, 23:
		r.Data = gen.Payload(t, "d", 2*rapid.IntRange(1, 125).Draw(t, "dn"))
	case 17:
		r.ServerID = gen.Payload(t, "id", rapid.IntRange(1, 100).Draw(t, "idn"))
		r.Additional = gen.Payload(t, "add", rapid.IntRange(0, 50).Draw(t, "addn"))
	}
	_ = rc
	c := badCase{Framing: gen.Framing(t), Resp: r, FixMBAP: rapid.Bool().Draw(t, "fixmbap")}
	if rapid.Bool().Draw(t, "mode") {
		c.Mode = "count"
		c.Count = rapid.Uint8().Draw(t, "count")
		if rapid.Bool().Draw(t, "near") {
			c.Count = uint8(int(spec.ResponsePDU(r)[1]) + rapid.SampledFrom([]int{-2, -1, 1, 2}).Draw(t, "dc"))
		}
	} else {
		c.Mode = "body"
		c.Delta = rapid.SampledFrom([]int{-3, -2, -1, 1, 2, 3}).Draw(t, "delta")
		if rapid.IntRange(0, 3).Draw(t, "wrap") == 0 {
			// a surplus that is invisible to a comparison made in 8 bits
			c.Delta = rapid.SampledFrom(wrapDeltas).Draw(t, "wrapdelta")
		}
	}
	return c
}

// wrapDeltas are body length changes around the multiples of 256: a frame that carries 256 bytes more than its byte count says
// disagrees with it exactly as one that carries 1 more.
var wrapDeltas = []int{253, 254, 255, 256, 257, 258, 510, 511, 512, 513, 514, 768, 1024}

var chkBad = harness.Define("bytecount-mismatch", genBad, runBad).Repeated(2)

// ---------------------------------------------------------------------------

func TestRandom(t *testing.T) {
	chkResp.Rapid(t, harness.Pick(15000, 500000))
	chkExc.Rapid(t, harness.Pick(3000, 200000))
	chkBad.Rapid(t, harness.Pick(10000, 500000))
}

func TestExceptionSweep(t *testing.T) {
	idx := 0
	for _, fr := range []spec.Framing{spec.TCP, spec.RTU} {
		for fc := 0; fc < 128; fc++ {
			for code := 0; code < 256; code++ {
				idx++
				if !harness.Mine(idx) {
					continue
				}
				if !chkExc.EvalFast(t, excCase{Framing: fr, FC: uint8(fc), Code: uint8(code), Unit: uint8(idx * 13), Tx: uint16(idx * 31)}) {
					return
				}
			}
		}
	}
	harness.Exhaustive("exception-frames", "all 128 exception function codes x 256 exception codes x {tcp,rtu}", 2*128*256)
}

func TestByteCountSweep(t *testing.T) {
	// every byte count 0..255 x every fc with a byte count x both framings x payload patterns
	pats := harness.Pick(2, 8)
	idx := 0
	n := int64(0)
	for _, fr := range []spec.Framing{spec.TCP, spec.RTU} {
		for _, fc := range []uint8{1, 2, 3, 4, 23} {
			for bc := 1; bc <= 255; bc++ {
				for p := 0; p < pats; p++ {
					idx++
					n++
					if !harness.Mine(idx) {
						continue
					}
					legal := bc <= 250
					if fc >= 3 && bc%2 != 0 {
						legal = false
					}
					c := respCase{Framing: fr, Legal: legal, Resp: spec.Resp{FC: fc, Unit: uint8(idx), Tx: uint16(idx * 7), Data: harness.Bytes(uint64(idx)+harness.Seed(), bc)}}
					if !chkResp.Eval(t, c) {
						return
					}
				}
			}
		}
	}
	harness.Exhaustive("response-roundtrip", fmt.Sprintf("every byte count 1..255 for fc1-4,23 x {tcp,rtu} x %d payloads", pats), n)
	// all byte count substitutions on base frames
	bases := harness.Pick(3, 20)
	n = 0
	for _, fr := range []spec.Framing{spec.TCP, spec.RTU} {
		for _, fc := range []uint8{1, 2, 3, 4, 23, 17} {
			for b := 0; b < bases; b++ {
				s := uint64(b)*977 + uint64(fc) + harness.Seed()
				r := spec.Resp{FC: fc, Unit: uint8(s), Tx: uint16(s * 3)}
				k := 1 + int(harness.SplitMix64(&s)%125)
				switch fc {
				case 1, 2:
					r.Data = harness.Bytes(s, k*2)
				case 3, 4, 23:
					r.Data = harness.Bytes(s, k*2)
				case 17:
					r.ServerID = harness.Bytes(s, k)
					r.Additional = harness.Bytes(s+1, k%7)
				}
				for _, d := range wrapDeltas {
					idx++
					n++
					if !harness.Mine(idx) {
						continue
					}
					for _, fix := range []bool{true, false} {
						if !chkBad.EvalFast(t, badCase{Framing: fr, Resp: r, Mode: "body", Delta: d, FixMBAP: fix}) {
							return
						}
					}
				}
				for cnt := 0; cnt < 256; cnt++ {
					idx++
					n++
					if !harness.Mine(idx) {
						continue
					}
					for _, fix := range []bool{true, false} {
						if !chkBad.EvalFast(t, badCase{Framing: fr, Resp: r, Mode: "count", Count: uint8(cnt), FixMBAP: fix}) {
							return
						}
					}
				}
			}
		}
	}
	harness.Exhaustive("bytecount-mismatch", fmt.Sprintf("every substituted byte count value 0..255, and every surplus of 253..258, 510..514, 768, 1024 body bytes, on %d base frames per function (fc1-4,17,23) x {tcp,rtu}", bases), n)
}
