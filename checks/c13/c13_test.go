package c13

import (
	"bytes"
	"fmt"
	"runtime"
	"sync"
	"sync/atomic"
	"testing"

	modbus "github.com/aldas/go-modbus-client"
	"github.com/aldas/go-modbus-client/packet"
	"pgregory.net/rapid"

	"verif/internal/cat"
	"verif/internal/fgen"
	"verif/internal/gen"
	"verif/internal/harness"
	"verif/internal/hostile"
	"verif/internal/spec"
)

func TestMain(m *testing.M) { harness.Main(m) }

func TestReplay(t *testing.T)  { harness.RunReplay(t) }
func TestRegress(t *testing.T) { harness.RunRegress(t) }

// action is one read on the response.
type action struct {
	Op string `json:"op"` // access | extract | clobber | coil | extract-coils
	// access / clobber (Register, DoubleRegister, QuadRegister then overwrite the returned slice)
	Access spec.Access `json:"access,omitempty"`
	// NewView: obtain a fresh Registers view (AsRegisters) for this action instead of reusing the first one
	NewView bool `json:"new_view,omitempty"`
	// extract
	Fields  []modbus.Field `json:"fields,omitempty"`
	Lenient bool           `json:"lenient,omitempty"`
	// coil
	CoilAddr int  `json:"coil_addr,omitempty"`
	ViaInput bool `json:"via_input,omitempty"`
}

type histCase struct {
	Framing spec.Framing `json:"framing"`
	FC      uint8        `json:"fc"` // 3,4,23 registers; 1,2 coils
	Start   int          `json:"start"`
	Payload spec.Hex     `json:"payload"`
	Default uint8        `json:"default_order"`
	Actions []action     `json:"actions"`
	// Reversed: additionally perform the same actions in reverse order on a sibling copy and compare per-action results
	Reversed bool `json:"reversed"`
	// Parallel >= 2: additionally the actions are dealt out to this many goroutines that read a sibling copy at the same time (each
	// repeats its share Rounds times) while an observer keeps comparing the payload with the pristine bytes. Reads without side
	// effects cannot disturb each other; the binary is built with the race detector, which reports any write to the shared payload.
	// WantText: texts the payload holds at given addresses (ground truth placed by the case's author): a String read (or a string field)
	// of 8 characters at such an address must return exactly that text. The pristine-copy oracle cannot see errors that come from state
	// shared by ALL responses (a process-wide cache), this can.
	WantText map[int]string `json:"want_text,omitempty"`
	Parallel int            `json:"parallel,omitempty"`
	Rounds   int            `json:"rounds,omitempty"`
}

type live struct {
	frame []byte
	resp  packet.Response
	regs  *packet.Registers
}

func open(c histCase) (*live, error) {
	frame := spec.EncodeResponse(c.Framing, spec.Resp{FC: c.FC, Unit: 1, Tx: 7, Data: c.Payload})
	var resp packet.Response
	var err error
	if c.Framing == spec.TCP {
		resp, err = packet.ParseTCPResponse(frame)
	} else {
		resp, err = packet.ParseRTUResponseWithCRC(frame)
	}
	if err != nil {
		return nil, err
	}
	l := &live{frame: frame, resp: resp}
	if rr, ok := resp.(modbus.RegistersResponse); ok {
		l.regs, err = rr.AsRegisters(uint16(c.Start))
		if err != nil {
			return nil, err
		}
		if c.Default != 0 {
			l.regs.WithByteOrder(packet.ByteOrder(c.Default))
		}
	}
	return l, nil
}

func dataOf(resp packet.Response) []byte {
	switch r := resp.(type) {
	case *packet.ReadHoldingRegistersResponseTCP:
		return r.Data
	case *packet.ReadHoldingRegistersResponseRTU:
		return r.Data
	case *packet.ReadInputRegistersResponseTCP:
		return r.Data
	case *packet.ReadInputRegistersResponseRTU:
		return r.Data
	case *packet.ReadWriteMultipleRegistersResponseTCP:
		return r.Data
	case *packet.ReadWriteMultipleRegistersResponseRTU:
		return r.Data
	case *packet.ReadCoilsResponseTCP:
		return r.Data
	case *packet.ReadCoilsResponseRTU:
		return r.Data
	case *packet.ReadDiscreteInputsResponseTCP:
		return r.Data
	case *packet.ReadDiscreteInputsResponseRTU:
		return r.Data
	}
	return nil
}

type result struct {
	val    interface{}
	err    string
	fields []modbus.FieldValue
	panic  interface{}
}

func (l *live) do(c histCase, a action) (r result) {
	defer func() {
		if p := recover(); p != nil {
			r.panic = p
		}
	}()
	regs := l.regs
	if a.NewView && regs != nil {
		nv, err := l.resp.(modbus.RegistersResponse).AsRegisters(uint16(c.Start))
		if err != nil {
			return result{err: err.Error()}
		}
		if c.Default != 0 {
			nv.WithByteOrder(packet.ByteOrder(c.Default))
		}
		regs = nv
	}
	switch a.Op {
	case "access", "clobber":
		v, err := cat.CallAccess(regs, a.Access)
		r.val = v
		if b, ok := v.([]byte); ok {
			r.val = append([]byte(nil), b...)
			if a.Op == "clobber" {
				for i := range b {
					b[i] = 0xAA
				}
			}
		}
		if err != nil {
			r.err = err.Error()
		}
	case "extract", "extract-coils":
		br := modbus.BuilderRequest{StartAddress: uint16(c.Start), Fields: a.Fields}
		fv, err := br.ExtractFields(l.resp, a.Lenient)
		r.fields = fv
		if err != nil {
			r.err = err.Error()
		}
	case "coil":
		var v bool
		var err error
		switch x := l.resp.(type) {
		case *packet.ReadCoilsResponseTCP:
			v, err = x.IsCoilSet(uint16(c.Start), uint16(a.CoilAddr))
		case *packet.ReadCoilsResponseRTU:
			v, err = x.IsCoilSet(uint16(c.Start), uint16(a.CoilAddr))
		case *packet.ReadDiscreteInputsResponseTCP:
			if a.ViaInput {
				v, err = x.IsInputSet(uint16(c.Start), uint16(a.CoilAddr))
			} else {
				v, err = x.IsCoilSet(uint16(c.Start), uint16(a.CoilAddr))
			}
		case *packet.ReadDiscreteInputsResponseRTU:
			if a.ViaInput {
				v, err = x.IsInputSet(uint16(c.Start), uint16(a.CoilAddr))
			} else {
				v, err = x.IsCoilSet(uint16(c.Start), uint16(a.CoilAddr))
			}
		}
		r.val = v
		if err != nil {
			r.err = err.Error()
		}
	}
	return
}

func sameResult(a, b result) bool {
	if a.err != b.err || len(a.fields) != len(b.fields) {
		return false
	}
	if !spec.SameValue(a.val, b.val) {
		return false
	}
	for i := range a.fields {
		fa, fb := a.fields[i], b.fields[i]
		if fa.Field != fb.Field || !spec.SameValue(fa.Value, fb.Value) {
			return false
		}
		if (fa.Error == nil) != (fb.Error == nil) || (fa.Error != nil && fa.Error.Error() != fb.Error.Error()) {
			return false
		}
	}
	return true
}

func show(r result) string {
	if r.panic != nil {
		return fmt.Sprintf("panic(%v)", r.panic)
	}
	if r.fields != nil {
		s := "["
		for _, f := range r.fields {
			s += fmt.Sprintf("%s=%v(%v) ", f.Field.Name, f.Value, f.Error)
		}
		return s + "] err=" + r.err
	}
	return fmt.Sprintf("%v err=%s", r.val, r.err)
}

func runHist(c histCase) harness.Result {
	l, err := open(c)
	if err != nil {
		return harness.Fail("cannot parse the well-formed response: %v", err)
	}
	pristineFrame := append([]byte(nil), l.frame...)
	pristineData := append([]byte(nil), c.Payload...)
	results := make([]result, len(c.Actions))
	// registers touched per action, for the non-triviality rule
	type span struct{ lo, hi int }
	var spans []span
	overlap := false
	for i, a := range c.Actions {
		got := l.do(c, a)
		if got.panic != nil {
			return harness.Fail("step %d (%s) panicked: %v", i, a.Op, got.panic)
		}
		// reference: same call on a fresh response parsed from pristine bytes
		fresh, err := open(c)
		if err != nil {
			return harness.Fail("harness: %v", err)
		}
		ref := fresh.do(c, a)
		if !sameResult(got, ref) {
			return harness.Fail("step %d (%s %+v): result after the preceding reads is %s, but the same call on a freshly parsed copy of the response gives %s", i, a.Op, a, show(got), show(ref))
		}
		results[i] = got
		if c.WantText != nil {
			if a.Op == "access" && (a.Access.Kind == "String" || a.Access.Kind == "StringWithByteOrder") {
				if w, ok := c.WantText[a.Access.Addr]; ok && a.Access.Length == len(w) {
					if sv, _ := got.val.(string); sv != w || got.err != "" {
						return harness.Fail("step %d: String(%d, %d) returned %q (err %q), the registers hold %q", i, a.Access.Addr, a.Access.Length, got.val, got.err, w)
					}
				}
			}
			for _, fv := range got.fields {
				if w, ok := c.WantText[int(fv.Field.Address)]; ok && fv.Field.Type == modbus.FieldTypeString && int(fv.Field.Length) == len(w) {
					if sv, _ := fv.Value.(string); sv != w || fv.Error != nil {
						return harness.Fail("step %d: string field %q at %d extracted as %q (err %v), the registers hold %q", i, fv.Field.Name, fv.Field.Address, fv.Value, fv.Error, w)
					}
				}
			}
		}
		if (a.Op == "extract" || a.Op == "extract-coils") && len(a.Fields) > 1 && got.err != "" && a.Lenient && len(got.fields) == len(a.Fields) {
			// lenient extraction with failures: every field still stands for itself - it fails or succeeds, with the same value, as
			// when it is extracted alone (an earlier failing field must not influence the reads that follow it)
			for fi, f := range a.Fields {
				solo, err := open(c)
				if err != nil {
					return harness.Fail("harness: %v", err)
				}
				one := solo.do(c, action{Op: a.Op, Fields: []modbus.Field{f}, Lenient: true})
				if len(one.fields) != 1 {
					continue
				}
				g := got.fields[fi]
				if (g.Error == nil) != (one.fields[0].Error == nil) || (g.Error == nil && !spec.SameValue(one.fields[0].Value, g.Value)) {
					return harness.Fail("step %d (lenient extraction): field %d (%+v) gives (%v, err=%v) when extracted after the fields before it, but (%v, err=%v) when extracted alone: an earlier read influenced it", i, fi, f, g.Value, g.Error, one.fields[0].Value, one.fields[0].Error)
				}
			}
		}
		if (a.Op == "extract" || a.Op == "extract-coils") && len(a.Fields) > 1 && got.err == "" {
			// reading order independence inside one extraction: every field's value must equal the value obtained by extracting
			// that field alone from a fresh copy (a read must not influence the reads that follow it)
			for fi, f := range a.Fields {
				solo, err := open(c)
				if err != nil {
					return harness.Fail("harness: %v", err)
				}
				one := solo.do(c, action{Op: a.Op, Fields: []modbus.Field{f}, Lenient: a.Lenient})
				if one.err != "" || len(one.fields) != 1 || fi >= len(got.fields) {
					return harness.Fail("step %d: field %d (%+v) extracted alone gives %s but together with the others the extraction succeeded", i, fi, f, show(one))
				}
				if !spec.SameValue(one.fields[0].Value, got.fields[fi].Value) {
					return harness.Fail("step %d: field %d (%+v) reads %v when extracted together with the fields before it, but %v when extracted alone: a read influenced a later read", i, fi, f, got.fields[fi].Value, one.fields[0].Value)
				}
			}
		}
		if !bytes.Equal(dataOf(l.resp), pristineData) {
			return harness.Fail("step %d (%s %+v) changed the response payload:\n  before %x\n  after  %x", i, a.Op, a, pristineData, dataOf(l.resp))
		}
		if !bytes.Equal(l.frame, pristineFrame) {
			return harness.Fail("step %d (%s) changed the frame buffer the response was parsed from", i, a.Op)
		}
		if re := l.resp.Bytes(); !bytes.Equal(re, pristineFrame) {
			return harness.Fail("step %d (%s): response re-encodes to %x, originally %x", i, a.Op, re, pristineFrame)
		}
		var sp []span
		switch a.Op {
		case "access", "clobber":
			sp = append(sp, span{a.Access.Addr, a.Access.Addr + a.Access.Size()})
		case "extract":
			for _, f := range a.Fields {
				sp = append(sp, span{int(f.Address), int(f.Address) + fgen.Size(f)})
			}
		case "coil":
			sp = append(sp, span{a.CoilAddr, a.CoilAddr + 1})
		case "extract-coils":
			for _, f := range a.Fields {
				sp = append(sp, span{int(f.Address), int(f.Address) + 1})
			}
		}
		for _, s := range sp {
			for _, o := range spans {
				if s.lo < o.hi && o.lo < s.hi {
					overlap = true
				}
			}
		}
		spans = append(spans, sp...)
	}
	if c.Reversed {
		sib, err := open(c)
		if err != nil {
			return harness.Fail("harness: %v", err)
		}
		for i := len(c.Actions) - 1; i >= 0; i-- {
			got := sib.do(c, c.Actions[i])
			if !sameResult(got, results[i]) {
				return harness.Fail("order dependence: action %d (%s %+v) gives %s in forward order and %s when the actions run in reverse order", i, c.Actions[i].Op, c.Actions[i], show(results[i]), show(got))
			}
		}
	}
	if c.Parallel >= 2 && len(c.Actions) >= 2 {
		sib, err := open(c)
		if err != nil {
			return harness.Fail("harness: %v", err)
		}
		rounds := c.Rounds
		if rounds < 1 {
			rounds = 1
		}
		type bad struct {
			i   int
			got result
		}
		bads := make([]*bad, c.Parallel)
		var wg sync.WaitGroup
		var stop atomic.Bool
		var torn atomic.Pointer[[]byte]
		obsDone := make(chan struct{})
		go func() {
			defer close(obsDone)
			for !stop.Load() {
				if d := dataOf(sib.resp); !bytes.Equal(d, pristineData) {
					cp := append([]byte(nil), d...)
					torn.Store(&cp)
					return
				}
				runtime.Gosched()
			}
		}()
		start := make(chan struct{})
		for g := 0; g < c.Parallel; g++ {
			wg.Add(1)
			go func(g int) {
				defer wg.Done()
				<-start
				for r := 0; r < rounds; r++ {
					for i := g; i < len(c.Actions); i += c.Parallel {
						got := sib.do(c, c.Actions[i])
						if !sameResult(got, results[i]) && bads[g] == nil {
							bads[g] = &bad{i, got}
						}
					}
				}
			}(g)
		}
		close(start)
		wg.Wait()
		stop.Store(true)
		<-obsDone
		if d := torn.Load(); d != nil {
			return harness.Fail("while %d goroutines were reading the same response, its payload was observed as %x (pristine %x): a read modified the shared payload, at least temporarily", c.Parallel, *d, pristineData)
		}
		for g, b := range bads {
			if b != nil {
				return harness.Fail("goroutine %d of %d reading the same response at the same time: action %d (%s %+v) gave %s, alone it gives %s", g, c.Parallel, b.i, c.Actions[b.i].Op, c.Actions[b.i], show(b.got), show(results[b.i]))
			}
		}
		if !bytes.Equal(dataOf(sib.resp), pristineData) {
			return harness.Fail("payload changed after concurrent reads: %x, pristine %x", dataOf(sib.resp), pristineData)
		}
	}
	labels := []string{fmt.Sprintf("fc%d", c.FC), fmt.Sprintf("steps:%d", len(c.Actions)/5*5)}
	if c.Parallel >= 2 && len(c.Actions) >= 2 {
		labels = append(labels, "concurrent-readers")
	}
	if overlap {
		labels = append(labels, "overlapping-reads")
	}
	if len(c.WantText) >= 2 {
		labels = append(labels, "texts-with-equal-checksum")
	}
	return harness.Result{NonTrivial: len(c.Actions) >= 2 && overlap, Labels: labels}
}

// anyOrder: side-effect freedom must hold for every byte order value a caller can pass, not only the documented
// constants (the oracle is the library itself on a pristine copy, so no reference semantics are needed).
func anyOrder(t *rapid.T) uint8 {
	switch rapid.IntRange(0, 3).Draw(t, "order_mode") {
	case 0:
		return rapid.SampledFrom([]uint8{spec.LowWordFirst, spec.HighWordFirst, spec.LowWordFirst | spec.HighWordFirst, spec.BigEndian | spec.LittleEndian, 16, 0x80, 0xFF}).Draw(t, "order_odd")
	case 1:
		return rapid.Uint8().Draw(t, "order_any")
	}
	return rapid.SampledFrom(spec.DocumentedOrders).Draw(t, "order")
}

func genHist(t *rapid.T) histCase {
	coils := rapid.IntRange(0, 4).Draw(t, "coils") == 0
	c := histCase{Framing: gen.Framing(t), Reversed: rapid.Bool().Draw(t, "reversed")}
	nAct := rapid.IntRange(1, 30).Draw(t, "nactions")
	if coils {
		c.FC = rapid.SampledFrom([]uint8{1, 2}).Draw(t, "fc")
		nb := rapid.IntRange(1, 12).Draw(t, "nbytes")
		c.Payload = gen.Payload(t, "payload", nb)
		c.Start = rapid.SampledFrom([]int{0, 1, 100, 65535 - 8*nb + 1}).Draw(t, "start")
		for i := 0; i < nAct; i++ {
			if rapid.IntRange(0, 3).Draw(t, "op") == 0 {
				n := rapid.IntRange(1, 6).Draw(t, "nfields")
				a := action{Op: "extract-coils", Lenient: rapid.Bool().Draw(t, "lenient")}
				for k := 0; k < n; k++ {
					a.Fields = append(a.Fields, modbus.Field{Name: fmt.Sprintf("c%d", k), ServerAddress: "s", Type: modbus.FieldTypeCoil, Address: uint16(c.Start + rapid.IntRange(0, 8*nb+1).Draw(t, "caddr"))})
				}
				c.Actions = append(c.Actions, a)
			} else {
				c.Actions = append(c.Actions, action{Op: "coil", CoilAddr: (c.Start + rapid.IntRange(-1, 8*nb+1).Draw(t, "caddr") + 65536) % 65536, ViaInput: rapid.Bool().Draw(t, "via_input")})
			}
		}
		return c
	}
	c.FC = rapid.SampledFrom([]uint8{3, 4, 23}).Draw(t, "fc")
	count := rapid.SampledFrom([]int{1, 2, 4, 8, 16, 125, -1}).Draw(t, "count")
	if count < 0 {
		count = rapid.IntRange(1, 125).Draw(t, "count_any")
	}
	c.Payload = gen.Payload(t, "payload", 2*count)
	c.Start = rapid.SampledFrom([]int{0, 10, 65536 - count, 30000}).Draw(t, "start")
	if rapid.Bool().Draw(t, "with_default") {
		c.Default = anyOrder(t)
	}
	// reads concentrate on a small hot zone so that they overlap
	hot := rapid.IntRange(0, count-1).Draw(t, "hot")
	addrIn := func() int {
		if rapid.Bool().Draw(t, "hotaddr") {
			return c.Start + hot - rapid.IntRange(0, 3).Draw(t, "back")
		}
		return c.Start + rapid.IntRange(-1, count).Draw(t, "off")
	}
	for i := 0; i < nAct; i++ {
		switch rapid.IntRange(0, 5).Draw(t, "op") {
		case 0, 1, 2:
			a := spec.Access{Kind: rapid.SampledFrom(spec.Kinds).Draw(t, "kind"), Order: anyOrder(t),
				Bit: rapid.IntRange(0, 15).Draw(t, "bit"), High: rapid.Bool().Draw(t, "high"), Length: rapid.IntRange(1, 9).Draw(t, "len")}
			a.Addr = (addrIn() + 65536) % 65536
			c.Actions = append(c.Actions, action{Op: "access", Access: a, NewView: rapid.Bool().Draw(t, "newview")})
		case 3:
			a := spec.Access{Kind: rapid.SampledFrom([]string{"Register", "DoubleRegister", "QuadRegister"}).Draw(t, "kind"), Order: anyOrder(t)}
			a.Addr = (addrIn() + 65536) % 65536
			c.Actions = append(c.Actions, action{Op: "clobber", Access: a})
		case 4, 5:
			n := rapid.IntRange(1, 6).Draw(t, "nfields")
			a := action{Op: "extract", Lenient: rapid.Bool().Draw(t, "lenient")}
			for k := 0; k < n; k++ {
				lo := c.Start + hot - 2
				if lo < 0 {
					lo = 0
				}
				hi := c.Start + hot + 1
				if hi > 65535 {
					hi = 65535
				}
				f := fgen.RegisterField(t, fmt.Sprintf("f%d", k), lo, hi)
				f.ServerAddress = "s"
				f.ByteOrder = packet.ByteOrder(anyOrder(t))
				a.Fields = append(a.Fields, f)
				if rapid.IntRange(0, 3).Draw(t, "neardup") == 0 {
					a.Fields = append(a.Fields, fgen.NearDuplicate(t, f, fmt.Sprintf("f%dn", k)))
				}
			}
			if rapid.IntRange(0, 3).Draw(t, "dup") == 0 && len(a.Fields) > 0 {
				a.Fields = append(a.Fields, a.Fields[0])
			}
			c.Actions = append(c.Actions, a)
		}
	}
	if rapid.IntRange(0, 3).Draw(t, "repeat") == 0 && len(c.Actions) > 0 {
		// repeat the previous call
		c.Actions = append(c.Actions, c.Actions[len(c.Actions)-1])
	}
	if rapid.IntRange(0, 3).Draw(t, "parallel") == 0 {
		c.Parallel = rapid.IntRange(2, 3).Draw(t, "goroutines")
		c.Rounds = rapid.SampledFrom([]int{1, 5, 20}).Draw(t, "rounds")
	}
	return c
}

var chkHist = harness.Define("read-histories", genHist, runHist).Repeated(2)

func TestRandom(t *testing.T) {
	chkHist.Rapid(t, harness.Pick(3000, 200000))
}

// TestSameStringTwice: the shortest history that matters, for every documented order and both access paths.
func TestSameStringTwice(t *testing.T) {
	for _, ord := range append(append([]uint8(nil), spec.DocumentedOrders...), spec.LowWordFirst, spec.HighWordFirst, 3, 12, 0xFF) {
		for _, fc := range []uint8{3, 4, 23} {
			for _, l := range []int{1, 2, 3, 4, 7} {
				a := action{Op: "access", Access: spec.Access{Kind: "StringWithByteOrder", Addr: 11, Length: l, Order: ord}}
				b := action{Op: "access", Access: spec.Access{Kind: "Uint16", Addr: 11}}
				e := action{Op: "extract", Fields: []modbus.Field{{Name: "s", ServerAddress: "x", Type: modbus.FieldTypeString, Address: 11, Length: uint8(l), ByteOrder: packet.ByteOrder(ord)}, {Name: "u", ServerAddress: "x", Type: modbus.FieldTypeUint16, Address: 11}}}
				for _, acts := range [][]action{{a, a}, {a, b}, {b, a, b}, {e, e}, {e, a, b}} {
					c := histCase{Framing: spec.TCP, FC: fc, Start: 10, Payload: []byte{1, 2, 0x41, 0x42, 0x43, 0x44, 0x45, 0x46, 0x47, 0x48, 9, 9}, Actions: acts, Reversed: true}
					if !chkHist.Eval(t, c) {
						return
					}
					c.Parallel, c.Rounds = 2, 10
					if !chkHist.Eval(t, c) {
						return
					}
				}
			}
		}
	}
}

// TestCollidingTexts: two different texts that collide under a cheap checksum (FNV, CRC-32, Adler-32, byte sum) sit side by side in one
// response and are read alternately, in both orders, through the accessor and through field extraction: a read must not be answered
// from what a checksum-keyed memory of earlier reads believes to be "the same text".
func TestCollidingTexts(t *testing.T) {
	for pi, pair := range hostile.CollidingTexts() {
		if !harness.Mine(pi + 1) {
			continue
		}
		payload := make([]byte, 20)
		hostile.PlantText(payload, 0, []byte(pair[0]), true)
		hostile.PlantText(payload, 10, []byte(pair[1]), true)
		a := action{Op: "access", Access: spec.Access{Kind: "String", Addr: 100, Length: 8}}
		b := action{Op: "access", Access: spec.Access{Kind: "String", Addr: 105, Length: 8}}
		e := action{Op: "extract", Fields: []modbus.Field{{Name: "a", ServerAddress: "x", Type: modbus.FieldTypeString, Address: 100, Length: 8}, {Name: "b", ServerAddress: "x", Type: modbus.FieldTypeString, Address: 105, Length: 8}}}
		e2 := action{Op: "extract", Fields: []modbus.Field{e.Fields[1], e.Fields[0]}}
		for _, fc := range []uint8{3, 4} {
			for _, acts := range [][]action{{a, b, a, b}, {b, a, b, a}, {e, e2}, {e2, e}, {a, e2, b}} {
				c := histCase{Framing: spec.RTU, FC: fc, Start: 100, Payload: payload, Actions: acts, Reversed: true, WantText: map[int]string{100: pair[0], 105: pair[1]}}
				if !chkHist.Eval(t, c) {
					return
				}
			}
		}
	}
}
