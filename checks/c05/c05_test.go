package c05

import (
	"errors"
	"fmt"
	"hash/fnv"
	"sort"
	"testing"

	modbus "github.com/aldas/go-modbus-client"
	"github.com/aldas/go-modbus-client/packet"
	"pgregory.net/rapid"

	"verif/internal/device"
	"verif/internal/fgen"
	"verif/internal/gen"
	"verif/internal/harness"
	"verif/internal/spec"
)

func TestMain(m *testing.M) { harness.Main(m) }

func TestReplay(t *testing.T)  { harness.RunReplay(t) }
func TestRegress(t *testing.T) { harness.RunRegress(t) }

type e2eCase struct {
	Fields  []modbus.Field `json:"fields"`
	FC      uint8          `json:"fc"` // 3 or 4
	Framing spec.Framing   `json:"framing"`
	Lenient bool           `json:"lenient"`
	Seed    uint64         `json:"seed"`
	// Truncate k > 0: devices answer register reads with at most k registers
	Truncate int `json:"truncate"`
	// Perm: seed of the permutation used for the batching-invariance companion; Extra: unrelated fields added in the second companion
	Perm  uint64         `json:"perm"`
	Extra []modbus.Field `json:"extra"`
	// Fluent: the fields are added through the builder's typed methods (Bit, Uint16, String, ... with
	// ServerAddress/UnitID/ByteOrder/Name setters and builder defaults) instead of AddAll
	Fluent bool `json:"fluent,omitempty"`
	// Grow > 0 (a builder that lives long and grows): the builder is filled with Fields and asked for its requests (both framings), then
	// Grow more valid register fields are added (synthesised by grown()) and it is asked again; the requests of that answer are sent
	// and every one of the Fields+Grow fields is compared with device memory.
	Grow int `json:"grow,omitempty"`
}

// grown returns the i-th synthesised field of a growing builder.
func grown(i int) modbus.Field {
	return modbus.Field{Name: fmt.Sprintf("g%d", i), ServerAddress: "grow:502", UnitID: uint8(1 + i%3), Address: uint16((i * 7) % 60000), Type: modbus.FieldTypeUint16}
}

// addFluent adds f through the public fluent API; the resulting definition must be f itself.
func addFluent(b *modbus.Builder, f modbus.Field, useDefaults bool) {
	var bf *modbus.BField
	switch f.Type {
	case modbus.FieldTypeBit:
		bf = b.Bit(f.Address, f.Bit)
	case modbus.FieldTypeByte:
		bf = b.Byte(f.Address, f.FromHighByte)
	case modbus.FieldTypeUint8:
		bf = b.Uint8(f.Address, f.FromHighByte)
	case modbus.FieldTypeInt8:
		bf = b.Int8(f.Address, f.FromHighByte)
	case modbus.FieldTypeUint16:
		bf = b.Uint16(f.Address)
	case modbus.FieldTypeInt16:
		bf = b.Int16(f.Address)
	case modbus.FieldTypeUint32:
		bf = b.Uint32(f.Address)
	case modbus.FieldTypeInt32:
		bf = b.Int32(f.Address)
	case modbus.FieldTypeUint64:
		bf = b.Uint64(f.Address)
	case modbus.FieldTypeInt64:
		bf = b.Int64(f.Address)
	case modbus.FieldTypeFloat32:
		bf = b.Float32(f.Address)
	case modbus.FieldTypeFloat64:
		bf = b.Float64(f.Address)
	case modbus.FieldTypeString:
		bf = b.String(f.Address, f.Length)
	case modbus.FieldTypeCoil:
		bf = b.Coil(f.Address)
	}
	if !useDefaults {
		bf = bf.ServerAddress(f.ServerAddress).UnitID(f.UnitID)
	}
	b.Add(bf.ByteOrder(f.ByteOrder).Name(f.Name))
}

// canonical clears the attributes a typed builder method does not take (they are irrelevant for the field's type).
func canonical(f modbus.Field) modbus.Field {
	switch f.Type {
	case modbus.FieldTypeBit:
		f.FromHighByte, f.Length = false, 0
	case modbus.FieldTypeByte, modbus.FieldTypeUint8, modbus.FieldTypeInt8:
		f.Bit, f.Length = 0, 0
	case modbus.FieldTypeString:
		f.Bit, f.FromHighByte = 0, false
	default:
		f.Bit, f.FromHighByte, f.Length = 0, false, 0
	}
	return f
}

func devSeed(base uint64, server string, unit uint8) uint64 {
	h := fnv.New64a()
	fmt.Fprintf(h, "%d|%s|%d", base, server, unit)
	return h.Sum64()
}

func build(fields []modbus.Field, fc uint8, f spec.Framing, fluent bool, grow int) ([]modbus.BuilderRequest, error) {
	b := modbus.NewRequestBuilder("", 0)
	if grow > 0 {
		n := len(fields) - grow
		b.AddAll(append([]modbus.Field(nil), fields[:n]...))
		for _, first := range []func() ([]modbus.BuilderRequest, error){b.ReadHoldingRegistersRTU, b.ReadHoldingRegistersTCP, b.ReadInputRegistersRTU, b.ReadInputRegistersTCP} {
			_, _ = first()
		}
		for rest := fields[n:]; len(rest) > 0; {
			k := min(len(rest), 4099)
			b.AddAll(append([]modbus.Field(nil), rest[:k]...))
			rest = rest[k:]
		}
		switch {
		case fc == 3 && f == spec.TCP:
			return b.ReadHoldingRegistersTCP()
		case fc == 3:
			return b.ReadHoldingRegistersRTU()
		case f == spec.TCP:
			return b.ReadInputRegistersTCP()
		}
		return b.ReadInputRegistersRTU()
	}
	if fluent && len(fields) > 0 {
		// builder defaults = the first field's target; fields of that target rely on the defaults
		b = modbus.NewRequestBuilder(fields[0].ServerAddress, fields[0].UnitID)
		for _, fd := range fields {
			addFluent(b, fd, fd.ServerAddress == fields[0].ServerAddress && fd.UnitID == fields[0].UnitID)
		}
	} else {
		if len(fields)%3 == 2 {
			// a builder with defaults of its own: complete definitions handed to AddAll (unit id 0 and all) are not subject to them
			b = modbus.NewRequestBuilder("default-target:502", 7)
		}
		// the slice handed to AddAll stays the caller's: it has spare capacity and is overwritten and appended to afterwards
		in := make([]modbus.Field, len(fields), len(fields)+4)
		copy(in, fields)
		b.AddAll(in)
		if len(fields)%5 >= 3 {
			bogus := modbus.Field{Name: "not-added", ServerAddress: "bogus:1", UnitID: 99, Address: 4242, Type: modbus.FieldTypeUint64}
			for i := range in {
				in[i] = bogus
			}
			in = append(in, bogus, bogus)
			_ = in
		}
	}
	{
		// a second builder is alive and filled at the same time (a program with one builder per device): builders are independent
		otherB := modbus.NewRequestBuilder("elsewhere:502", 9)
		stranger := modbus.Field{Name: "stranger", ServerAddress: "elsewhere:502", UnitID: 9, Address: 4321, Type: modbus.FieldTypeUint64}
		otherB.AddAll([]modbus.Field{stranger, stranger, stranger})
		_, _ = otherB.ReadHoldingRegistersTCP()
	}
	if len(fields)%2 == 1 {
		// the same builder may serve several request kinds: ask it for coil requests (and the other register function) first
		_, _ = b.ReadCoilsTCP()
		_, _ = b.ReadInputRegistersRTU()
		_, _ = b.ReadDiscreteInputsRTU()
	}
	switch {
	case fc == 3 && f == spec.TCP:
		return b.ReadHoldingRegistersTCP()
	case fc == 3:
		return b.ReadHoldingRegistersRTU()
	case f == spec.TCP:
		return b.ReadInputRegistersTCP()
	}
	return b.ReadInputRegistersRTU()
}

type outcome struct {
	def   modbus.Field
	value interface{}
	err   bool
}

func key(f modbus.Field) string {
	return fmt.Sprintf("%s|%s|%d|%d|%d|%d|%v|%d|%d", f.Name, f.ServerAddress, f.UnitID, f.Address, f.Type, f.Bit, f.FromHighByte, f.Length, f.ByteOrder)
}

// exchange runs the whole pipeline and checks every field against device memory. It returns the per-definition values.
func exchange(c e2eCase, fields []modbus.Field) (map[string][]string, int, string, error) {
	if c.Fluent {
		fields = append([]modbus.Field(nil), fields...)
		for i := range fields {
			fields[i] = canonical(fields[i])
		}
	}
	reqs, err := build(fields, c.FC, c.Framing, c.Fluent, c.Grow)
	if err != nil {
		return nil, 0, "", fmt.Errorf("builder refused valid field definitions: %v", err)
	}
	table := device.Holding
	if c.FC == 4 {
		table = device.Input
	}
	devs := map[string]*device.Device{}
	results := map[string][]string{}
	seen := map[string]int{}
	info := ""
	for ri, r := range reqs {
		frame := r.Bytes()
		var unit uint8
		if c.Framing == spec.TCP {
			unit = frame[6]
		} else {
			unit = frame[0]
		}
		dk := fmt.Sprintf("%s|%d", r.ServerAddress, unit)
		dev := devs[dk]
		if dev == nil {
			dev = device.New(devSeed(c.Seed, r.ServerAddress, unit))
			dev.TruncateRegs = c.Truncate
			devs[dk] = dev
		}
		reply := dev.Answer(c.Framing, frame)
		if reply == nil {
			return nil, 0, "", fmt.Errorf("request %d: frame %x is not a valid %s ADU (device stays silent)", ri, frame, c.Framing)
		}
		var resp packet.Response
		if c.Framing == spec.TCP {
			resp, err = packet.ParseTCPResponse(reply)
		} else {
			resp, err = packet.ParseRTUResponseWithCRC(reply)
		}
		if err != nil {
			return nil, 0, "", fmt.Errorf("request %d (%x): the device answered %x which the library reports as: %v", ri, frame, reply, err)
		}
		// what the reply actually carries
		_, _, rpdu, _ := spec.Unframe(c.Framing, reply)
		got := int(rpdu[1]) / 2
		rq, _ := spec.DecodeRequestPDU(mustPDU(c.Framing, frame))
		start := int(rq.Addr)
		reachable := func(f modbus.Field) bool {
			return int(f.Address) >= start && int(f.Address)+fgen.Size(f) <= start+got
		}
		anyUnreachable := false
		for _, f := range r.Fields {
			if !reachable(f) {
				anyUnreachable = true
			}
		}
		if anyUnreachable {
			info = "truncated"
		}
		var fvs []modbus.FieldValue
		var xerr error
		var panicked interface{}
		func() {
			defer func() {
				if p := recover(); p != nil {
					panicked = p
				}
			}()
			// every other request hands the response over as a struct value instead of the pointer the parsers return
			if val := derefResp(resp); val != nil && ri%2 == 1 {
				fvs, xerr = r.ExtractFields(val, c.Lenient)
			} else {
				fvs, xerr = r.ExtractFields(resp, c.Lenient)
			}
		}()
		if panicked != nil {
			return nil, 0, "", fmt.Errorf("ExtractFields panicked on request %d (start %d, %d registers returned): %v", ri, start, got, panicked)
		}
		if !c.Lenient {
			if anyUnreachable {
				if xerr == nil || fvs != nil {
					return nil, 0, "", fmt.Errorf("strict extraction on a reply too short for some fields returned (%d values, err=%v); want (nil, error)", len(fvs), xerr)
				}
				continue
			}
			if xerr != nil {
				return nil, 0, "", fmt.Errorf("strict extraction failed although every field is inside the reply: %v", xerr)
			}
		} else {
			if anyUnreachable != (xerr != nil) {
				return nil, 0, "", fmt.Errorf("lenient extraction: unreachable fields present=%v but err=%v", anyUnreachable, xerr)
			}
			if xerr != nil && !errors.Is(xerr, modbus.ErrorFieldExtractHadError) {
				return nil, 0, "", fmt.Errorf("lenient extraction returned %v, want ErrorFieldExtractHadError", xerr)
			}
		}
		if len(fvs) != len(r.Fields) {
			return nil, 0, "", fmt.Errorf("request %d has %d fields, extraction returned %d values", ri, len(r.Fields), len(fvs))
		}
		cnt := map[string]int{}
		for _, f := range r.Fields {
			cnt[key(f)]++
		}
		for _, fv := range fvs {
			k := key(fv.Field)
			cnt[k]--
			seen[k]++
			if f := fv.Field; f.ServerAddress != r.ServerAddress || f.UnitID != unit {
				return nil, 0, "", fmt.Errorf("field %q of %s unit %d was answered by the request to %s unit %d", f.Name, f.ServerAddress, f.UnitID, r.ServerAddress, unit)
			}
			if !reachable(fv.Field) {
				if fv.Error == nil {
					return nil, 0, "", fmt.Errorf("field %q [%d,+%d) is beyond the %d registers returned from %d but has no error (value %v)", fv.Field.Name, fv.Field.Address, fgen.Size(fv.Field), got, start, fv.Value)
				}
				results[k] = append(results[k], "ERR")
				continue
			}
			if fv.Error != nil {
				return nil, 0, "", fmt.Errorf("field %q [%d,+%d) lies inside the reply [%d,+%d) but failed: %v", fv.Field.Name, fv.Field.Address, fgen.Size(fv.Field), start, got, fv.Error)
			}
			f := fv.Field
			mem := dev.RegBytes(table, int(f.Address), fgen.Size(f))
			want, ok := spec.RefAccess(mem, int(f.Address), spec.LibraryDefault, fgen.AccessOf(f))
			if !ok {
				return nil, 0, "", fmt.Errorf("harness: reference access failed for %+v", f)
			}
			if !spec.SameValue(fv.Value, want) {
				return nil, 0, "", fmt.Errorf("field %q (type %d order %d bit %d high %v len %d) at %d of %s unit %d: extracted %v (%T), device memory %x decodes to %v (%T)", f.Name, f.Type, f.ByteOrder, f.Bit, f.FromHighByte, f.Length, f.Address, f.ServerAddress, f.UnitID, fv.Value, fv.Value, mem, want, want)
			}
			results[k] = append(results[k], fmt.Sprintf("%T:%v", fv.Value, fv.Value))
		}
		for k, n := range cnt {
			if n != 0 {
				return nil, 0, "", fmt.Errorf("request %d: extraction results do not match the request's field list (definition %s off by %d)", ri, k, n)
			}
		}
	}
	if c.Truncate == 0 || c.Lenient {
		want := map[string]int{}
		for _, f := range fields {
			if f.Type != modbus.FieldTypeCoil {
				want[key(f)]++
			}
		}
		for k, n := range want {
			if seen[k] != n {
				return nil, 0, "", fmt.Errorf("definition %s given %d time(s) but reported %d time(s)", k, n, seen[k])
			}
		}
		for k, n := range seen {
			if want[k] != n {
				return nil, 0, "", fmt.Errorf("definition %s reported %d time(s) but given %d time(s)", k, n, want[k])
			}
		}
	}
	for _, v := range results {
		sort.Strings(v)
	}
	return results, len(reqs), info, nil
}

func mustPDU(f spec.Framing, frame []byte) []byte {
	_, _, pdu, _ := spec.Unframe(f, frame)
	return pdu
}

func runE2E(c e2eCase) harness.Result {
	if c.Grow > 0 {
		c.Fluent, c.Truncate, c.Extra = false, 0, nil
		c.Fields = append([]modbus.Field(nil), c.Fields...)
		for i := 0; i < c.Grow; i++ {
			c.Fields = append(c.Fields, grown(i))
		}
	}
	base, nreq, info, err := exchange(c, c.Fields)
	if err != nil {
		return harness.Result{Err: err, NonTrivial: true}
	}
	labels := []string{fmt.Sprintf("fc%d", c.FC), c.Framing.String(), fmt.Sprintf("requests:%d", min(nreq, 4))}
	if c.Fluent {
		labels = append(labels, "fluent-api")
	}
	if info != "" {
		labels = append(labels, info)
	}
	if !c.Fluent {
		// what build does with the AddAll route, by the number of fields
		if len(c.Fields)%3 == 2 {
			labels = append(labels, "builder-with-own-defaults")
		}
		if len(c.Fields)%5 >= 3 {
			labels = append(labels, "caller-overwrites-its-slice")
			if len(c.Fields) > 5 {
				labels = append(labels, "caller-overwrites-its-slice:>5-fields")
			}
		}
	}
	if c.Grow > 0 {
		labels = append(labels, fmt.Sprintf("builder-grown-by:%d", c.Grow))
	}
	if c.Truncate == 0 && len(c.Fields) > 1 && c.Grow == 0 {
		// batching invariance 1: permutation
		perm := append([]modbus.Field(nil), c.Fields...)
		s := c.Perm
		for i := len(perm) - 1; i > 0; i-- {
			j := int(harness.SplitMix64(&s) % uint64(i+1))
			perm[i], perm[j] = perm[j], perm[i]
		}
		r2, _, _, err := exchange(c, perm)
		if err != nil {
			return harness.Fail("with the same fields in another order: %v", err)
		}
		if d := diff(base, r2, nil); d != "" {
			return harness.Fail("values depend on the order in which fields were added: %s", d)
		}
		// batching invariance 2: unrelated extra fields change the batching
		if len(c.Extra) > 0 {
			ex := map[string]bool{}
			for _, f := range c.Extra {
				if c.Fluent {
					f = canonical(f)
				}
				ex[key(f)] = true
			}
			r3, _, _, err := exchange(c, append(append([]modbus.Field(nil), c.Fields...), c.Extra...))
			if err != nil {
				return harness.Fail("with unrelated extra fields added: %v", err)
			}
			if d := diff(base, r3, ex); d != "" {
				return harness.Fail("values depend on how fields were batched (extra fields added): %s", d)
			}
			labels = append(labels, "extra-fields")
		}
	}
	groups := map[string]bool{}
	overlap := false
	for i, f := range c.Fields {
		groups[fmt.Sprintf("%s|%d", f.ServerAddress, f.UnitID)] = true
		for _, g := range c.Fields[:min(i, 400)] { // (a label only: the first 400 fields suffice)
			if f.ServerAddress == g.ServerAddress && f.UnitID == g.UnitID && f.Type != modbus.FieldTypeCoil && g.Type != modbus.FieldTypeCoil &&
				int(f.Address) < int(g.Address)+fgen.Size(g) && int(g.Address) < int(f.Address)+fgen.Size(f) {
				overlap = true
			}
		}
	}
	if overlap {
		labels = append(labels, "overlapping-fields")
	}
	if len(groups) > 1 {
		labels = append(labels, "groups>=2")
	}
	nt := len(c.Fields) >= 2 && (nreq >= 2 || len(groups) >= 2 || overlap || info == "truncated")
	return harness.Result{NonTrivial: nt, Labels: labels}
}

func diff(a, b map[string][]string, ignore map[string]bool) string {
	for k, va := range a {
		vb := b[k]
		if fmt.Sprint(va) != fmt.Sprint(vb) {
			return fmt.Sprintf("definition %s: %v vs %v", k, va, vb)
		}
	}
	for k := range b {
		if _, ok := a[k]; !ok && !ignore[k] {
			return fmt.Sprintf("definition %s only in the second run", k)
		}
	}
	return ""
}

var servers = []string{"plc1:502", "plc_2:502", "rtu://dev"}

// adversarial target names: concatenating server and unit id without (or with a weak) separator makes them collide
var collidingServers = []string{"h:502", "h:5021", "h:50", "h:502_1"}
var collidingUnits = []uint8{1, 11, 21, 2, 12, 211}

func genFields(t *rapid.T, n int, prefix string, nServers int, base int) []modbus.Field {
	var out []modbus.Field
	units := []uint8{0, 1, 2, 255, 247, 128}
	rot := rapid.IntRange(0, len(units)-1).Draw(t, prefix+"unit_rot")
	units = append(units[rot:], units[:rot]...)
	nUnits := rapid.IntRange(1, 3).Draw(t, prefix+"nunits")
	colliding := rapid.IntRange(0, 5).Draw(t, prefix+"colliding_names") == 0
	for i := 0; i < n; i++ {
		off := rapid.IntRange(0, 140).Draw(t, "off")
		if rapid.IntRange(0, 3).Draw(t, "offhot") == 0 {
			off = rapid.SampledFrom([]int{0, 1, 120, 121, 122, 123, 124, 125, 126, 127, 128}).Draw(t, "off_hot")
		}
		a := base + off
		f := fgen.RegisterField(t, fmt.Sprintf("%s%d", prefix, i), 0, 0)
		if a+fgen.Size(f) > 65536 {
			a = 65536 - fgen.Size(f)
		}
		f.Address = uint16(a)
		f.ServerAddress = servers[rapid.IntRange(0, nServers-1).Draw(t, "server")]
		f.UnitID = units[rapid.IntRange(0, nUnits-1).Draw(t, "unit")]
		if colliding {
			f.ServerAddress = rapid.SampledFrom(collidingServers).Draw(t, "cserver")
			f.UnitID = rapid.SampledFrom(collidingUnits).Draw(t, "cunit")
		}
		out = append(out, f)
		if rapid.IntRange(0, 11).Draw(t, "coilfield") == 0 {
			out = append(out, modbus.Field{Name: fmt.Sprintf("%scoil%d", prefix, i), ServerAddress: f.ServerAddress, UnitID: f.UnitID, Type: modbus.FieldTypeCoil, Address: f.Address})
		}
		if rapid.IntRange(0, 11).Draw(t, "dupdef") == 0 {
			out = append(out, f) // duplicated definition (same name)
		}
		if rapid.IntRange(0, 5).Draw(t, "neardup") == 0 {
			if nd := fgen.NearDuplicate(t, f, fmt.Sprintf("%s%dn", prefix, i)); int(nd.Address)+fgen.Size(nd) <= 65536 && fgen.Size(nd) <= 125 {
				out = append(out, nd) // (domain: a span fits one request and does not cross address 65535)
			}
		}
	}
	return out
}

func genE2E(t *rapid.T) e2eCase {
	c := e2eCase{FC: rapid.SampledFrom([]uint8{3, 4}).Draw(t, "fc"), Framing: gen.Framing(t), Lenient: rapid.Bool().Draw(t, "lenient"),
		Seed: rapid.Uint64().Draw(t, "seed"), Perm: rapid.Uint64().Draw(t, "perm"), Fluent: rapid.IntRange(0, 2).Draw(t, "fluent") == 0}
	n := rapid.IntRange(1, 14).Draw(t, "nfields")
	if rapid.IntRange(0, 7).Draw(t, "many") == 0 {
		n = rapid.IntRange(15, 40).Draw(t, "nfields_many")
	}
	nServers := rapid.IntRange(1, 3).Draw(t, "nservers")
	base := rapid.SampledFrom([]int{0, 1, 65536 - 141, 65536 - 126, 65536 - 125, 30000, -1}).Draw(t, "base")
	if base < 0 {
		base = rapid.IntRange(0, 65536-141).Draw(t, "base_any")
	}
	c.Fields = genFields(t, n, "f", nServers, base)
	if rapid.IntRange(0, 2).Draw(t, "trunc") == 0 {
		c.Truncate = rapid.SampledFrom([]int{1, 1, 2, 3, 4, 5, 8, 60, 124}).Draw(t, "k")
	} else if rapid.Bool().Draw(t, "extra") {
		c.Extra = genFields(t, rapid.IntRange(1, 5).Draw(t, "nextra"), "x", nServers, base)
	}
	return c
}

var chkE2E = harness.Define("builder-device-extract", genE2E, runE2E).Repeated(2)

func TestRandom(t *testing.T) {
	chkE2E.Rapid(t, harness.Pick(2500, 150000))
}

// TestReadme: the README scenario shape at the window edges, every type once, both functions and framings.
func TestEveryTypeOnce(t *testing.T) {
	for _, base := range []int{0, 65536 - 40, 12345} {
		for _, fc := range []uint8{3, 4} {
			for _, fr := range []spec.Framing{spec.TCP, spec.RTU} {
				for _, ord := range fgen.Orders {
					var fs []modbus.Field
					a := base
					for i, ty := range fgen.RegisterTypes {
						f := modbus.Field{Name: fmt.Sprintf("t%d", i), ServerAddress: "s:502", UnitID: 1, Type: ty, Address: uint16(a), Bit: uint8(i), FromHighByte: i%2 == 0, ByteOrder: ord}
						if ty == modbus.FieldTypeString {
							f.Length = 7
						}
						a += fgen.Size(f) - 1 // overlapping chain
						if a < base {
							a = base
						}
						fs = append(fs, f)
					}
					for _, len := range []bool{false, true} {
						if !chkE2E.Eval(t, e2eCase{Fields: fs, FC: fc, Framing: fr, Lenient: len, Seed: uint64(base) + harness.Seed(), Perm: 7}) {
							return
						}
					}
				}
			}
		}
	}
}

func derefResp(resp packet.Response) packet.Response {
	switch r := resp.(type) {
	case *packet.ReadHoldingRegistersResponseTCP:
		return *r
	case *packet.ReadHoldingRegistersResponseRTU:
		return *r
	case *packet.ReadInputRegistersResponseTCP:
		return *r
	case *packet.ReadInputRegistersResponseRTU:
		return *r
	}
	return nil
}

// TestGrownBuilder: builders that grow by 255..65537 fields between two builds (around the wraps of 8- and 16-bit counters).
func TestGrownBuilder(t *testing.T) {
	base := []modbus.Field{
		{Name: "r0", ServerAddress: "a:502", UnitID: 1, Address: 10, Type: modbus.FieldTypeUint16},
		{Name: "r1", ServerAddress: "a:502", UnitID: 1, Address: 300, Type: modbus.FieldTypeUint32},
		{Name: "r2", ServerAddress: "b:502", UnitID: 2, Address: 7, Type: modbus.FieldTypeInt16},
	}
	grows := []int{255, 256, 65536}
	if harness.Thorough() {
		grows = []int{255, 256, 257, 4096, 65535, 65536, 65537, 131072}
	}
	idx := 0
	for _, fc := range []uint8{3, 4} {
		for _, fr := range []spec.Framing{spec.TCP, spec.RTU} {
			for _, g := range grows {
				idx++
				if g > 60000 && !harness.Thorough() && !(fc == 3 && fr == spec.RTU) {
					continue
				}
				if harness.Mine(idx) && !chkE2E.Eval(t, e2eCase{Fields: base[:1+idx%3], FC: fc, Framing: fr, Seed: uint64(idx) + harness.Seed(), Grow: g}) {
					return
				}
			}
		}
	}
}
