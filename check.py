#!/usr/bin/env python3
"""Driver for the property checks of aldas/go-modbus-client.

usage: python3 check.py <ID> quick|thorough
       python3 check.py <ID> --replay <path>

exit 0: property held on everything explored (open known findings are printed as KNOWN-FINDING lines)
exit 1: "VIOLATION property=<id> replay=<path>" printed
exit 2: infrastructure problem / inconclusive (build failure, timeout, worker death that is not a crash of the code under test)
"""
import glob
import json
import os
import shutil
import struct
import subprocess
import sys
import time

ROOT = os.path.dirname(os.path.abspath(__file__))
REPO = os.environ.get("VERIF_REPO", "/repo")

# per property: package, race build?, shards per tier, timeout (s) per tier, evidence level, rule text
CHECKS = json.load(open(os.path.join(ROOT, "checks", "checks.json")))


def goenv():
    e = dict(os.environ)
    e.update({"GOFLAGS": "-mod=mod", "GOPROXY": "off", "GOSUMDB": "off", "GOTOOLCHAIN": "local",
              "CGO_ENABLED": e.get("CGO_ENABLED", "1")})
    return e


def log(*a):
    print(*a, file=sys.stderr, flush=True)


def ensure_module(env):
    """go.mod's replace directive points at /repo; VERIF_REPO (mutant testing only) rewrites it in a scratch copy."""
    gosum = os.path.join(ROOT, "go.sum")
    if not os.path.exists(gosum):
        shutil.copy(os.path.join(REPO, "go.sum"), gosum)


def build(cid, cfg, env):
    out = os.path.join(ROOT, ".build", cid + ".test")
    os.makedirs(os.path.dirname(out), exist_ok=True)
    cmd = ["go", "test", "-c", "-tags", "verif", "-vet=off", "-o", out]
    if cfg.get("race"):
        cmd.append("-race")
    if REPO != "/repo":
        # mutant testing: build against another checkout through a module overlay of go.mod
        gomod = open(os.path.join(ROOT, "go.mod")).read().replace("=> /repo", "=> " + REPO)
        alt = os.path.join(ROOT, ".build", "go.alt.mod")
        open(alt, "w").write(gomod)
        shutil.copy(os.path.join(ROOT, "go.sum"), os.path.join(ROOT, ".build", "go.alt.sum"))
        cmd += ["-modfile", alt]
    cmd.append("./checks/" + cfg["pkg"])
    t0 = time.time()
    p = subprocess.run(cmd, cwd=ROOT, env=env, stdout=subprocess.PIPE, stderr=subprocess.STDOUT, text=True)
    if p.returncode != 0:
        log(p.stdout)
        log("build failed")
        return None
    log("built %s in %.1fs" % (out, time.time() - t0))
    return out


def finish(code, cid=None):
    shutil.rmtree(os.path.join(ROOT, ".work", cid or "x"), ignore_errors=True)
    sys.exit(code)


def run_shards(binary, cid, cfg, tier, seed, env, work, extra_env=None, run_filter=None):
    shards = cfg["shards"][tier]
    timeout = cfg["timeout"][tier]
    procs = []
    for i in range(shards):
        e = dict(env)
        e.update({"VERIF_ROOT": ROOT, "VERIF_ID": cid, "VERIF_TIER": tier, "VERIF_SEED": str(seed),
                  "VERIF_SHARD": str(i), "VERIF_SHARDS": str(shards), "VERIF_WORK": work})
        if cfg.get("race"):
            e["GORACE"] = "halt_on_error=1 exitcode=66 log_path=" + os.path.join(work, "race.%d" % i)
        if cfg.get("gomaxprocs"):
            e["GOMAXPROCS"] = str(cfg["gomaxprocs"])
        if extra_env:
            e.update(extra_env)
        cmd = [binary, "-test.timeout", "%ds" % (timeout + 60), "-test.count", "1"]
        if run_filter:
            cmd += ["-test.run", run_filter]
        out = open(os.path.join(work, "out.%d" % i), "w")
        procs.append((i, subprocess.Popen(cmd, cwd=os.path.join(ROOT, "checks", cfg["pkg"]), env=e, stdout=out, stderr=subprocess.STDOUT), out))
    deadline = time.time() + timeout
    timed_out = False
    for i, p, out in procs:
        try:
            p.wait(timeout=max(1, deadline - time.time()))
        except subprocess.TimeoutExpired:
            timed_out = True
            p.kill()
            p.wait()
        out.close()
    return [(i, p.returncode) for i, p, _ in procs], timed_out


def run_fuzz(cid, cfg, seed, env, work):
    """native go fuzzing (thorough only): coverage guided, all cores, cannot be seeded; a crasher is a violation"""
    import re
    outs, execs = [], {}
    fz = cfg["fuzz"]
    pkgdir = os.path.join(ROOT, "checks", cfg["pkg"])
    for target in fz["targets"]:
        e = dict(env)
        e.update({"VERIF_ROOT": ROOT, "VERIF_ID": cid, "VERIF_TIER": "thorough", "VERIF_SEED": str(seed), "VERIF_SHARD": "0", "VERIF_SHARDS": "1"})
        cmd = ["go", "test", "-tags", "verif", "-vet=off", "-run", "^$", "-fuzz", "^%s$" % target, "-fuzztime", "%ds" % fz["seconds"],
               "./checks/" + cfg["pkg"], "-test.fuzzcachedir=" + os.path.join(work, "fuzzcache")]
        if REPO != "/repo":
            cmd[2:2] = ["-modfile", os.path.join(ROOT, ".build", "go.alt.mod")]
        try:
            p = subprocess.run(cmd, cwd=ROOT, env=e, stdout=subprocess.PIPE, stderr=subprocess.STDOUT, text=True, timeout=fz["seconds"] * 3 + 300)
            out = p.stdout
        except subprocess.TimeoutExpired as ex:
            out = (ex.stdout or "") if isinstance(ex.stdout, str) else ""
            log("native fuzz target %s timed out" % target)
        outs.append(out)
        n = 0
        for m in re.finditer(r"execs: (\d+)", out):
            n = max(n, int(m.group(1)))
        execs[target] = n
        log("native fuzz %s: %d execs" % (target, n))
    # crashers written by go into testdata/fuzz are copied next to the replays and removed (they would be replayed by every later run)
    td = os.path.join(pkgdir, "testdata", "fuzz")
    if os.path.isdir(td):
        dst = os.path.join(ROOT, "replays", cid, "go-fuzz-crashers")
        shutil.rmtree(dst, ignore_errors=True)
        shutil.copytree(td, dst)
        shutil.rmtree(os.path.join(pkgdir, "testdata"), ignore_errors=True)
    return outs, execs


def main():
    if len(sys.argv) < 3:
        print(__doc__)
        sys.exit(2)
    cid = sys.argv[1]
    if cid not in CHECKS:
        log("unknown property", cid)
        sys.exit(2)
    cfg = CHECKS[cid]
    env = goenv()
    ensure_module(env)
    seed_txt = os.environ.get("VERIF_SEED", "1")
    try:
        seed = int(seed_txt)
    except ValueError:
        seed = abs(hash(seed_txt)) % (1 << 31)
    if seed < 0:
        seed = -seed
    work = os.path.join(ROOT, ".work", cid)
    shutil.rmtree(work, ignore_errors=True)
    os.makedirs(work, exist_ok=True)

    if sys.argv[2] == "--replay":
        path = os.path.abspath(sys.argv[3])
        binary = build(cid, cfg, env)
        if not binary:
            finish(2, cid)
        c1 = dict(cfg)
        c1["shards"] = {"quick": 1}
        c1["timeout"] = {"quick": 600}
        res, to = run_shards(binary, cid, c1, "quick", seed, env, work, {"VERIF_REPLAY": path}, "^TestReplay$")
        out = open(os.path.join(work, "out.0")).read()
        sys.stdout.write(out)
        if to:
            finish(2, cid)
        if "VIOLATION-FILE" in out or res[0][1] != 0:
            print("VIOLATION property=%s replay=%s" % (cid, path))
            finish(1, cid)
        finish(0, cid)

    tier = sys.argv[2]
    if tier not in ("quick", "thorough"):
        log("tier must be quick or thorough")
        sys.exit(2)
    t0 = time.time()
    binary = build(cid, cfg, env)
    if not binary:
        finish(2, cid)
    res, timed_out = run_shards(binary, cid, cfg, tier, seed, env, work)
    fuzz_out, fuzz_execs = [], {}
    if tier == "thorough" and cfg.get("fuzz") and not timed_out:
        fuzz_out, fuzz_execs = run_fuzz(cid, cfg, seed, env, work)
    wall = time.time() - t0

    # collect
    violations = []
    messages = {}
    known = []
    notes = []
    merged = {}
    hashes = {}
    infra = []
    for i, rc in res:
        out = open(os.path.join(work, "out.%d" % i), errors="replace").read()
        sj = os.path.join(work, "%s.%d.json" % (cid, i))
        data = None
        if os.path.exists(sj):
            try:
                data = json.load(open(sj))
            except ValueError:
                data = None
        lines = out.splitlines()
        for li, line in enumerate(lines):
            if "VIOLATION-FILE " in line:
                p = line.split("VIOLATION-FILE ", 1)[1].strip()
                if p not in violations:
                    violations.append(p)
                    messages[p] = "\n".join(x.strip() for x in lines[li + 1:li + 3])
            if line.startswith("KNOWN-FINDING:") and line not in known:
                known.append(line)
        race_logs = glob.glob(os.path.join(work, "race.%d*" % i))
        if data is None or rc not in (0, 1):
            # the test binary died: crash of the code under test (journal) or infrastructure
            j = os.path.join(work, "%s.%d.journal" % (cid, i))
            if race_logs or rc == 66:
                dst = os.path.join(ROOT, "replays", cid)
                os.makedirs(dst, exist_ok=True)
                rp = os.path.join(dst, "race-%s-s%d-sh%d.json" % (tier, seed, i))
                case = json.load(open(j)) if os.path.exists(j) else {"property": cid, "check": "race", "case": None}
                case["observed"] = "data race reported by the race detector:\n" + "\n".join(open(f, errors="replace").read()[:6000] for f in race_logs)
                json.dump(case, open(rp, "w"), indent=1)
                violations.append(rp)
            elif os.path.exists(j) and not timed_out and ("panic:" in out or "fatal error:" in out or "SIGSEGV" in out):
                dst = os.path.join(ROOT, "replays", cid)
                os.makedirs(dst, exist_ok=True)
                rp = os.path.join(dst, "crash-%s-s%d-sh%d.json" % (tier, seed, i))
                case = json.load(open(j))
                case["observed"] = "test process died while executing this case:\n" + out[-6000:]
                json.dump(case, open(rp, "w"), indent=1)
                violations.append(rp)
            else:
                infra.append("shard %d exit code %s without result file" % (i, rc))
                log(out[-3000:])
        elif rc == 1 and not any(v for v in violations):
            # failed without violation marker: harness problem (e.g. "only generated N valid tests")
            infra.append("shard %d failed without a violation marker" % i)
            log(out[-3000:])
        if data:
            for n in data.get("notes") or []:
                if n not in notes:
                    notes.append(n)
            for c in data["checks"]:
                m = merged.setdefault(c["name"], {"evaluations": 0, "nontrivial": 0, "requested": 0, "completed": 0, "enum_distinct": 0,
                                                  "labels": {}, "excluded": {}, "samples": [], "exhaustive": []})
                for k in ("evaluations", "nontrivial", "requested", "completed", "enum_distinct"):
                    m[k] += c.get(k, 0)
                for k, v in (c.get("labels") or {}).items():
                    m["labels"][k] = m["labels"].get(k, 0) + v
                for k, v in (c.get("excluded") or {}).items():
                    m["excluded"][k] = m["excluded"].get(k, 0) + v
                if len(m["samples"]) < 6:
                    m["samples"] += (c.get("samples") or [])[:2]
                m["exhaustive"] += c.get("exhaustive") or []
                hf = os.path.join(work, "%s.%d.%s.hashes" % (cid, i, c["name"]))
                if os.path.exists(hf):
                    b = open(hf, "rb").read()
                    hs = hashes.setdefault(c["name"], set())
                    hs.update(struct.unpack("<%dQ" % (len(b) // 8), b))
    for out in fuzz_out:
        for line in out.splitlines():
            if "VIOLATION-FILE " in line:
                p = line.split("VIOLATION-FILE ", 1)[1].strip()
                if p not in violations:
                    violations.append(p)
    for name, m in merged.items():
        if m["completed"] < m["requested"] and not violations:
            infra.append("check %s executed %d of %d requested cases" % (name, m["completed"], m["requested"]))

    evaluations = sum(m["evaluations"] for m in merged.values()) + sum(fuzz_execs.values())
    distinct = sum(len(hashes.get(n, ())) + m["enum_distinct"] for n, m in merged.items())
    samples = []
    for n, m in merged.items():
        for s in m["samples"][:3]:
            samples.append({"check": n, "case": s})
    exhaustive = [dict(check=n, **e) for n, m in merged.items() for e in m["exhaustive"]]
    per_check = {n: {"evaluations": m["evaluations"], "distinct_nontrivial": len(hashes.get(n, ())) + m["enum_distinct"],
                     "labels": dict(sorted(m["labels"].items())), "excluded_by_known_findings": m["excluded"]} for n, m in merged.items()}
    evidence = {
        "property_id": cid, "tier": tier, "seed": seed, "level": cfg["level"],
        "coverage": {
            "evaluations": evaluations,
            "distinct_nontrivial": distinct,
            "rule": cfg["rule"],
            "samples": samples[:12] or [{"note": "no case recorded"}],
            "exhaustive": bool(exhaustive) and cfg.get("exhaustive_claim", False),
            "exhaustive_subspaces": exhaustive,
            "per_check": per_check,
            "known_findings_observed": known,
            "shards": cfg["shards"][tier],
            "native_fuzz_execs": fuzz_execs,
        },
        "assumptions": cfg.get("assumptions", []) + notes,
        "wall_s": round(wall, 2),
        "violations": len(violations),
    }
    os.makedirs(os.path.join(ROOT, "evidence"), exist_ok=True)
    tmp = os.path.join(ROOT, "evidence", cid + ".json.tmp")
    json.dump(evidence, open(tmp, "w"), indent=1)
    os.replace(tmp, os.path.join(ROOT, "evidence", cid + ".json"))

    for k in known:
        print(k)
    if violations:
        for v in violations[:1]:
            print("VIOLATION property=%s replay=%s" % (cid, v))
        if messages.get(violations[0]):
            print(messages[violations[0]][:3000])
        else:
            try:
                print(json.load(open(violations[0])).get("observed", "")[:3000])
            except Exception:
                pass
        finish(1, cid)
    if timed_out:
        log("INCONCLUSIVE: timeout after %ds" % cfg["timeout"][tier])
        finish(2, cid)
    if infra:
        for x in infra:
            log("INCONCLUSIVE:", x)
        finish(2, cid)
    print("OK property=%s tier=%s seed=%d evaluations=%d distinct_nontrivial=%d wall=%.1fs" % (cid, tier, seed, evaluations, distinct, wall))
    finish(0, cid)


if __name__ == "__main__":
    try:
        main()
    except SystemExit:
        raise
    except BaseException as ex:  # a driver bug must never look like a violation
        import traceback
        traceback.print_exc()
        log("INCONCLUSIVE: driver error", repr(ex))
        sys.exit(2)
