#!/usr/bin/env python3
"""Regenerates MANIFEST.json from checks/checks.json (single source of truth for per-check metadata)."""
import json, os
ROOT = os.path.dirname(os.path.abspath(__file__))
checks = json.load(open(os.path.join(ROOT, "checks", "checks.json")))
props = [json.loads(l) for l in open(os.path.join(ROOT, "properties.jsonl")) if l.strip()]
m = {
    "version": 1,
    "setup_cmd": "sh /verif/setup.sh",
    "hooks": {
        "guard": "verif",
        "enable": "go build tag: checks are compiled with `go test -c -tags verif` against /repo through the replace directive in /verif/go.mod",
        "baseline_off_cmd": "cd /repo && go test -vet=off -count=1 ./...",
        "source_commits": json.load(open(os.path.join(ROOT, "hooks.json")))["source_commits"] if os.path.exists(os.path.join(ROOT, "hooks.json")) else [],
        "add_only": True,
    },
    "engines": [{
        "name": "rapid+sweeps",
        "path": "/verif/check.py",
        "serves_properties": sorted(checks.keys()),
        "kind_free_text": "property-based testing (pgregory.net/rapid v1.3.0), deterministic exhaustive sweeps of small finite axes, native go fuzzing in one thorough tier; Python driver shards test binaries over processes and merges evidence",
    }],
    "checks": [],
    "notes": "python3 check.py <ID> quick|thorough ; replay: python3 check.py <ID> --replay <file>. Exit 2 = inconclusive (infrastructure), never a violation. See DESIGN.md.",
    "not_applicable": [],
}
for p in props:
    cid = p["id"]
    c = checks.get(cid)
    if not c:
        m["not_applicable"].append({"property_id": cid, "reason": "check not built yet in this session (planned with the same technique, see DESIGN.md section 4)"})
        continue
    m["checks"].append({
        "property_id": cid,
        "quick_cmd": "python3 check.py %s quick" % cid,
        "thorough_cmd": "python3 check.py %s thorough" % cid,
        "evidence_file": "/verif/evidence/%s.json" % cid,
        "replay_cmd_template": "python3 check.py %s --replay {path}" % cid,
        "engine": "rapid+sweeps",
        "level_claimed": {"category": c["level"], "text": c["level_text"], "design_ref": "DESIGN.md section 4, " + cid},
        "level_note": c["level_note"],
        "technique": c["technique"],
    })
json.dump(m, open(os.path.join(ROOT, "MANIFEST.json"), "w"), indent=1)
print("claimed:", [c["property_id"] for c in m["checks"]], "n/a:", [c["property_id"] for c in m["not_applicable"]])
