module verif

go 1.23

require (
	github.com/aldas/go-modbus-client v0.0.0
	pgregory.net/rapid v1.3.0
)

replace github.com/aldas/go-modbus-client => /repo
