#!/opt/veriftools/pyvenv/bin/python
"""Validates MANIFEST.json and all evidence files against the schemas (developer aid; needs the tooling venv)."""
import json, glob, sys, jsonschema
ok = True
try:
    jsonschema.validate(json.load(open('/verif/MANIFEST.json')), json.load(open('/root/.vp/MANIFEST.schema.json')))
except Exception as e:
    ok = False; print("MANIFEST:", str(e)[:500])
es = json.load(open('/root/.vp/EVIDENCE.schema.json'))
for f in sorted(glob.glob('/verif/evidence/*.json')):
    try:
        jsonschema.validate(json.load(open(f)), es)
    except Exception as e:
        ok = False; print(f, str(e)[:500])
print("schemas ok" if ok else "SCHEMA ERRORS")
sys.exit(0 if ok else 1)
